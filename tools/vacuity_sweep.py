#!/usr/bin/env python3
"""Development helper (vacuity sweep): replace the body of every anchor function by `return <first parameter>` (one at a time, in memory) and
run every check: each anchor must be reported by at least one check, otherwise the clauses anchored in it pass vacuously.  tools/vacuity_sweep.py"""
import sys, ast, os, json
sys.path.insert(0,'/verif')
from concurrent.futures import ProcessPoolExecutor
from nc_static.source import read_tree
from nc_static.flow import ANCHORS
files0 = read_tree('/repo')
def variants():
    for rel, text in files0.items():
        tree = ast.parse(text)
        lines = text.split("\n")
        for node in ast.walk(tree):
            if isinstance(node, ast.FunctionDef) and node.name in ANCHORS:
                body = node.body
                first = body[1] if (isinstance(body[0], ast.Expr) and isinstance(body[0].value, ast.Constant) and len(body) > 1) else body[0]
                if first is body[0] and isinstance(body[0], ast.Expr) and isinstance(body[0].value, ast.Constant):
                    continue
                indent = " " * first.col_offset
                args = [a.arg for a in node.args.args if a.arg not in ("self", "cls")]
                ret = args[0] if args else "None"
                new = lines[:first.lineno-1] + [indent + "return " + ret] + lines[node.end_lineno:]
                yield rel, node.name, node.lineno, "\n".join(new)
def job(v):
    rel, name, lineno, text = v
    from nc_static.main import run_check, registry
    files = dict(files0); files[rel] = text
    try:
        compile(text, rel, "exec")
    except SyntaxError as e:
        return name, lineno, "SYNTAX"
    fired = []
    for pid in sorted(registry()):
        code, rep = run_check(pid, files, write=False, quiet=True, out=open(os.devnull, "w"))
        if code != 0:
            fired.append("%s:%d" % (pid, code))
    return name, lineno, fired
if __name__ == "__main__":
    vs = list(variants())
    with ProcessPoolExecutor(12) as ex:
        for name, lineno, fired in ex.map(job, vs):
            print("%-45s line %-4d %s" % (name, lineno, "SILENT!!" if not fired else (fired if fired == "SYNTAX" else "%d checks: %s" % (len(fired), " ".join(fired[:8])))), flush=True)
