#!/usr/bin/env python3
"""Development helper (not a registered check): classic mutation operators over the netconan package,
to measure what the checks see among the changes the test suite does NOT see.

  tools/mutants.py gen  <outdir>             write <outdir>/<id>/patch.diff + meta.json for every mutant
  tools/mutants.py test <outdir> [--jobs N]  run the pinned suite on each mutant in a scratch copy; records survivors
  tools/mutants.py check <outdir>            run every check on each surviving mutant; records which fire

Scratch copies live under /tmp/mutwork and are removed as soon as a mutant is done.
"""
import ast, difflib, json, os, shutil, subprocess, sys, tempfile
from concurrent.futures import ProcessPoolExecutor

HERE = os.path.dirname(os.path.dirname(os.path.abspath(__file__)))
FILES = ["netconan/anonymize_files.py", "netconan/ip_anonymization.py", "netconan/netconan.py", "netconan/sensitive_item_removal.py", "netconan/utils/juniper_secrets.py"]

CMP = {ast.Lt: "<=", ast.LtE: "<", ast.Gt: ">=", ast.GtE: ">", ast.Eq: "!=", ast.NotEq: "==", ast.Is: "is not", ast.IsNot: "is", ast.In: "not in", ast.NotIn: "in"}
BIN = {ast.Add: "-", ast.Sub: "+", ast.Mult: "//", ast.FloorDiv: "*", ast.Mod: "//", ast.LShift: ">>", ast.RShift: "<<", ast.BitAnd: "|", ast.BitOr: "&", ast.BitXor: "|"}
METH = {"startswith": "endswith", "endswith": "startswith", "lstrip": "rstrip", "rstrip": "lstrip", "strip": "lstrip", "lower": "upper", "search": "match", "match": "search",
        "extend": "append", "update": "difference_update", "get": "pop", "split": "rsplit", "readlines": "readline", "anonymize": "deanonymize", "deanonymize": "anonymize", "min": "max", "max": "min", "any": "all", "all": "any"}


def seg(src_lines, node):
    """(start offset, end offset) of node in the joined source."""
    offs = [0]
    for l in src_lines:
        offs.append(offs[-1] + len(l))
    def off(line, col):
        # col is in utf8 bytes
        text = src_lines[line - 1]
        return offs[line - 1] + len(text.encode()[:col].decode())
    return off(node.lineno, node.col_offset), off(node.end_lineno, node.end_col_offset)


def gen_file(rel, src):
    tree = ast.parse(src)
    lines = src.splitlines(keepends=True)
    out = []  # (start, end, replacement, operator, lineno)
    doc = set()
    for n in ast.walk(tree):
        if isinstance(n, (ast.FunctionDef, ast.ClassDef, ast.Module, ast.AsyncFunctionDef)) and n.body and isinstance(n.body[0], ast.Expr) and isinstance(n.body[0].value, ast.Constant) and isinstance(n.body[0].value.value, str):
            doc.add(id(n.body[0].value))
    parents = {}
    for n in ast.walk(tree):
        for c in ast.iter_child_nodes(n):
            parents[id(c)] = n

    def in_logging(n):
        while n is not None:
            if isinstance(n, ast.Call) and isinstance(n.func, ast.Attribute) and isinstance(n.func.value, ast.Name) and n.func.value.id == "logging":
                return True
            n = parents.get(id(n))
        return False

    def in_add_argument_help(n):
        p = parents.get(id(n))
        return isinstance(p, ast.keyword) and p.arg in ("help", "description")

    def text(n):
        a, b = seg(lines, n)
        return src[a:b]

    for n in ast.walk(tree):
        if isinstance(n, ast.Compare) and len(n.ops) == 1 and type(n.ops[0]) in CMP:
            a, _ = seg(lines, n)
            l_end = seg(lines, n.left)[1]
            r_start = seg(lines, n.comparators[0])[0]
            out.append((l_end, r_start, " " + CMP[type(n.ops[0])] + " ", "cmp", n.lineno))
        if isinstance(n, ast.BoolOp) and len(n.values) == 2:
            l_end = seg(lines, n.values[0])[1]
            r_start = seg(lines, n.values[1])[0]
            mid = src[l_end:r_start]
            if isinstance(n.op, ast.And) and " and " in mid.replace("\n", " "):
                out.append((l_end, r_start, mid.replace("and", "or", 1), "bool", n.lineno))
            elif isinstance(n.op, ast.Or) and "or" in mid:
                out.append((l_end, r_start, mid.replace("or", "and", 1), "bool", n.lineno))
        if isinstance(n, ast.BinOp) and type(n.op) in BIN and not in_logging(n):
            l_end = seg(lines, n.left)[1]
            r_start = seg(lines, n.right)[0]
            mid = src[l_end:r_start]
            if isinstance(n.left, ast.Constant) and isinstance(n.left.value, str) and isinstance(n.op, ast.Mod):
                continue
            if isinstance(n.op, ast.Add) and (isinstance(n.left, ast.Constant) and isinstance(n.left.value, str) or isinstance(n.right, ast.Constant) and isinstance(n.right.value, str)):
                continue
            sym = {ast.Add: "+", ast.Sub: "-", ast.Mult: "*", ast.FloorDiv: "//", ast.Mod: "%", ast.LShift: "<<", ast.RShift: ">>", ast.BitAnd: "&", ast.BitOr: "|", ast.BitXor: "^"}[type(n.op)]
            if sym in mid:
                out.append((l_end, r_start, mid.replace(sym, BIN[type(n.op)], 1), "bin", n.lineno))
        if isinstance(n, ast.UnaryOp) and isinstance(n.op, ast.Not):
            a, b = seg(lines, n)
            out.append((a, b, "(" + text(n.operand) + ")", "not-removed", n.lineno))
        if isinstance(n, (ast.If, ast.While)) and not isinstance(n.test, ast.Constant):
            a, b = seg(lines, n.test)
            out.append((a, b, "not (" + src[a:b] + ")", "cond-negated", n.lineno))
        if isinstance(n, ast.IfExp):
            a, b = seg(lines, n.test)
            out.append((a, b, "not (" + src[a:b] + ")", "cond-negated", n.lineno))
        if isinstance(n, ast.Constant) and id(n) not in doc and not in_logging(n) and not in_add_argument_help(n):
            a, b = seg(lines, n)
            v = n.value
            if isinstance(v, bool):
                out.append((a, b, repr(not v), "const", n.lineno))
            elif isinstance(v, int) and abs(v) <= 4294967296:
                out.append((a, b, repr(v + 1), "const", n.lineno))
                if v != 0:
                    out.append((a, b, repr(v - 1), "const", n.lineno))
            elif v is None and isinstance(parents.get(id(n)), ast.Compare):
                pass
            elif isinstance(v, str) and len(v) <= 3 and not isinstance(parents.get(id(n)), ast.JoinedStr) and src[a:b][:1] in "'\"":
                out.append((a, b, repr(v + "x") if v == "" else '""', "const-str", n.lineno))
        if isinstance(n, ast.Subscript) and isinstance(n.slice, ast.Slice):
            sl = n.slice
            for bound, which in ((sl.lower, "lower"), (sl.upper, "upper")):
                if bound is not None:
                    a, b = seg(lines, bound)
                    out.append((a, b, "(" + src[a:b] + ") + 1", "slice-" + which, n.lineno))
        if isinstance(n, ast.Call) and isinstance(n.func, ast.Attribute) and n.func.attr in METH and not in_logging(n):
            a, b = seg(lines, n.func)
            t = src[a:b]
            i = t.rfind(n.func.attr)
            out.append((a + i, b, METH[n.func.attr], "method", n.lineno))
        if isinstance(n, ast.Call) and isinstance(n.func, ast.Name) and n.func.id in ("min", "max", "any", "all"):
            a, b = seg(lines, n.func)
            out.append((a, b, METH[n.func.id], "builtin", n.lineno))
        if isinstance(n, ast.Call) and len(n.args) == 2 and not n.keywords and all(isinstance(x, (ast.Name, ast.Attribute)) for x in n.args) and not in_logging(n):
            a0, b0 = seg(lines, n.args[0])
            a1, b1 = seg(lines, n.args[1])
            out.append((a0, b1, src[a1:b1] + src[b0:a1] + src[a0:b0], "arg-swap", n.lineno))
        if isinstance(n, ast.Call) and n.keywords and not in_logging(n):
            for k in n.keywords:
                if k.arg is not None and not (isinstance(n.func, ast.Attribute) and n.func.attr in ("add_argument", "ArgParser")):
                    # drop a keyword argument whose parameter has a default (found out by the suite / import if not)
                    pass
        if isinstance(n, (ast.Expr,)) and isinstance(n.value, ast.Call) and not in_logging(n.value) and id(n.value) not in doc:
            a, b = seg(lines, n)
            out.append((a, b, "pass", "stmt-deleted", n.lineno))
        if isinstance(n, (ast.Assign, ast.AugAssign)) and isinstance(parents.get(id(n)), (ast.FunctionDef, ast.If, ast.For, ast.While, ast.With, ast.Try, ast.ExceptHandler)):
            par = parents.get(id(n))
            if isinstance(n, ast.AugAssign) or not isinstance(par, ast.FunctionDef) or True:
                a, b = seg(lines, n)
                out.append((a, b, "pass", "assign-deleted", n.lineno))
        if isinstance(n, ast.Return) and n.value is not None and not (isinstance(n.value, ast.Constant) and n.value.value is None):
            a, b = seg(lines, n.value)
            if isinstance(n.value, ast.Name) or isinstance(n.value, ast.BinOp):
                pass
        if isinstance(n, ast.Break):
            a, b = seg(lines, n)
            out.append((a, b, "continue", "break-continue", n.lineno))
        if isinstance(n, ast.Continue):
            a, b = seg(lines, n)
            out.append((a, b, "break", "continue-break", n.lineno))
        if isinstance(n, ast.Raise) and n.exc is not None:
            a, b = seg(lines, n)
            out.append((a, b, "pass", "raise-deleted", n.lineno))
    res = []
    seen = set()
    for a, b, repl, op, ln in out:
        new = src[:a] + repl + src[b:]
        if new == src or (a, b, repl) in seen:
            continue
        seen.add((a, b, repl))
        try:
            ast.parse(new)
        except SyntaxError:
            continue
        res.append((op, ln, src[a:b], repl, new))
    return res


REGEX_EDITS = [("+", "*"), ("*", "+"), ("+", ""), ("?", ""), ("\\S", "\\w"), ("\\S", "."), ("\\d", "."), ("\\s", " "), ("{1,4}", "{1,3}"), ("{1,4}", "{0,4}"), ("{1,3}", "{1,2}"), ("^", ""), ("$", ""), ("(?<=", "(?:"), ("(?!", "(?="), ("(?=", "(?!"), ("|", "||"),
               ("[^", "["), ("0-9", "1-9"), ("a-f", "a-e"), ("A-F", "A-E"), ("\\b", ""), ("(?:", "("), (" ", "\\s"), ("\\.", "."), ("[.]", ".")]
FILES2 = FILES + ["netconan/default_pwd_regexes.py"]
UNWRAP = {"list", "set", "tuple", "sorted", "str", "int", "reversed"}
UNMETH = {"lower", "upper", "strip", "lstrip", "rstrip", "copy", "encode", "decode"}


def gen_file2(rel, src):
    """Second operator set: wrong variable, dropped element / keyword / guard, regex edits, unwrapped conversions, loop ranges."""
    tree = ast.parse(src)
    lines = src.splitlines(keepends=True)
    out = []
    parents = {}
    for n in ast.walk(tree):
        for c in ast.iter_child_nodes(n):
            parents[id(c)] = n
    doc = set()
    for n in ast.walk(tree):
        if isinstance(n, (ast.FunctionDef, ast.ClassDef, ast.Module)) and n.body and isinstance(n.body[0], ast.Expr) and isinstance(n.body[0].value, ast.Constant) and isinstance(n.body[0].value.value, str):
            doc.add(id(n.body[0].value))

    def in_logging(n):
        while n is not None:
            if isinstance(n, ast.Call) and isinstance(n.func, ast.Attribute) and isinstance(n.func.value, ast.Name) and n.func.value.id == "logging":
                return True
            n = parents.get(id(n))
        return False

    def enclosing_fn(n):
        while n is not None and not isinstance(n, (ast.FunctionDef, ast.AsyncFunctionDef)):
            n = parents.get(id(n))
        return n

    def S(n):
        return seg(lines, n)
    for n in ast.walk(tree):
        # wrong variable: an argument / operand Name replaced by another parameter of the same function
        if isinstance(n, ast.Name) and isinstance(n.ctx, ast.Load) and not in_logging(n):
            fn = enclosing_fn(n)
            par = parents.get(id(n))
            if fn is not None and isinstance(par, (ast.Call, ast.BinOp, ast.Compare, ast.Return, ast.Subscript, ast.keyword)) and not (isinstance(par, ast.Call) and par.func is n):
                params = [a.arg for a in fn.args.args + fn.args.kwonlyargs if a.arg not in ("self", "cls")]
                locs = sorted({x.id for x in ast.walk(fn) if isinstance(x, ast.Name) and isinstance(x.ctx, ast.Store)})
                cands = [c for c in params + locs if c != n.id][:3]
                if n.id in params or n.id in locs:
                    a, b = S(n)
                    for c in cands:
                        out.append((a, b, c, "wrong-var", n.lineno))
        # dropped element of a display
        if isinstance(n, (ast.List, ast.Tuple, ast.Set)) and len(n.elts) >= 2 and isinstance(n.ctx, ast.Load) and not in_logging(n):
            for i, e in enumerate(n.elts):
                a, b = S(e)
                if i + 1 < len(n.elts):
                    b = S(n.elts[i + 1])[0]
                else:
                    a = S(n.elts[i - 1])[1]
                out.append((a, b, "", "elt-dropped", e.lineno))
        if isinstance(n, ast.Dict) and len(n.keys) >= 2:
            for i, (k, v) in enumerate(zip(n.keys, n.values)):
                if k is None:
                    continue
                a = S(k)[0]
                b = S(v)[1]
                if i + 1 < len(n.keys) and n.keys[i + 1] is not None:
                    b = S(n.keys[i + 1])[0]
                    out.append((a, b, "", "entry-dropped", k.lineno))
        # dropped keyword argument
        if isinstance(n, ast.Call) and n.keywords and not in_logging(n) and not (isinstance(n.func, ast.Attribute) and n.func.attr == "add_argument"):
            allargs = list(n.args) + [k.value for k in n.keywords]
            for k in n.keywords:
                if k.arg is None:
                    continue
                idx = allargs.index(k.value)
                if idx == 0:
                    continue
                a = S(allargs[idx - 1])[1]
                b = S(k.value)[1]
                out.append((a, b, "", "kw-dropped", k.value.lineno))
        # add_argument: dropped default/type/required/action
        if isinstance(n, ast.Call) and isinstance(n.func, ast.Attribute) and n.func.attr == "add_argument":
            allargs = list(n.args) + [k.value for k in n.keywords]
            for k in n.keywords:
                if k.arg in ("default", "type", "required", "action", "is_config_file", "choices"):
                    idx = allargs.index(k.value)
                    a = S(allargs[idx - 1])[1]
                    b = S(k.value)[1]
                    out.append((a, b, "", "optkw-dropped", k.value.lineno))
        # guard removed: `if c: body` (no else) -> body unconditionally / never
        if isinstance(n, ast.If) and not n.orelse:
            a, b = S(n.test)
            out.append((a, b, "True", "guard-always", n.lineno))
            out.append((a, b, "False", "guard-never", n.lineno))
        # regex edits inside string constants that look like patterns
        if isinstance(n, ast.Constant) and isinstance(n.value, str) and id(n) not in doc and not in_logging(n) and len(n.value) >= 3 and any(ch in n.value for ch in "\\[(+*?^$|") and not isinstance(parents.get(id(n)), ast.JoinedStr):
            p_ = parents.get(id(n))
            if isinstance(p_, ast.keyword) and p_.arg in ("help", "description"):
                continue
            a, b = S(n)
            lit = src[a:b]
            seen_here = set()
            for old, new in REGEX_EDITS:
                start = 0
                cnt = 0
                while cnt < 2:
                    i = lit.find(old, start)
                    if i < 0:
                        break
                    start = i + len(old)
                    if i == 0 or i >= len(lit) - 1:
                        continue
                    cand = lit[:i] + new + lit[i + len(old):]
                    if cand not in seen_here:
                        seen_here.add(cand)
                        out.append((a, b, cand, "regex", n.lineno))
                        cnt += 1
        # unwrapped conversion / dropped normalising method
        if isinstance(n, ast.Call) and isinstance(n.func, ast.Name) and n.func.id in UNWRAP and len(n.args) == 1 and not n.keywords and not in_logging(n):
            a, b = S(n)
            a1, b1 = S(n.args[0])
            out.append((a, b, src[a1:b1], "unwrapped", n.lineno))
        if isinstance(n, ast.Call) and isinstance(n.func, ast.Attribute) and n.func.attr in UNMETH and not n.args and not in_logging(n):
            a, b = S(n)
            a1, b1 = S(n.func.value)
            out.append((a, b, src[a1:b1], "method-dropped", n.lineno))
        # loops
        if isinstance(n, (ast.For, ast.comprehension)):
            it = n.iter
            a, b = S(it)
            if isinstance(it, ast.Call) and isinstance(it.func, ast.Name) and it.func.id == "range" and len(it.args) == 1:
                a1, b1 = S(it.args[0])
                out.append((a1, b1, "(" + src[a1:b1] + ") - 1", "range-short", it.lineno))
                out.append((a1, b1, "1, " + src[a1:b1], "range-from-1", it.lineno))
            elif isinstance(it, (ast.Name, ast.Attribute)):
                out.append((a, b, src[a:b] + "[1:]", "iter-skip-first", it.lineno))
                out.append((a, b, src[a:b] + "[:-1]", "iter-skip-last", it.lineno))
        # None test <-> truthiness
        if isinstance(n, ast.Compare) and len(n.ops) == 1 and isinstance(n.ops[0], (ast.Is, ast.IsNot)) and isinstance(n.comparators[0], ast.Constant) and n.comparators[0].value is None:
            a, b = S(n)
            l0, l1 = S(n.left)
            out.append((a, b, ("not " if isinstance(n.ops[0], ast.Is) else "") + src[l0:l1], "none-as-truthiness", n.lineno))
        if isinstance(n, ast.AugAssign):
            a = S(n.target)[1]
            b = S(n.value)[0]
            out.append((a, b, " = ", "aug-to-assign", n.lineno))
        if isinstance(n, ast.Return) and n.value is not None and isinstance(n.value, ast.BinOp) and isinstance(n.value.op, ast.Add):
            a, b = S(n.value)
            l0, l1 = S(n.value.left)
            r0, r1 = S(n.value.right)
            out.append((a, b, src[l0:l1], "return-left-only", n.lineno))
            out.append((a, b, src[r0:r1], "return-right-only", n.lineno))
    res = []
    seen = set()
    for a, b, repl, op, ln in out:
        new = src[:a] + repl + src[b:]
        if new == src or (a, b, repl) in seen:
            continue
        seen.add((a, b, repl))
        try:
            ast.parse(new)
        except SyntaxError:
            continue
        res.append((op, ln, src[a:b], repl, new))
    return res


def gen_file3(rel, src):
    """Third operator set: statement order, duplicated statements, dropped else, swapped table elements / keyword values, wrong attribute, group indices."""
    tree = ast.parse(src)
    lines = src.splitlines(keepends=True)
    out = []
    parents = {}
    for n in ast.walk(tree):
        for c in ast.iter_child_nodes(n):
            parents[id(c)] = n

    def in_logging(n):
        while n is not None:
            if isinstance(n, ast.Call) and isinstance(n.func, ast.Attribute) and isinstance(n.func.value, ast.Name) and n.func.value.id == "logging":
                return True
            n = parents.get(id(n))
        return False

    def S(n):
        return seg(lines, n)

    def simple(st):
        return isinstance(st, (ast.Assign, ast.AugAssign, ast.Expr)) and not (isinstance(st, ast.Expr) and isinstance(st.value, ast.Constant)) and not in_logging(st.value if hasattr(st, "value") else st)
    for n in ast.walk(tree):
        for field in ("body", "orelse", "finalbody"):
            blk = getattr(n, field, None)
            if not isinstance(blk, list) or not blk or not isinstance(blk[0], ast.stmt):
                continue
            if isinstance(n, (ast.Module, ast.ClassDef)):
                continue
            for a, b in zip(blk, blk[1:]):
                if simple(a) and simple(b) and a.col_offset == b.col_offset:
                    a0, a1 = S(a)
                    b0, b1 = S(b)
                    out.append((a0, b1, src[b0:b1] + src[a1:b0] + src[a0:a1], "stmt-swap", a.lineno))
            for st in blk:
                if isinstance(st, (ast.AugAssign,)) or (isinstance(st, ast.Expr) and isinstance(st.value, ast.Call) and not in_logging(st.value)):
                    a0, a1 = S(st)
                    indent = " " * st.col_offset
                    out.append((a0, a1, src[a0:a1] + "\n" + indent + src[a0:a1], "stmt-duplicated", st.lineno))
        if isinstance(n, ast.If) and n.orelse and not (len(n.orelse) == 1 and isinstance(n.orelse[0], ast.If)):
            a0 = S(n.orelse[0])[0]
            a1 = S(n.orelse[-1])[1]
            out.append((a0, a1, "pass", "else-dropped", n.orelse[0].lineno))
        if isinstance(n, (ast.List, ast.Tuple)) and isinstance(n.ctx, ast.Load) and 2 <= len(n.elts) and not in_logging(n):
            for a, b in zip(n.elts, n.elts[1:]):
                a0, a1 = S(a)
                b0, b1 = S(b)
                if src[a0:a1] != src[b0:b1]:
                    out.append((a0, b1, src[b0:b1] + src[a1:b0] + src[a0:a1], "elts-swapped", a.lineno))
        if isinstance(n, ast.Call) and len(n.keywords) >= 2 and not in_logging(n):
            kws = [k for k in n.keywords if k.arg is not None]
            for a, b in zip(kws, kws[1:]):
                a0, a1 = S(a.value)
                b0, b1 = S(b.value)
                if src[a0:a1] != src[b0:b1]:
                    out.append((a0, b1, src[b0:b1] + src[a1:b0] + src[a0:a1], "kw-values-swapped", a.value.lineno))
        if isinstance(n, ast.Attribute) and isinstance(n.value, ast.Name) and n.value.id == "self" and isinstance(n.ctx, ast.Load) and not in_logging(n):
            cls = n
            while cls is not None and not isinstance(cls, ast.ClassDef):
                cls = parents.get(id(cls))
            if cls is not None:
                attrs = sorted({x.attr for x in ast.walk(cls) if isinstance(x, ast.Attribute) and isinstance(x.value, ast.Name) and x.value.id == "self" and isinstance(x.ctx, ast.Store)})
                a0, a1 = S(n)
                k = 0
                for other in attrs:
                    if other != n.attr and k < 2 and not isinstance(parents.get(id(n)), ast.Call) or (other != n.attr and k < 2 and parents.get(id(n)).func is not n):
                        out.append((a0, a1, "self." + other, "wrong-attr", n.lineno))
                        k += 1
        if rel.endswith("default_pwd_regexes.py") and isinstance(n, ast.Constant) and isinstance(n.value, int) and not isinstance(n.value, bool):
            a0, a1 = S(n)
            out.append((a0, a1, repr(n.value + 1), "group-index", n.lineno))
            if n.value > 0:
                out.append((a0, a1, repr(n.value - 1), "group-index", n.lineno))
        if isinstance(n, ast.Return) and n.value is not None and not isinstance(n.value, ast.Constant):
            fn = n
            while fn is not None and not isinstance(fn, (ast.FunctionDef, ast.AsyncFunctionDef)):
                fn = parents.get(id(fn))
            if fn is not None:
                params = [a.arg for a in fn.args.args if a.arg not in ("self", "cls")]
                a0, a1 = S(n.value)
                for pn in params[:2]:
                    if src[a0:a1] != pn:
                        out.append((a0, a1, pn, "return-param", n.lineno))
    res = []
    seen = set()
    for a, b, repl, op, ln in out:
        new = src[:a] + repl + src[b:]
        if new == src or (a, b, repl) in seen:
            continue
        seen.add((a, b, repl))
        try:
            ast.parse(new)
        except SyntaxError:
            continue
        res.append((op, ln, src[a:b], repl, new))
    return res


def cmd_gen3(outdir):
    os.makedirs(outdir, exist_ok=True)
    n = 0
    for rel in FILES2:
        src = open(os.path.join("/repo", rel)).read()
        for op, ln, old, repl, new in gen_file3(rel, src):
            n += 1
            mid = "mw%04d" % n
            d = os.path.join(outdir, mid)
            os.makedirs(d, exist_ok=True)
            diff = "".join(difflib.unified_diff(src.splitlines(keepends=True), new.splitlines(keepends=True), "a/" + rel, "b/" + rel, n=3))
            open(os.path.join(d, "patch.diff"), "w").write(diff)
            json.dump({"file": rel, "line": ln, "operator": op, "old": old[:120], "new": repl[:120]}, open(os.path.join(d, "meta.json"), "w"), indent=1)
    print("mutants:", n)


def cmd_gen2(outdir):
    os.makedirs(outdir, exist_ok=True)
    n = 0
    for rel in FILES2:
        src = open(os.path.join("/repo", rel)).read()
        for op, ln, old, repl, new in gen_file2(rel, src):
            n += 1
            mid = "mv%04d" % n
            d = os.path.join(outdir, mid)
            os.makedirs(d, exist_ok=True)
            diff = "".join(difflib.unified_diff(src.splitlines(keepends=True), new.splitlines(keepends=True), "a/" + rel, "b/" + rel, n=3))
            open(os.path.join(d, "patch.diff"), "w").write(diff)
            json.dump({"file": rel, "line": ln, "operator": op, "old": old[:120], "new": repl[:120]}, open(os.path.join(d, "meta.json"), "w"), indent=1)
    print("mutants:", n)


def cmd_gen(outdir):
    os.makedirs(outdir, exist_ok=True)
    n = 0
    for rel in FILES:
        src = open(os.path.join("/repo", rel)).read()
        for op, ln, old, repl, new in gen_file(rel, src):
            n += 1
            mid = "mu%04d" % n
            d = os.path.join(outdir, mid)
            os.makedirs(d, exist_ok=True)
            diff = "".join(difflib.unified_diff(src.splitlines(keepends=True), new.splitlines(keepends=True), "a/" + rel, "b/" + rel, n=3))
            open(os.path.join(d, "patch.diff"), "w").write(diff)
            json.dump({"file": rel, "line": ln, "operator": op, "old": old[:120], "new": repl[:120]}, open(os.path.join(d, "meta.json"), "w"), indent=1)
    print("mutants:", n)


def run_suite(d):
    work = tempfile.mkdtemp(prefix="mutwork-", dir="/tmp")
    try:
        subprocess.check_call("cd /repo && git archive HEAD | tar -x -C %s" % work, shell=True)
        r = subprocess.run(["git", "apply", os.path.join(d, "patch.diff")], cwd=work, capture_output=True, text=True)
        if r.returncode != 0:
            return d, "apply-fail"
        try:
            r = subprocess.run(["/venv/bin/python", "-m", "pytest", "-q", "-p", "no:cacheprovider", "-x", "--no-cov", "tests"], cwd=work, capture_output=True, text=True, timeout=600,
                               env=dict(os.environ, PYTHONDONTWRITEBYTECODE="1"))
        except subprocess.TimeoutExpired:
            return d, "timeout"
        return d, "survived" if r.returncode == 0 else "killed"
    finally:
        shutil.rmtree(work, ignore_errors=True)


def cmd_test(outdir, jobs):
    ds = sorted(os.path.join(outdir, x) for x in os.listdir(outdir) if os.path.isdir(os.path.join(outdir, x)))
    todo = [d for d in ds if "suite" not in json.load(open(os.path.join(d, "meta.json")))]
    print("to test:", len(todo))
    with ProcessPoolExecutor(jobs) as ex:
        for i, (d, res) in enumerate(ex.map(run_suite, todo)):
            m = json.load(open(os.path.join(d, "meta.json")))
            m["suite"] = res
            json.dump(m, open(os.path.join(d, "meta.json"), "w"), indent=1)
            if i % 50 == 0:
                print(i, flush=True)
    tally = {}
    for d in ds:
        s = json.load(open(os.path.join(d, "meta.json"))).get("suite")
        tally[s] = tally.get(s, 0) + 1
    print(tally)


def check_one(d):
    sys.path.insert(0, HERE)
    sys.path.insert(0, os.path.join(HERE, "tools"))
    from run_seeds import make_base, run_all, baseline
    from nc_static.source import read_tree
    from nc_static.main import registry
    pids = sorted(registry())
    tmp = tempfile.mkdtemp(prefix="ncmut-")
    try:
        make_base(tmp, "WORKTREE")
        r = subprocess.run(["git", "apply", os.path.join(d, "patch.diff")], cwd=tmp, capture_output=True, text=True)
        if r.returncode != 0:
            return d, None
        base = baseline("WORKTREE", pids)
        got = run_all(read_tree(tmp), pids)
        fired = {}
        for pid in pids:
            code, keys = got[pid]
            if code == 2:
                fired[pid] = ["ANALYSIS-ERROR"]
            else:
                new = [k for k in keys if k not in set(base[pid][1])]
                if new:
                    fired[pid] = [k.split("|")[0] for k in new[:4]]
        return d, fired
    finally:
        shutil.rmtree(tmp, ignore_errors=True)


def cmd_check(outdir, jobs):
    ds = sorted(os.path.join(outdir, x) for x in os.listdir(outdir) if os.path.isdir(os.path.join(outdir, x)))
    surv = [d for d in ds if json.load(open(os.path.join(d, "meta.json"))).get("suite") == "survived"]
    print("survivors:", len(surv))
    n_f = 0
    with ProcessPoolExecutor(jobs) as ex:
        for d, fired in ex.map(check_one, surv):
            m = json.load(open(os.path.join(d, "meta.json")))
            m["fired"] = fired
            json.dump(m, open(os.path.join(d, "meta.json"), "w"), indent=1)
            n_f += bool(fired)
    print("survivors flagged by some check: %d of %d" % (n_f, len(surv)))


if __name__ == "__main__":
    cmd = sys.argv[1]
    outdir = sys.argv[2]
    jobs = 16
    if "--jobs" in sys.argv:
        jobs = int(sys.argv[sys.argv.index("--jobs") + 1])
    if cmd == "gen":
        cmd_gen(outdir)
    elif cmd == "gen2":
        cmd_gen2(outdir)
    elif cmd == "gen3":
        cmd_gen3(outdir)
    elif cmd == "test":
        cmd_test(outdir, jobs)
    elif cmd == "check":
        cmd_check(outdir, jobs)
