#!/usr/bin/env python3
"""One-off helper: record the pattern table of the reference tree (a git revision of /repo)
as /verif/reference/pwd_patterns.json.  Not run by any check."""
import json, os, subprocess, sys, tempfile, shutil
HERE = os.path.dirname(os.path.dirname(os.path.abspath(__file__)))
sys.path.insert(0, HERE)
from nc_static.main import Ctx
from nc_static.source import read_tree
from nc_static.report import Report
from nc_static import pwdtable
rev = sys.argv[1] if len(sys.argv) > 1 else "HEAD"
tmp = tempfile.mkdtemp()
try:
    subprocess.check_call("git -C /repo archive %s netconan | tar -x -C %s" % (rev, tmp), shell=True)
    ctx = Ctx(read_tree(tmp))
    prefix, groups = pwdtable.load(ctx, Report("ref"), "ref")
    out = {"revision": subprocess.check_output(["git", "-C", "/repo", "rev-parse", rev], text=True).strip(), "prefix": prefix,
           "groups": [[[p.text, p.idx] for p in g] for g in groups]}
    json.dump(out, open(os.path.join(HERE, "reference", "pwd_patterns.json"), "w"), indent=1)
    print(len(groups), "groups written")
finally:
    shutil.rmtree(tmp)

# ---- anchor fingerprints (for rename / move detection) -----------------------
import ast as _ast
from nc_static.flow import ANCHORS
from nc_static.source import Program


def fingerprint(f):
    names = set()
    for n in _ast.walk(f.node):
        if isinstance(n, _ast.Call):
            fn = n.func
            if isinstance(fn, _ast.Name):
                names.add(fn.id)
            elif isinstance(fn, _ast.Attribute):
                names.add("." + fn.attr)
        elif isinstance(n, _ast.Attribute):
            names.add("@" + n.attr)
        elif isinstance(n, _ast.Constant) and isinstance(n.value, str) and 3 <= len(n.value) <= 60:
            names.add("'" + n.value)
    return sorted(names)


from nc_static.source import _fingerprint as fingerprint  # the engine's own feature extraction (one definition)
_prev = json.load(open(os.path.join(HERE, "reference", "anchors.json")))
ANCHORS = set(ANCHORS) | {a["name"] for a in _prev["anchors"]}  # never shrink the anchor set

tmp2 = tempfile.mkdtemp()
try:
    subprocess.check_call("git -C /repo archive %s netconan | tar -x -C %s" % (rev, tmp2), shell=True)
    prog = Program(read_tree(tmp2))
    anchors = []
    for f in prog.all_functions():
        if f.name in ANCHORS:
            anchors.append({"module": f.module.name, "cls": f.cls.name if f.cls else None, "name": f.name, "nparams": len(f.params), "features": fingerprint(f)})
    json.dump({"revision": rev, "anchors": anchors}, open(os.path.join(HERE, "reference", "anchors.json"), "w"), indent=1)
    print(len(anchors), "anchor fingerprints written")
finally:
    shutil.rmtree(tmp2)
