#!/usr/bin/env python3
"""One-off helper: record the pattern table of the reference tree (a git revision of /repo)
as /verif/reference/pwd_patterns.json.  Not run by any check."""
import json, os, subprocess, sys, tempfile, shutil
HERE = os.path.dirname(os.path.dirname(os.path.abspath(__file__)))
sys.path.insert(0, HERE)
from nc_static.main import Ctx
from nc_static.source import read_tree
from nc_static.report import Report
from nc_static import pwdtable
rev = sys.argv[1] if len(sys.argv) > 1 else "HEAD"
tmp = tempfile.mkdtemp()
try:
    subprocess.check_call("git -C /repo archive %s netconan | tar -x -C %s" % (rev, tmp), shell=True)
    ctx = Ctx(read_tree(tmp))
    prefix, groups = pwdtable.load(ctx, Report("ref"), "ref")
    out = {"revision": subprocess.check_output(["git", "-C", "/repo", "rev-parse", rev], text=True).strip(), "prefix": prefix,
           "groups": [[[p.text, p.idx] for p in g] for g in groups]}
    json.dump(out, open(os.path.join(HERE, "reference", "pwd_patterns.json"), "w"), indent=1)
    print(len(groups), "groups written")
finally:
    shutil.rmtree(tmp)
