#!/bin/sh
# reconfirm_head.sh <worker index 1..8>: re-run the seeds against the repaired HEAD in scratch worktree /tmp/wt/h<i>
i=$1; W=/tmp/wt/h$i; n=0
for d in /verif/seeded/*/; do
  n=$((n+1)); [ $((n % 8)) -eq $((i % 8)) ] || continue
  cd $W && git checkout -q -- . && git clean -qfd
  R=$d/confirm_head.txt; : > $R
  if ! git apply $d/patch.diff 2>/dev/null; then echo "applies_on_repaired_head=no" >> $R; continue; fi
  echo "applies_on_repaired_head=yes" >> $R
  /venv/bin/python -m pytest -q -p no:cacheprovider -x tests >/tmp/wt/suite.$i.log 2>&1; echo "suite_exit=$?" >> $R
  cp $d/demo.py $W/_demo_seed.py
  ( cd $W && PYTHONPATH=$W timeout 900 /venv/bin/python _demo_seed.py >/dev/null 2>&1 ); echo "demo_with_mutation_exit=$?" >> $R
  git checkout -q -- .
  ( cd $W && PYTHONPATH=$W timeout 900 /venv/bin/python _demo_seed.py >/dev/null 2>&1 ); echo "demo_clean_exit=$?" >> $R
  rm -f $W/_demo_seed.py
done
