#!/usr/bin/env python3
"""Development helper: run every check against behaviour-preserving patches (false-alarm test).
  tools/run_neutral.py [root (default /verif/neutral)]"""
import io, json, os, shutil, subprocess, sys, tempfile
from concurrent.futures import ProcessPoolExecutor
HERE = os.path.dirname(os.path.dirname(os.path.abspath(__file__)))
sys.path.insert(0, HERE)
sys.path.insert(0, os.path.join(HERE, "tools"))
from run_seeds import make_base, run_all, baseline


def one(args):
    d, pids = args
    from nc_static.source import read_tree
    tmp = tempfile.mkdtemp(prefix="ncneu-")
    try:
        make_base(tmp, "WORKTREE")
        r = subprocess.run(["git", "apply", os.path.join(d, "patch.diff")], cwd=tmp, capture_output=True, text=True)
        if r.returncode != 0:
            return d, {"_apply": r.stderr[:200]}
        base = baseline("WORKTREE", pids)
        got = run_all(read_tree(tmp), pids)
        res = {}
        for pid in pids:
            code, keys = got[pid]
            if code == 2:
                res[pid] = (2, keys)
            else:
                new = [k for k in keys if k not in set(base[pid][1])]
                if new:
                    res[pid] = (1, new)
        return d, res
    finally:
        shutil.rmtree(tmp, ignore_errors=True)


def main():
    from nc_static.main import registry
    root = sys.argv[1] if len(sys.argv) > 1 else "/verif/neutral"
    pids = sorted(registry())
    ds = sorted(os.path.join(root, x) for x in os.listdir(root) if os.path.exists(os.path.join(root, x, "patch.diff")))
    alarms = 0
    limits = 0
    with ProcessPoolExecutor(16) as ex:
        for d, res in ex.map(one, [(d, pids) for d in ds]):
            bad = {p: r for p, r in res.items()}
            lim = False
            try:
                lim = bool(json.load(open(os.path.join(d, "meta.json"))).get("documented_limit"))
            except Exception:
                pass
            alarms += bool(bad) and not lim
            limits += bool(bad) and lim
            print("%-10s %s" % (os.path.basename(d), "silent" if not bad else ("LIMIT " if lim else "ALARM ") + json.dumps({p: (r[1][:2] if isinstance(r, tuple) else r) for p, r in bad.items()})[:600]), flush=True)
    print("patches: %d, with a false alarm: %d, documented limits of the recognised idioms (alarm expected): %d" % (len(ds), alarms, limits))


if __name__ == "__main__":
    main()
