#!/bin/sh
# Applies each seeded change to /repo itself (git apply), runs the target property's quick check, and undoes it straight afterwards.
# Not a registered check. Writes seeded/RESULTS.md. Afterwards re-runs every check on the clean tree (evidence must describe the clean tree).
cd /verif || exit 2
[ -z "$(git -C /repo status --porcelain)" ] || { echo "/repo is not clean"; exit 2; }
OUT=seeded/RESULTS.md
{ echo "# Seeded changes vs. the registered quick checks (run against /repo itself)"; echo; echo "| seed | property | exit | clauses reported |"; echo "|---|---|---|---|"; } > $OUT
for d in seeded/*/; do
  s=$(basename $d); p=$(python3 -c "import json;print(json.load(open('$d/meta.json'))['property'])")
  if ! git -C /repo apply /verif/$d/patch.diff 2>/dev/null; then echo "| $s | $p | - | patch does not apply |" >> $OUT; continue; fi
  ./check $p --tier quick > /tmp/seedrun.log 2>&1; code=$?
  git -C /repo checkout -- . ; git -C /repo clean -fdq -- netconan   # a seed may add a new module: untracked files are removed too
  cl=$(grep "violated:" /tmp/seedrun.log | awk '{print $2}' | sort -u | tr '\n' ' ')
  nb=$(python3 -c "import json;print(json.load(open('$d/meta.json')).get('neutralised_by',''))")
  [ -n "$nb" ] && cl="(neutralised by fix $nb: the change no longer breaks the property; exit 0 is the right answer) $cl"
  echo "| $s | $p | $code | $cl |" >> $OUT
done
[ -z "$(git -C /repo status --porcelain)" ] || { echo "/repo left dirty!"; exit 2; }
for i in 01 02 03 04 05 06 07 08 09 10 11 12 13 14 15 16 17 18 19; do ./check C$i --tier quick >/dev/null 2>&1 || echo "C$i not clean on the unchanged tree"; done
cat $OUT
