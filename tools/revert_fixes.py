#!/usr/bin/env python3
"""Development helper: revert each `fix:` commit of /repo on a scratch copy (reverse patch) and run every check: the repaired defect must be
reported again (a `fixed:` entry in known_findings.json suppresses nothing).  tools/revert_fixes.py"""
import sys, os, subprocess, shutil, tempfile
sys.path.insert(0,'/verif')
from nc_static.main import run_check, registry
from nc_static.source import read_tree
commits = subprocess.run(["git","-C","/repo","log","--format=%h","--grep=^fix:"],capture_output=True,text=True).stdout.split()
for c in commits:
    tmp = tempfile.mkdtemp(prefix="revfix-")
    try:
        shutil.copytree("/repo/netconan", tmp+"/netconan")
        diff = subprocess.run(["git","-C","/repo","show",c,"--","netconan"],capture_output=True,text=True).stdout
        r = subprocess.run(["git","apply","-R","--unsafe-paths","--directory",tmp,"-"],input=diff,capture_output=True,text=True,cwd=tmp)
        if r.returncode != 0:
            r = subprocess.run(["patch","-R","-p1","-d",tmp],input=diff,capture_output=True,text=True)
            if r.returncode != 0:
                print(c, "REVERSE-APPLY-FAILED", (r.stderr or r.stdout)[:100]); continue
        files = read_tree(tmp)
        fired = {}
        for pid in sorted(registry()):
            code, rep = run_check(pid, files, write=False, quiet=True, out=open(os.devnull,"w"))
            if code != 0:
                fired[pid] = sorted({o["clause"].split(".",1)[1] for o in rep.obligations if not o["ok"] and not o.get("known")})[:3]
        print(c, subprocess.run(["git","-C","/repo","log","-1","--format=%s",c],capture_output=True,text=True).stdout.strip()[:70], "=>", fired if fired else "SILENT!!")
    finally:
        shutil.rmtree(tmp, ignore_errors=True)
