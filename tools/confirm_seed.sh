#!/bin/sh
# confirm_seed.sh <seed dir with patch.diff demo.py> <scratch worktree>
# Confirms: patch applies, full suite passes with it, demo fails with it, demo passes without it.
S="$1"; W="$2"
cd "$W" || exit 9
git checkout -q -- . && git clean -qfd
R="$S/confirm.txt"; : > "$R"
git apply "$S/patch.diff" || { echo "APPLY-FAIL" >> "$R"; exit 1; }
/venv/bin/python -m pytest -q -p no:cacheprovider -x tests >"$S/suite.log" 2>&1; echo "suite_exit=$?" >> "$R"
tail -1 "$S/suite.log" >> "$R"
cp "$S/demo.py" "$W/_demo_seed.py"
( cd "$W" && PYTHONPATH="$W" timeout 600 /venv/bin/python _demo_seed.py >"$S/demo_mut.log" 2>&1 ); echo "demo_with_mutation_exit=$?" >> "$R"
git checkout -q -- . 
( cd "$W" && PYTHONPATH="$W" timeout 600 /venv/bin/python _demo_seed.py >"$S/demo_clean.log" 2>&1 ); echo "demo_clean_exit=$?" >> "$R"
rm -f "$W/_demo_seed.py"; git clean -qfd
cat "$R"
