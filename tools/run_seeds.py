#!/usr/bin/env python3
"""Development helper (not a registered check): run every check against every seeded
mutation on a scratch copy of /repo's sources and print the detection matrix.

  tools/run_seeds.py [seed root (default /verif/seeded)] [--only Cxx] [--jobs N]
"""
import io, json, os, shutil, subprocess, sys, tempfile
from concurrent.futures import ProcessPoolExecutor

HERE = os.path.dirname(os.path.dirname(os.path.abspath(__file__)))
sys.path.insert(0, HERE)


ORIG_REV = "53532c1"


def make_base(tmp, rev):
    if rev == "WORKTREE":
        shutil.copytree("/repo/netconan", os.path.join(tmp, "netconan"), ignore=shutil.ignore_patterns("__pycache__"))
    else:
        subprocess.check_call("git -C /repo archive %s netconan | tar -x -C %s" % (rev, tmp), shell=True)


def run_all(files, pids):
    from nc_static.main import run_check
    res = {}
    for pid in pids:
        buf = io.StringIO()
        code, rep = run_check(pid, files, "quick", 0, quiet=True, out=buf, write=False)
        res[pid] = (code, sorted({v["key"] for v in rep.violations}) if code != 2 else buf.getvalue()[-300:])
    return res


_BASE = {}


def baseline(rev, pids):
    if rev not in _BASE:
        from nc_static.source import read_tree
        tmp = tempfile.mkdtemp(prefix="ncbase-")
        try:
            make_base(tmp, rev)
            _BASE[rev] = run_all(read_tree(tmp), pids)
        finally:
            shutil.rmtree(tmp, ignore_errors=True)
    return _BASE[rev]


def one(args):
    seed_dir, pids = args
    from nc_static.source import read_tree
    for rev in ("WORKTREE",):
        tmp = tempfile.mkdtemp(prefix="ncseed-")
        try:
            make_base(tmp, rev)
            r = subprocess.run(["git", "apply", os.path.join(seed_dir, "patch.diff")], cwd=tmp, capture_output=True, text=True)
            if r.returncode != 0:
                continue
            base = baseline(rev, pids)
            got = run_all(read_tree(tmp), pids)
            res = {"_base": rev}
            for pid in pids:
                code, keys = got[pid]
                if code == 2:
                    res[pid] = (2, keys)
                else:
                    bkeys = set(base[pid][1]) if base[pid][0] != 2 else set()
                    new = [k for k in keys if k not in bkeys]
                    res[pid] = (1 if new else 0, new)
            return seed_dir, res
        finally:
            shutil.rmtree(tmp, ignore_errors=True)
    return seed_dir, {"_apply": "FAILED on both the working tree and " + ORIG_REV}


def main():
    from nc_static.main import registry
    root = "/verif/seeded"
    only = None
    jobs = 16
    a = sys.argv[1:]
    while a:
        x = a.pop(0)
        if x == "--only":
            only = a.pop(0)
        elif x == "--jobs":
            jobs = int(a.pop(0))
        else:
            root = x
    pids = sorted(registry())
    seeds = []
    for d, dirs, files in os.walk(root):
        if "patch.diff" in files:
            seeds.append(d)
    seeds.sort()
    if only:
        seeds = [s for s in seeds if only in s]
    work = [(s, pids) for s in seeds]
    caught = 0
    miss = 0
    neutral = 0
    false_alarms = 0
    with ProcessPoolExecutor(jobs) as ex:
        for seed_dir, res in ex.map(one, work):
            meta = {}
            try:
                meta = json.load(open(os.path.join(seed_dir, "meta.json")))
            except Exception:
                pass
            target = meta.get("property", "?")
            fired = {p: r for p, r in res.items() if not p.startswith("_") and r[0] == 1}
            errs = {p: r for p, r in res.items() if not p.startswith("_") and r[0] == 2}
            own = target in fired
            if meta.get("neutralised_by"):
                neutral += 1
                also = set(meta.get("still_breaks", []))
                bad = {p: r[1][:3] for p, r in fired.items() if p not in also}
                print("%-10s target=%s NEUTRALISED by fix %s: %s%s" % (os.path.relpath(seed_dir, root), target, meta["neutralised_by"], "silent (as it must be)" if not bad else "FALSE ALARM %s" % bad,
                      ("; still breaks %s, reported by %s" % (sorted(also), sorted(p for p in fired if p in also))) if also else ""), flush=True)
                false_alarms += bool(bad)
                continue
            caught += bool(fired)
            miss += (not own)
            print("%-10s target=%s base=%-8s %s  fired=%s%s" % (os.path.relpath(seed_dir, root), target, res.get("_base", "?"), "OWN " if own else ("other" if fired else "MISS"),
                  {p: [k.split("|")[0] for k in r[1][:3]] for p, r in sorted(fired.items(), key=lambda kv: kv[0] != target)}, ("  ERR=%s" % errs) if errs else ""), flush=True)
            if "_apply" in res:
                print("    ", res["_apply"])
    print("seeds: %d (of which neutralised by a later fix: %d, alarming on those: %d), caught by some check: %d, not caught by the OWN property's check: %d" % (len(seeds), neutral, false_alarms, caught, miss))


if __name__ == "__main__":
    main()
