#!/usr/bin/env python3
"""Development helper (not a registered check): run every check against every seeded
mutation on a scratch copy of /repo's sources and print the detection matrix.

  tools/run_seeds.py [seed root (default /verif/seeded)] [--only Cxx] [--jobs N]
"""
import io, json, os, shutil, subprocess, sys, tempfile
from concurrent.futures import ProcessPoolExecutor

HERE = os.path.dirname(os.path.dirname(os.path.abspath(__file__)))
sys.path.insert(0, HERE)


def one(args):
    seed_dir, pids = args
    from nc_static.main import run_check, registry
    from nc_static.source import read_tree
    tmp = tempfile.mkdtemp(prefix="ncseed-")
    try:
        shutil.copytree("/repo/netconan", os.path.join(tmp, "netconan"), ignore=shutil.ignore_patterns("__pycache__"))
        r = subprocess.run(["git", "apply", "--whitespace=nowarn", os.path.join(seed_dir, "patch.diff")], cwd=tmp, capture_output=True, text=True)
        if r.returncode != 0:
            r = subprocess.run(["patch", "-p1", "-s", "-i", os.path.join(seed_dir, "patch.diff")], cwd=tmp, capture_output=True, text=True)
            if r.returncode != 0:
                return seed_dir, {"_apply": "FAILED: " + r.stderr[:200]}
        files = read_tree(tmp)
        res = {}
        for pid in pids:
            buf = io.StringIO()
            code, rep = run_check(pid, files, "quick", 0, quiet=True, out=buf)
            keys = sorted({v["key"] for v in rep.violations})
            res[pid] = (code, keys if code == 1 else (buf.getvalue()[-300:] if code == 2 else []))
        return seed_dir, res
    finally:
        shutil.rmtree(tmp, ignore_errors=True)


def main():
    from nc_static.main import registry
    root = "/verif/seeded"
    only = None
    jobs = 16
    a = sys.argv[1:]
    while a:
        x = a.pop(0)
        if x == "--only":
            only = a.pop(0)
        elif x == "--jobs":
            jobs = int(a.pop(0))
        else:
            root = x
    pids = sorted(registry())
    seeds = []
    for d, dirs, files in os.walk(root):
        if "patch.diff" in files:
            seeds.append(d)
    seeds.sort()
    if only:
        seeds = [s for s in seeds if only in s]
    work = [(s, pids) for s in seeds]
    caught = 0
    with ProcessPoolExecutor(jobs) as ex:
        for seed_dir, res in ex.map(one, work):
            meta = {}
            try:
                meta = json.load(open(os.path.join(seed_dir, "meta.json")))
            except Exception:
                pass
            target = meta.get("property", "?")
            fired = {p: r for p, r in res.items() if p != "_apply" and r[0] == 1}
            errs = {p: r for p, r in res.items() if p != "_apply" and r[0] == 2}
            own = target in fired
            caught += bool(fired)
            print("%-28s target=%s  %s  fired=%s%s" % (os.path.relpath(seed_dir, root), target, "OWN" if own else ("other" if fired else "MISS"),
                  {p: r[1][:3] for p, r in fired.items()}, ("  ERR=%s" % errs) if errs else ""), flush=True)
            if "_apply" in res:
                print("    ", res["_apply"])
    print("seeds: %d, caught by some check: %d" % (len(seeds), caught))


if __name__ == "__main__":
    main()
