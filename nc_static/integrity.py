"""Program-model integrity: is the program the rules reason about the program Python runs?

Every rule resolves names statically: `anonymize_ip_addr` is the function defined under that name, `self.anonymize`
is the method of the class (or an override found through the bases), a module constant is its one assignment, an
instance of a package class is truthy and compares by identity, a module is its definitions.  Python lets a program
break each of these assumptions at run time (rebinding a definition, patching a class or a library from outside,
reflection, special methods, decorators, code executed at import).  None of that is used by the package today; this
rule keeps it that way for the modules a check consulted, so that a verdict is never given about a program other than
the one that runs.  A construct listed here is an *undischarged obligation* (the model cannot be trusted for it), named
by file:line, reported under `<property>.model-integrity`.
"""
import ast
import builtins

from .source import FunctionInfo

# decorators the engine models (resolved through the import table)
MODELLED_DECORATORS = {
    "staticmethod", "classmethod", "abc.abstractmethod", "abstractmethod",
    "functools.lru_cache", "functools.cache",  # process-lifetime objects: the global-state rule decides them
}
# special methods that change what attribute access, calls, truth tests, comparisons, iteration or formatting of a package object mean
BASES_OK = {"enum.Enum", "enum.IntEnum", "abc.ABC", "typing.NamedTuple", "object"}
SPECIAL_OK = {"__init__", "__repr__"}
REFLECTION_BUILTINS = {"setattr", "delattr", "globals", "locals", "vars", "exec", "eval", "compile", "__import__", "breakpoint"}
REFLECTION_EXT_PREFIXES = ("importlib", "sys.modules", "sys.settrace", "sys.setprofile", "types.MethodType", "types.FunctionType", "inspect.", "gc.", "ctypes", "unittest.mock", "mock.", "builtins.")
REFLECTION_ATTRS = {"__dict__", "__class__", "__bases__", "__mro__", "__globals__", "__code__", "__defaults__", "__kwdefaults__", "__closure__", "__wrapped__", "__builtins__", "__subclasses__", "__getattribute__", "__setattr__"}
_BUILTIN_NAMES = set(dir(builtins))


def _where(m, node):
    return "%s:%d" % (m.relpath, getattr(node, "lineno", 0))


def _bound_names(target):
    out = []
    for n in ast.walk(target):
        if isinstance(n, ast.Name) and isinstance(n.ctx, (ast.Store, ast.Del)):
            out.append(n.id)
    return out


def _is_main_guard(st):
    t = st.test
    return (isinstance(t, ast.Compare) and isinstance(t.left, ast.Name) and t.left.id == "__name__" and len(t.ops) == 1 and isinstance(t.ops[0], ast.Eq)
            and isinstance(t.comparators[0], ast.Constant) and t.comparators[0].value == "__main__" and not st.orelse)


def _is_type_checking_guard(st):
    t = st.test
    return ((isinstance(t, ast.Name) and t.id == "TYPE_CHECKING") or (isinstance(t, ast.Attribute) and t.attr == "TYPE_CHECKING")) and not st.orelse and all(isinstance(s, (ast.Import, ast.ImportFrom)) for s in st.body)


def _dotted(node):
    parts = []
    while isinstance(node, ast.Attribute):
        parts.append(node.attr)
        node = node.value
    if isinstance(node, ast.Name):
        parts.append(node.id)
        return list(reversed(parts))
    return None


class _Scan:
    def __init__(self, ctx, rep, cl):
        self.ctx, self.p, self.rep, self.cl = ctx, ctx.p, rep, cl
        self.n_sites = 0
        self.found = 0

    def flag(self, m, node, kind, construct, detail):
        self.found += 1
        self.rep.fail(self.cl + ".model-integrity", "%s:%s" % (kind, construct), detail, _where(m, node), key="%s.model-integrity|%s:%s" % (self.cl, kind, construct))

    # ---- names -------------------------------------------------------------------------------------------------
    def resolve(self, m, dotted):
        """('class', ClassInfo) | ('func', FunctionInfo) | ('module', name) | ('ext', dotted) | ('const', ...) | None for the value a dotted name denotes at module scope."""
        try:
            r = self.p.resolve_module_name(m, dotted[0])
        except Exception:
            r = None
        for attr in dotted[1:]:
            if r is None:
                return None
            if r[0] == "module":
                mod = self.p.modules.get(r[1]) if isinstance(r[1], str) else None
                if mod is not None:
                    try:
                        r = self.p.resolve_module_name(mod, attr)
                    except Exception:
                        r = None
                else:
                    r = ("ext", "%s.%s" % (r[1], attr))
            elif r[0] == "ext":
                r = ("ext", "%s.%s" % (r[1], attr))
            elif r[0] == "class":
                c = r[1]
                f = c.find_method(attr) if hasattr(c, "find_method") else None
                r = ("func", f) if f is not None else ("classattr", c, attr)
            else:
                return None
        return r

    def decorator_name(self, m, d):
        if isinstance(d, ast.Call):
            d = d.func
        dn = _dotted(d)
        if dn is None:
            return None
        r = self.resolve(m, dn)
        if r is not None and r[0] == "ext":
            return r[1]
        if r is None and len(dn) == 1 and dn[0] in _BUILTIN_NAMES:
            return dn[0]
        if r is not None and r[0] == "func":
            return "package function " + r[1].qualname
        if r is not None and r[0] == "class":
            return "package class " + r[1].qualname
        return ".".join(dn)

    # ---- module ------------------------------------------------------------------------------------------------
    def module(self, m):
        body = m.tree.body
        bindings = {}  # name -> [(kind, node)]

        def bind(name, kind, node):
            bindings.setdefault(name, []).append((kind, node))

        for i, st in enumerate(body):
            self.n_sites += 1
            if isinstance(st, ast.Expr) and isinstance(st.value, ast.Constant):
                continue  # docstring / bare constant
            if isinstance(st, (ast.Import, ast.ImportFrom)):
                for a in st.names:
                    if a.name == "*":
                        self.flag(m, st, "star-import", m.name, "`from %s import *`: the names this module sees are not in its source" % (st.module,))
                    bind((a.asname or a.name).split(".")[0], "import", st)
                continue
            if isinstance(st, (ast.FunctionDef, ast.AsyncFunctionDef)):
                bind(st.name, "def", st)
                if st.name in ("__getattr__", "__dir__"):
                    self.flag(m, st, "module-special", "%s.%s" % (m.name, st.name), "module-level %s: attribute access on the module is computed" % st.name)
                self.function(m, st, None)
                continue
            if isinstance(st, ast.ClassDef):
                bind(st.name, "class", st)
                self.klass(m, st)
                continue
            if isinstance(st, (ast.Assign, ast.AnnAssign)):
                targets = st.targets if isinstance(st, ast.Assign) else [st.target]
                for t in targets:
                    if isinstance(t, ast.Name):
                        bind(t.id, "assign", st)
                    elif isinstance(t, (ast.Tuple, ast.List)) and all(isinstance(e, ast.Name) for e in t.elts):
                        for e in t.elts:
                            bind(e.id, "assign", st)
                    else:
                        self.flag(m, st, "import-time-store", ast.unparse(t)[:60], "module-level store into %s: executed at import, outside every analysed path" % ast.unparse(t)[:80])
                if getattr(st, "value", None) is not None:
                    self.expr(m, st.value, None)
                    self.callable_value(m, st, [t for t in targets if isinstance(t, ast.Name)])
                continue
            if isinstance(st, ast.If) and _is_main_guard(st):
                continue
            if isinstance(st, ast.If) and not st.orelse:
                # `if TYPE_CHECKING:` — the body never runs (typing.TYPE_CHECKING is False at run time), whatever it contains
                dn = _dotted(st.test)
                r = self.resolve(m, dn) if dn else None
                if r is not None and r[0] == "ext" and r[1] == "typing.TYPE_CHECKING":
                    continue
            if isinstance(st, ast.Pass):
                continue
            # anything else is code run at import that the path analysis never sees
            what = type(st).__name__
            for n in _bound_names(st) if not isinstance(st, ast.Expr) else []:
                bind(n, "stmt", st)
            self.flag(m, st, "import-time-code", "%s:%s" % (m.name, ast.unparse(st).split("\n")[0][:60]), "module-level %s statement runs at import time; definitions or tables it changes are invisible to the rules" % what)
        for name, bs in bindings.items():
            kinds = [k for k, _ in bs]
            if len(bs) > 1 and any(k in ("def", "class", "import") for k in kinds):
                self.flag(m, bs[-1][1], "rebound-definition", "%s.%s" % (m.name, name), "%s is bound %d times at module level (%s): the rules would analyse a definition that is not the one in effect" % (name, len(bs), ", ".join(kinds)))

    def callable_value(self, m, st, names):
        """`X = f`, `X = wrap(f)`, `X = partial(f, ...)`, `X = lambda ...` at module level: a callable reachable only through a variable.
        The call graph knows functions by their def; calls through X would resolve to nothing or, worse, to a look-alike."""
        v = st.value
        why = None
        if isinstance(v, ast.Lambda):
            why = "a lambda"
        else:
            cands = [v] if isinstance(v, (ast.Name, ast.Attribute)) else []
            if isinstance(v, ast.Call):
                cands = list(v.args) + [k.value for k in v.keywords]
            for c in cands:
                if isinstance(c, ast.Lambda):
                    why = "a lambda handed to %s" % ast.unparse(v.func)[:40]
                    break
                dn = _dotted(c)
                r = self.resolve(m, dn) if dn else None
                if r is not None and r[0] == "func":
                    why = ("the function %s" % r[1].qualname) if c is v else ("%s applied to the function %s" % (ast.unparse(v.func)[:40], r[1].qualname))
                    break
        if why:
            for t in names:
                self.flag(m, st, "callable-by-assignment", "%s.%s" % (m.name, t.id), "%s.%s is bound to %s: a callable that exists only as a variable is outside the call graph" % (m.name, t.id, why))

    # ---- class -------------------------------------------------------------------------------------------------
    def klass(self, m, c):
        for d in c.decorator_list:
            self.flag(m, d, "class-decorator", "%s.%s" % (m.name, c.name), "class decorator %s rewrites the class (generated or replaced methods are not in the source)" % ast.unparse(d)[:60])
        for k in c.keywords:
            if k.arg == "metaclass":
                dn = _dotted(k.value)
                r = self.resolve(m, dn) if dn else None
                if not (r is not None and r[0] == "ext" and r[1] in ("abc.ABCMeta",)):
                    self.flag(m, c, "metaclass", "%s.%s" % (m.name, c.name), "metaclass %s: instance creation and attribute lookup of the class are programmable" % ast.unparse(k.value)[:60])
            else:
                self.flag(m, c, "class-keyword", "%s.%s" % (m.name, c.name), "class keyword %s=..." % k.arg)
        for b in c.bases:
            dn = _dotted(b)
            r = self.resolve(m, dn) if dn else None
            ok = (r is not None and r[0] == "class") or (r is not None and r[0] == "ext" and r[1] in BASES_OK) or (r is None and dn in (["object"], ["Exception"], ["ValueError"], ["RuntimeError"], ["TypeError"], ["KeyError"]))
            if not ok:
                self.flag(m, c, "external-base", "%s(%s)" % (c.name, ast.unparse(b)[:40]), "%s inherits from %s: the methods it inherits (and what they override) are not in the package source" % (c.name, ast.unparse(b)[:60]))
        names = {}
        for st in c.body:
            self.n_sites += 1
            if isinstance(st, ast.Expr) and isinstance(st.value, ast.Constant):
                continue
            if isinstance(st, ast.Pass):
                continue
            if isinstance(st, (ast.FunctionDef, ast.AsyncFunctionDef)):
                names.setdefault(st.name, []).append(("def", st))
                if st.name.startswith("__") and st.name.endswith("__") and st.name not in SPECIAL_OK:
                    self.flag(m, st, "special-method", "%s.%s" % (c.name, st.name), "special method %s changes what an operation on a %s object means (truth test, comparison, attribute access, call, iteration, formatting): the rules read these operations with their default meaning" % (st.name, c.name))
                self.function(m, st, c)
                continue
            if isinstance(st, (ast.Assign, ast.AnnAssign)):
                targets = st.targets if isinstance(st, ast.Assign) else [st.target]
                for t in targets:
                    if isinstance(t, ast.Name):
                        names.setdefault(t.id, []).append(("assign", st))
                        if t.id.startswith("__") and t.id.endswith("__") and t.id not in ("__slots__", "__doc__", "__test__"):
                            self.flag(m, st, "special-method", "%s.%s" % (c.name, t.id), "special attribute %s assigned in the class body" % t.id)
                    else:
                        self.flag(m, st, "class-body-store", "%s:%s" % (c.name, ast.unparse(t)[:40]), "store into %s inside the class body" % ast.unparse(t)[:60])
                v = getattr(st, "value", None)
                if v is not None:
                    self.expr(m, v, None)
                    # a method slot filled by assignment: `anonymize = _other`, `anonymize = staticmethod(f)`, `x = property(...)`
                    if isinstance(v, (ast.Name, ast.Attribute, ast.Lambda)) or (isinstance(v, ast.Call) and isinstance(v.func, ast.Name) and v.func.id in ("property", "staticmethod", "classmethod", "partial", "partialmethod")):
                        dn = _dotted(v) if not isinstance(v, (ast.Lambda, ast.Call)) else None
                        r = self.resolve(m, dn) if dn else None
                        if isinstance(v, (ast.Lambda, ast.Call)) or (r is not None and r[0] in ("func", "class")):
                            for t in targets:
                                if isinstance(t, ast.Name):
                                    self.flag(m, st, "method-by-assignment", "%s.%s" % (c.name, t.id), "%s.%s is given a callable by assignment (%s): the call graph only knows methods written as def" % (c.name, t.id, ast.unparse(v)[:60]))
                continue
            if isinstance(st, ast.ClassDef):
                self.flag(m, st, "nested-class", "%s.%s" % (c.name, st.name), "class nested in a class body is not indexed")
                continue
            self.flag(m, st, "class-body-code", "%s:%s" % (c.name, ast.unparse(st).split("\n")[0][:50]), "%s statement in the class body runs at class creation; the members it defines are invisible to the rules" % type(st).__name__)
        for name, bs in names.items():
            if len(bs) > 1:
                self.flag(m, bs[-1][1], "rebound-definition", "%s.%s" % (c.name, name), "%s.%s is bound %d times in the class body (%s)" % (c.name, name, len(bs), ", ".join(k for k, _ in bs)))

    # ---- function ----------------------------------------------------------------------------------------------
    def function(self, m, fn, cls):
        for d in fn.decorator_list:
            self.n_sites += 1
            dn = self.decorator_name(m, d)
            if dn not in MODELLED_DECORATORS:
                self.flag(m, d, "decorator", "%s%s@%s" % ((cls.name + ".") if cls else "", fn.name, dn), "decorator %s replaces %s by whatever it returns; only %s are modelled" % (ast.unparse(d)[:60], fn.name, ", ".join(sorted(MODELLED_DECORATORS))))
        if isinstance(fn, ast.AsyncFunctionDef):
            self.flag(m, fn, "async", fn.name, "async function: the path analysis has no model of suspension points")
        own_cls = cls
        for n in ast.walk(fn):
            if n is fn:
                continue
            if isinstance(n, ast.Global):
                for g in n.names:
                    try:
                        r = self.p.resolve_module_name(m, g)
                    except Exception:
                        r = None
                    if r is not None and r[0] in ("func", "class", "module", "ext"):
                        self.flag(m, n, "rebound-definition", "%s.%s" % (m.name, g), "`global %s` in %s: a definition or import can be re-bound at run time" % (g, fn.name))
            elif isinstance(n, (ast.Await, ast.AsyncFor, ast.AsyncWith)):
                self.flag(m, n, "async", fn.name, "await / async for / async with")
            elif isinstance(n, (ast.FunctionDef, ast.AsyncFunctionDef)) and n is not fn:
                for d in n.decorator_list:
                    dn = self.decorator_name(m, d)
                    if dn not in MODELLED_DECORATORS:
                        self.flag(m, d, "decorator", "%s.%s@%s" % (fn.name, n.name, dn), "decorator %s on a nested function" % ast.unparse(d)[:60])
            elif isinstance(n, ast.ClassDef):
                self.flag(m, n, "nested-class", "%s.%s" % (fn.name, n.name), "class defined inside a function is not indexed")
        self.expr(m, fn, fn)

    # ---- expressions / statements inside code ---------------------------------------------------------------------
    def expr(self, m, root, fn):
        fname = fn.name if fn is not None else "<module>"
        locals_ = set()
        if fn is not None:
            a = fn.args
            for x in a.posonlyargs + a.args + a.kwonlyargs + ([a.vararg] if a.vararg else []) + ([a.kwarg] if a.kwarg else []):
                locals_.add(x.arg)
            for n in ast.walk(fn):
                if isinstance(n, ast.Name) and isinstance(n.ctx, ast.Store):
                    locals_.add(n.id)
                elif isinstance(n, (ast.FunctionDef, ast.AsyncFunctionDef, ast.ClassDef)) and n is not fn:
                    locals_.add(n.name)
                elif isinstance(n, ast.ExceptHandler) and n.name:
                    locals_.add(n.name)
                elif isinstance(n, (ast.Import, ast.ImportFrom)):
                    for al in n.names:
                        locals_.add((al.asname or al.name).split(".")[0])
                        self.n_sites += 1
        for n in ast.walk(root):
            # reflection
            if isinstance(n, ast.Call):
                self.n_sites += 1
                f = n.func
                if isinstance(f, ast.Name) and f.id not in locals_:
                    r = None
                    try:
                        r = self.p.resolve_module_name(m, f.id)
                    except Exception:
                        pass
                    if r is None and f.id in REFLECTION_BUILTINS:
                        self.flag(m, n, "reflection", "%s:%s" % (fname, f.id), "%s(...) in %s: names are computed at run time" % (f.id, fname))
                    elif r is None and f.id == "getattr" and not (len(n.args) >= 2 and isinstance(n.args[1], ast.Constant)):
                        self.flag(m, n, "reflection", "%s:getattr" % fname, "getattr with a computed attribute name in %s" % fname)
                    elif r is not None and r[0] == "ext" and r[1].startswith(REFLECTION_EXT_PREFIXES):
                        self.flag(m, n, "reflection", "%s:%s" % (fname, r[1]), "%s(...) in %s" % (r[1], fname))
                else:
                    dn = _dotted(f)
                    if dn and dn[0] not in locals_:
                        r = self.resolve(m, dn)
                        if r is not None and r[0] == "ext" and r[1].startswith(REFLECTION_EXT_PREFIXES):
                            self.flag(m, n, "reflection", "%s:%s" % (fname, r[1]), "%s(...) in %s" % (r[1], fname))
            elif isinstance(n, ast.Attribute):
                if n.attr in REFLECTION_ATTRS:
                    self.flag(m, n, "reflection", "%s:.%s" % (fname, n.attr), "%s in %s: the object model is read or written directly" % (ast.unparse(n)[:60], fname))
            # stores / deletes through an attribute of something that is not a plain local object
            targets = []
            if isinstance(n, ast.Assign):
                targets = n.targets
            elif isinstance(n, (ast.AugAssign, ast.AnnAssign)):
                targets = [n.target]
            elif isinstance(n, ast.Delete):
                targets = n.targets
            elif isinstance(n, (ast.For, ast.AsyncFor)):
                targets = [n.target]
            elif isinstance(n, (ast.With, ast.AsyncWith)):
                targets = [i.optional_vars for i in n.items if i.optional_vars is not None]
            for t in targets:
                for s in ast.walk(t):
                    if isinstance(s, ast.Attribute) and isinstance(s.ctx, (ast.Store, ast.Del)):
                        self.store_attr(m, s, fn, locals_, n)

    def store_attr(self, m, s, fn, locals_, stmt):
        """`X.attr = v` / `del X.attr` where X is a class, a module, a function or an imported library object: patching from outside."""
        self.n_sites += 1
        base = s.value
        fname = fn.name if fn is not None else "<module>"
        # cls.attr in a classmethod / type(self).attr / self.__class__.attr: class-level store
        if isinstance(base, ast.Call) and isinstance(base.func, ast.Name) and base.func.id == "type":
            self.flag(m, s, "class-patched", "%s:type(...).%s" % (fname, s.attr), "store to an attribute of type(...) in %s" % fname)
            return
        dn = _dotted(base)
        if dn is None:
            return
        if dn[0] in locals_:
            if fn is not None and dn == ["cls"] and fn.args.args and fn.args.args[0].arg == "cls":
                # class attribute written from a classmethod: data stays with the global-state rule; a method slot is a patch
                owner = None
                for c in self.p.classes.values():
                    if c.module is m and fn in [mm.node for mm in c.methods.values()]:
                        owner = c
                if owner is not None and owner.find_method(s.attr) is not None:
                    self.flag(m, s, "class-patched", "%s.%s" % (owner.name, s.attr), "%s re-binds the method %s.%s at run time" % (fname, owner.name, s.attr))
            return
        r = self.resolve(m, dn)
        if r is None:
            return
        if r[0] in ("class", "func", "module", "ext", "classattr"):
            tgt = r[1].qualname if hasattr(r[1], "qualname") else str(r[1])
            self.flag(m, s, "patched-from-outside", "%s:%s.%s" % (fname, ".".join(dn), s.attr), "%s stores to %s.%s (%s): a class, function, module or library object is modified at run time; every rule that reads %s sees the unmodified one" % (fname, ".".join(dn), s.attr, tgt, ".".join(dn)))


def check(ctx, rep, cl, modules=None):
    """Scan the consulted modules (all package modules when `modules` is None)."""
    sc = _Scan(ctx, rep, cl)
    mods = [m for n, m in sorted(ctx.p.modules.items()) if modules is None or n in modules]
    for m in mods:
        sc.module(m)
    rep.ob(cl + ".model-integrity-scan", "package", sc.n_sites >= 1, "modules scanned: %s; sites examined (statements, calls, stores, decorators): %d; constructs outside the modelled language: %d" % ([m.relpath for m in mods], sc.n_sites, sc.found), "", nontrivial=False)
    rep.stat("model_integrity_sites", sc.n_sites)
    return sc.found
