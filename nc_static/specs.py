"""Specification languages, built from first principles with the rx combinators.
None of these is derived from the repository's patterns."""
import unicodedata

from . import rx
from .rx import cat, alt, rep, opt, star, plus, lit, cset, CharSet

D = cset("0-9")
HEXD = cset("0-9A-Fa-f")

# ---- IPv4 ---------------------------------------------------------------
# canonical decimal octet 0..255 (what ipaddress.IPv4Address accepts: no leading zeros)
CAN_OCTET = alt(D, cat(cset("1-9"), D), cat(lit("1"), D, D), cat(lit("2"), cset("0-4"), D), cat(lit("25"), cset("0-5")))
# octet as netconan promises to recognise it: any number of leading zeros, value <= 255
OCTET = cat(star(lit("0")), CAN_OCTET)
SPEC4 = cat(OCTET, rep(cat(lit("."), OCTET), 3, 3))
ACCEPT4 = cat(CAN_OCTET, rep(cat(lit("."), CAN_OCTET), 3, 3))

T4 = CharSet.ranges("a-zA-Z0-9.")
T6 = CharSet.ranges("a-zA-Z0-9:")
DIGITS = CharSet.ranges("0-9")

# ---- IPv6 (RFC 4291 section 2.2; as implemented by CPython's ipaddress) --
H = rep(HEXD, 1, 4)


def groups(n):
    """exactly n colon-separated hex groups (n >= 1)"""
    return cat(H, rep(cat(lit(":"), H), n - 1, n - 1))


def groups_upto(n):
    """between 1 and n colon-separated hex groups"""
    return cat(H, rep(cat(lit(":"), H), 0, n - 1))


def _hex_forms():
    forms = [groups(8)]  # form 1: x:x:x:x:x:x:x:x
    # form 2: '::' replaces >= 1 group: k groups left, m groups right, k + m <= 7
    for k in range(0, 8):
        left = groups(k) if k else rx.EPS
        mmax = 7 - k
        right = opt(groups_upto(mmax)) if mmax >= 1 else rx.EPS
        forms.append(cat(left, lit("::"), right))
    return alt(*forms)


def _v4_forms(v4):
    forms = [cat(groups(6), lit(":"), v4)]  # x:x:x:x:x:x:d.d.d.d
    # '::' replaces >= 1 group; the dotted quad counts for 2: k + m + 2 <= 7
    for k in range(0, 6):
        left = groups(k) if k else rx.EPS
        mmax = 5 - k
        mid = opt(cat(groups_upto(mmax), lit(":"))) if mmax >= 1 else rx.EPS
        forms.append(cat(left, lit("::"), mid, v4))
    return alt(*forms)


SPEC6HEX = _hex_forms()
SPEC6V4 = _v4_forms(ACCEPT4)  # tail as ipaddress accepts it (canonical octets)
SCOPE = cat(lit("%"), plus(("set", CharSet.of("%/").complement())))
# everything ipaddress.IPv6Address(str) accepts (CPython 3.9+: optional %scope, no '/')
ACCEPT6 = cat(alt(SPEC6HEX, SPEC6V4), opt(SCOPE))


def delimiters(token_set):
    """Characters the property calls delimiters: whitespace and punctuation (ASCII
    non-token characters, and Unicode categories Z*, P*, S*, Cc)."""
    iv = []
    for c in range(0x110000):
        ch = chr(c)
        if c < 128:
            ok = ch not in token_set
        else:
            ok = unicodedata.category(ch)[0] in "ZPS" or ch.isspace()
        if ok:
            iv.append((c, c))
    return CharSet(iv)


_DELIM_CACHE = {}


def delimiters_cached(name, token_set):
    if name not in _DELIM_CACHE:
        _DELIM_CACHE[name] = delimiters(token_set)
    return _DELIM_CACHE[name]
