"""Self-validation of the checker (thorough tier): in-memory variants of the CURRENT
working tree.  'fire' variants break a property (while still compiling and — as far
as reading the tests can tell — passing the suite): the named checks must report a
NEW violation.  'silent' variants are behaviour-preserving refactorings: no check may
report anything new.  A variant whose anchor text is no longer present is skipped.

Results are recorded in the evidence and printed; they never change the verdict on
the tree under analysis (a self-test miss is a defect of the checker, reported as
SELFTEST-MISS / SELFTEST-FALSE-ALARM lines).
"""
import io
import os
from concurrent.futures import ProcessPoolExecutor

IP = "netconan/ip_anonymization.py"
AF = "netconan/anonymize_files.py"
SI = "netconan/sensitive_item_removal.py"
NC = "netconan/netconan.py"
JS = "netconan/utils/juniper_secrets.py"
PW = "netconan/default_pwd_regexes.py"

F = "fire"
S = "silent"

VARIANTS = [
    # ---------------- C01-C05, C17: address mapping --------------------------------
    ("pin-loop-misses-last-depth", F, ["C01", "C04"], [(IP, "for position in range(len(prefix_bits)):", "for position in range(len(prefix_bits) - 1):")]),
    ("pin-only-zero-child", F, ["C01", "C04"], [(IP, '                self.cache[value + "1"] = value + "1"\n', "")]),
    ("pin-not-identity", F, ["C01", "C04"], [(IP, 'self.cache[value + "1"] = value + "1"', 'self.cache[value + "1"] = value + "0"')]),
    ("flip-and-instead-of-xor", F, ["C01"], [(IP, "ret = self._anonymize_bits(head) + str(flip_last ^ last)", "ret = self._anonymize_bits(head) + str(flip_last & last)")]),
    ("salter-sees-current-bit", F, ["C01"], [(IP, "flip_last = self.salter(self.salt, head)\n        ret = self._anonymize_bits(head)", "flip_last = self.salter(self.salt, bits)\n        ret = self._anonymize_bits(head)")]),
    ("memo-keyed-by-head", F, ["C01", "C03"], [(IP, "        # Cache before returning.\n        self.cache[bits] = ret", "        # Cache before returning.\n        self.cache[head] = ret")]),
    ("suffix-slices-differ", F, ["C01", "C04"], [(IP, "bits[-self.preserve_suffix :],\n            )\n            anon_bits", "bits[-self.preserve_suffix + 1 :],\n            )\n            anon_bits")]),
    ("salter-not-one-bit", F, ["C01"], [(IP, "return int(last_hash_digit, 16) & 1", "return int(last_hash_digit, 16) & 3")]),
    ("salter-ignores-salt", F, ["C01", "C13"], [(IP, "md5((salt + string).encode())", "md5(string.encode())")]),
    ("v6-width-64", F, ["C01"], [(IP, "super(IpV6Anonymizer, self).__init__(salt, 128, **kwargs)", "super(IpV6Anonymizer, self).__init__(salt, 64, **kwargs)")]),
    ("inverse-hashes-anonymized-prefix", F, ["C02"], [(IP, "flip_last = self.salter(self.salt, orig_head)", "flip_last = self.salter(self.salt, head)")]),
    ("inverse-stores-direct-view", F, ["C02", "C03", "C01"], [(IP, "self.cache.inv[bits] = ret", "self.cache[bits] = ret")]),
    ("inverse-reads-direct-view", F, ["C02", "C03"], [(IP, "ret = self.cache.inv.get(bits)", "ret = self.cache.get(bits)")]),
    ("undo-not-passed-to-v4", F, ["C02"], [(AF, "output_line = anonymize_ip_addr(\n                    self.anonymizer4, output_line, self.undo_ip_anon\n                )", "output_line = anonymize_ip_addr(self.anonymizer4, output_line)")]),
    ("undo-branch-swapped", F, ["C02"], [(IP, "    if undo_ip_anon:\n        new_ip_int = anonymizer.deanonymize(ip_int)\n    else:\n        new_ip_int = anonymizer.anonymize(ip_int)", "    if undo_ip_anon:\n        new_ip_int = anonymizer.anonymize(ip_int)\n    else:\n        new_ip_int = anonymizer.deanonymize(ip_int)")]),
    ("deanonymize-suffix-off-by-one", F, ["C02"], [(IP, "            to_deanon, to_preserve = (\n                bits[: -self.preserve_suffix],", "            to_deanon, to_preserve = (\n                bits[: -self.preserve_suffix - 1],")]),
    ("full-entry-stored-before-suffix", F, ["C03", "C17"], [(IP, "            self.cache[bits] = anon_bits\n        return int(anon_bits, 2)", "            self.cache[bits] = self._anonymize_bits(to_anon)\n        return int(anon_bits, 2)")]),
    ("full-entry-store-dropped", F, ["C17"], [(IP, "            self.cache[bits] = anon_bits\n        return int(anon_bits, 2)", "        return int(anon_bits, 2)")]),
    ("module-level-memo", F, ["C03", "C13"], [(IP, "def _generate_bit_from_hash(salt, string):\n", "_BIT_CACHE = {}\n\n\ndef _generate_bit_from_hash(salt, string):\n    if string in _BIT_CACHE:\n        return _BIT_CACHE[string]\n    _BIT_CACHE[string] = int(md5((salt + string).encode()).hexdigest()[-1], 16) & 1\n")]),
    ("default-prefix-typo", F, ["C04"], [(IP, '"10.0.0.0/8",  # Private-use subnet', '"10.0.0.0/9",  # Private-use subnet')]),
    ("empty-prefix-list-replaced-by-default", F, ["C04", "C01"], [(IP, "if preserve_prefixes is None:\n            preserve_prefixes = list(", "if not preserve_prefixes:\n            preserve_prefixes = list(")]),
    ("host-bits-only-v4", F, ["C04", "C19"], [(NC, "            preserve_suffix_v6=args.preserve_host_bits,\n", "")]),
    ("skipped-returns-str-ip", F, ["C05", "C12"], [(IP, '        logging.debug("Should not anonymize %s, skipping", ip)\n        return match', '        logging.debug("Should not anonymize %s, skipping", ip)\n        return str(ip)')]),
    ("gate-all-instead-of-any", F, ["C05"], [(IP, "self._is_mask(ip_int) or any([ip in n for n in self._preserve_addresses])", "self._is_mask(ip_int) or all([ip in n for n in self._preserve_addresses])")]),
    ("preserved-networks-not-pinned", F, ["C05", "C01"], [(IP, "            preserve_prefixes = list(preserve_prefixes) + list(preserve_addresses)\n", "")]),
    ("prefix-list-extended-in-place", F, ["C13", "C03", "C15"], [(IP, "            preserve_prefixes = list(preserve_prefixes) + list(preserve_addresses)\n", "            preserve_prefixes.extend(preserve_addresses)\n")]),
    ("prefix-list-iadd-in-place", F, ["C13", "C03"], [(IP, "            preserve_prefixes = list(preserve_prefixes) + list(preserve_addresses)\n", "            preserve_prefixes += list(preserve_addresses)\n")]),
    ("prefix-list-copy-then-extend", S, None, [(IP, "            preserve_prefixes = list(preserve_prefixes) + list(preserve_addresses)\n", "            preserve_prefixes = list(preserve_prefixes)\n            preserve_prefixes.extend(preserve_addresses)\n")]),
    ("prefix-list-slice-copy", S, None, [(IP, "            preserve_prefixes = list(preserve_prefixes) + list(preserve_addresses)\n", "            preserve_prefixes = preserve_prefixes[:] + list(preserve_addresses)\n")]),
    ("default-prefix-list-shared-readonly", S, None, [(IP, "            preserve_prefixes = list(self.DEFAULT_PRESERVED_PREFIXES)\n", "            preserve_prefixes = self.DEFAULT_PRESERVED_PREFIXES\n")]),
    ("merge-or-precedence", F, ["C05", "C19", "C04", "C16"], [(NC, "addrs if preserve_addresses is None else (preserve_addresses + addrs)", "preserve_addresses or [] + addrs")]),
    ("merge-or-parenthesised", S, None, [(NC, "addrs if preserve_addresses is None else (preserve_addresses + addrs)", "(preserve_addresses or []) + addrs")]),
    ("missing-output-tested-with-is-none", F, ["C19"], [(NC, "    if not args.output:", "    if args.output is None:")]),
    ("missing-output-none-or-empty", S, None, [(NC, "    if not args.output:", '    if args.output is None or args.output == "":')]),
    ("mutable-default-accumulates", F, ["C10", "C13"], [(SI, "    def _generate_conflicting_reserved_word_list(self, sensitive_words):", "    def _generate_conflicting_reserved_word_list(self, sensitive_words, conflicting_words=set()):"), (SI, '        """Return a list of reserved words that may conflict with the specified sensitive words."""\n        conflicting_words = set()\n', '        """Return a list of reserved words that may conflict with the specified sensitive words."""\n')]),
    ("lru-cache-on-mkdirs", F, ["C13"], [(AF, "def _mkdirs(file_path):", "@functools.lru_cache(maxsize=None)\ndef _mkdirs(file_path):"), (AF, "import errno\n", "import errno\nimport functools\n")]),
    ("lru-cache-on-pure-salter", S, None, [(IP, "def _generate_bit_from_hash(salt, string):", "@functools.lru_cache(maxsize=None)\ndef _generate_bit_from_hash(salt, string):"), (IP, "import ipaddress\n", "import functools\nimport ipaddress\n")]),
    ("decrypt-only-when-lookup-nonempty", F, ["C08"], [(SI, "    if val.startswith(juniper_secrets.MAGIC):", "    if lookup and val.startswith(juniper_secrets.MAGIC):")]),
    ("v6-gate-skips-link-local", F, ["C01", "C05"], [(IP, '        """Check if a given address should be anonymized."""\n        return True', '        """Check if a given address should be anonymized."""\n        return not ipaddress.ip_address(ip_int).is_link_local')]),
    ("pwd-stage-off-under-undo", F, ["C07", "C15"], [(AF, "        if anon_pwd:", "        if anon_pwd and not undo_ip_anon:")]),
    ("digit-prefilter-on-ip-stages", F, ["C02", "C06"], [(AF, "            if self.anonymizer6 is not None:", "            if self.anonymizer6 is not None and any(c.isdigit() for c in output_line):")]),
    ("decode-lstrip-magic", F, ["C14", "C18", "C08"], [(JS, "    chars = crypt[len(MAGIC) :]", "    chars = crypt.lstrip(MAGIC)")]),
    ("input-opened-with-errors-replace", F, ["C08", "C07", "C12", "C16"], [(AF, 'with open(in_path, "r") as f_in, open(out_path, "w") as f_out:', 'with open(in_path, "r", errors="replace") as f_in, open(out_path, "w") as f_out:')]),
    ("input-latin1-output-default", F, ["C09", "C02", "C12"], [(AF, 'with open(in_path, "r") as f_in, open(out_path, "w") as f_out:', 'with open(in_path, "r", encoding="latin-1") as f_in, open(out_path, "w") as f_out:')]),
    ("streams-newline-lf", F, ["C07", "C16", "C06"], [(AF, 'with open(in_path, "r") as f_in, open(out_path, "w") as f_out:', 'with open(in_path, "r", newline="\\n") as f_in, open(out_path, "w", newline="\\n") as f_out:')]),
    ("both-streams-utf8", S, None, [(AF, 'with open(in_path, "r") as f_in, open(out_path, "w") as f_out:', 'with open(in_path, "r", encoding="utf-8") as f_in, open(out_path, "w", encoding="utf-8") as f_out:'), (AF, 'with open(in_file, "r") as in_io, open(out_file, "w") as out_io:', 'with open(in_file, "r", encoding="utf-8") as in_io, open(out_file, "w", encoding="utf-8") as out_io:')]),
    ("reserved-words-lowercased-by-argparse", F, ["C10", "C19"], [(NC, '        "--reserved-words",\n        default=None,', '        "--reserved-words",\n        default=None,\n        type=str.lower,')]),
    ("salt-from-environment", F, ["C19"], [(NC, '        "--salt",\n        default=None,', '        "--salt",\n        default=None,\n        env_var="NETCONAN_SALT",')]),
    ("salt-token-urlsafe", F, ["C13"], [(AF, '"".join(\n                random.choice(_CHAR_CHOICES) for _ in range(_DEFAULT_SALT_LENGTH)\n            )', "secrets.token_urlsafe(12)"), (AF, "import random\n", "import random\nimport secrets\n")]),
    ("salt-random-choices", S, None, [(AF, '"".join(\n                random.choice(_CHAR_CHOICES) for _ in range(_DEFAULT_SALT_LENGTH)\n            )', '"".join(random.choices(_CHAR_CHOICES, k=_DEFAULT_SALT_LENGTH))')]),
    ("reserved-field-aliases-module-set", F, ["C13"], [(AF, "self.reserved_words = set(default_reserved_words)", "self.reserved_words = default_reserved_words"), (AF, "self.reserved_words.update(reserved_words)", "self.reserved_words |= set(reserved_words)")]),
    ("reserved-set-updated-in-place", F, ["C15", "C13"], [(SI, "        self.reserved_words = {w.lower() for w in reserved_words}\n", "        self.reserved_words = reserved_words\n        self.reserved_words |= {w.lower() for w in reserved_words}\n")]),
    ("private-merged-only-when-absent", F, ["C05", "C19"], [(NC, "addrs if preserve_addresses is None else (preserve_addresses + addrs)", "addrs if preserve_addresses is None else preserve_addresses")]),
    ("dump-before-loop-filter-ge", F, ["C17"], [(IP, "if len(bits) == self.length", "if len(bits) >= self.length - 1")]),
    ("dump-only-v4", F, ["C17"], [(AF, "            file_anonymizer.anonymizer6.dump_to_file(f_out)\n", "")]),
    ("dump-swapped-columns", F, ["C17"], [(IP, 'file_out.write("{}\\t{}\\n".format(ip, anon))', 'file_out.write("{}\\t{}\\n".format(anon, ip))')]),
    ("mask-includes-top-transition", F, ["C05"], [(IP, "(possible_mask_int ^ (possible_mask_int >> 1)) & 0x7FFFFFFF", "(possible_mask_int ^ (possible_mask_int >> 1)) & 0xFFFFFFFF")]),
    ("mask-shift-2", F, ["C05"], [(IP, "(possible_mask_int ^ (possible_mask_int >> 1)) & 0x7FFFFFFF", "(possible_mask_int ^ (possible_mask_int >> 2)) & 0x7FFFFFFF")]),
    ("mask-idiom-respelled", S, None, [(IP, "return (diff & ((0xFFFFFFFF ^ diff) + 1)) == diff", "return (diff & (diff - 1)) == 0")]),
    ("closing-brace-not-enclosing", F, ["C09"], [(SI, '_PASSWORD_ENCLOSING_TAIL_TEXT = _PASSWORD_ENCLOSING_TEXT + ["]", "}", ";", ","]', '_PASSWORD_ENCLOSING_TAIL_TEXT = _PASSWORD_ENCLOSING_TEXT + ["]", ";", ","]')]),
    ("head-strip-one-char", F, ["C09", "C08"], [(SI, "                val = val[len(head_text) :]", "                val = val[1:]")]),
    # ---------------- C06 / C11 ------------------------------------------------------
    ("octet-25-0-4", F, ["C06"], [(IP, '_IPv4_OCTET_PATTERN = r"(25[0-5]|', '_IPv4_OCTET_PATTERN = r"(25[0-4]|')]),
    ("ipv4-enclosing-without-dot", F, ["C06"], [(IP, 'r"[^a-zA-Z0-9.]"  # Match anything but "word" chars (minus underscore) or `.`', 'r"[^a-zA-Z0-9]"  # Match anything but "word" chars (minus underscore) or `.`')]),
    ("ipv4-two-or-three-dots", F, ["C06"], [(IP, 'r"((0*{octet}\\.){{3}}0*{octet})"', 'r"((0*{octet}\\.){{2,3}}0*{octet})"')]),
    ("ipv6-passes-swapped", F, ["C06", "C15"], [(AF, "            if self.anonymizer6 is not None:\n                output_line = anonymize_ip_addr(\n                    self.anonymizer6, output_line, self.undo_ip_anon\n                )\n            if self.anonymizer4 is not None:\n                output_line = anonymize_ip_addr(\n                    self.anonymizer4, output_line, self.undo_ip_anon\n                )", "            if self.anonymizer4 is not None:\n                output_line = anonymize_ip_addr(\n                    self.anonymizer4, output_line, self.undo_ip_anon\n                )\n            if self.anonymizer6 is not None:\n                output_line = anonymize_ip_addr(\n                    self.anonymizer6, output_line, self.undo_ip_anon\n                )")]),
    ("ipv6-nine-groups", F, ["C06", "C14"], [(IP, 'r"(([0-9a-f]{1,4}:){7,7}[0-9a-f]{1,4}"', 'r"(([0-9a-f]{1,4}:){7,8}[0-9a-f]{1,4}"')]),
    ("as-modulus-minus-one", F, ["C11"], [(SI, "hash_val % (next_block_begin - block_begin) + block_begin", "hash_val % (next_block_begin - block_begin - 1) + block_begin + 1")]),
    ("as-boundary-typo", F, ["C11"], [(SI, "[0, 64512, 65536, 4200000000, 4294967296]", "[0, 64512, 65536, 420000000, 4294967296]")]),
    ("as-less-equal", F, ["C11"], [(SI, "if as_number < next_block_begin:", "if as_number <= next_block_begin:")]),
    ("as-lookbehind-dropped", F, ["C11"], [(SI, 'r"(?:(?<=\\D)|(?<=^))({})(?=\\D|$)"', 'r"({})(?=\\D|$)"')]),
    ("as-salt-omitted", F, ["C11"], [(SI, "hash_val = int(md5((self.salt + as_number).encode()).hexdigest(), 16)", "hash_val = int(md5(as_number.encode()).hexdigest(), 16)")]),
    # ---------------- C07-C10 --------------------------------------------------------
    ("log-secret-at-warning", F, ["C07"], [(SI, "    logging.debug('Anonymized input \"%s\" to \"%s\"', val, anon_val)\n    return sens_head + anon_val + sens_tail\n\n\ndef _check", "    logging.warning('Anonymized input \"%s\" to \"%s\"', val, anon_val)\n    return sens_head + anon_val + sens_tail\n\n\ndef _check")]),
    ("pseudonym-from-md5-of-secret", F, ["C07", "C08"], [(SI, 'anon_val = "netconanRemoved{}".format(len(lookup))', 'anon_val = "netconanRemoved{}".format(md5(val.encode()).hexdigest()[:8])')]),
    ("secret-stored-as-value", F, ["C07", "C08"], [(SI, "    else:\n        lookup[val] = anon_val\n", "    else:\n        lookup[val] = val\n")]),
    ("wrong-group-index", F, ["C07", "C09"], [(PW, '[(r"(?P<prefix>ip ftp password( \\d)? )(\\S+)", 3)],', '[(r"(?P<prefix>ip ftp password( \\d)? )(\\S+)", 2)],')]),
    ("pattern-consumes-trailing-word", F, ["C07", "C09"], [(PW, '[(r"(?P<prefix>authentication text )(\\S+)", 2)],', '[(r"(?P<prefix>authentication text )(\\S+) \\S+", 2)],')]),
    ("catch-all-with-keyword", F, ["C07"], [(SI, """    [(r'("?\\$1\\$[^\\s;"]+)', 1)],""", """    [(r'(?<=secret )("?\\$1\\$[^\\s;"]+)', 1)],""")]),
    ("optional-element-narrowed", F, ["C07"], [(PW, '(?P<prefix>l2tp tunnel( \\S+)? password( \\d)? )', '(?P<prefix>l2tp tunnel password( \\d)? )')]),
    ("store-under-raw-value", F, ["C08"], [(SI, "    else:\n        lookup[val] = anon_val\n", "    else:\n        lookup[raw_val] = anon_val\n")]),
    ("lookup-reset-per-file", F, ["C08"], [(AF, "        for line in in_io.readlines():\n            output_line = line", "        self.pwd_lookup = {} if self.pwd_lookup is not None else None\n        for line in in_io.readlines():\n            output_line = line")]),
    ("encoders-swapped", F, ["C09", "C08"], [(SI, "    if item_format == _sensitive_item_formats.numeric:\n        # These are the ASCII character values for anon_val converted to decimal\n        anon_val = str(int(b2a_hex(anon_val.encode()), 16))", "    if item_format == _sensitive_item_formats.numeric:\n        # These are the ASCII character values for anon_val converted to decimal\n        anon_val = b2a_hex(anon_val.encode()).decode()")]),
    ("md5-fixed-salt-length", F, ["C09"], [(SI, 'md5_crypt.using(salt="0" * min(old_salt_size, 8))', 'md5_crypt.using(salt="0000")')]),
    ("type7-salt-16", F, ["C09"], [(SI, "cisco_type7.using(salt=9)", "cisco_type7.using(salt=16)")]),
    ("new-format-without-encoder", F, ["C09"], [(SI, "    juniper_type9 = 7\n", "    juniper_type9 = 7\n    sha256 = 8\n")]),
    ("tail-dropped", F, ["C09", "C08", "C07"], [(SI, "    logging.debug('Anonymized input \"%s\" to \"%s\"', val, anon_val)\n    return sens_head + anon_val + sens_tail\n\n\ndef _check", "    logging.debug('Anonymized input \"%s\" to \"%s\"', val, anon_val)\n    return sens_head + anon_val\n\n\ndef _check")]),
    ("ignorecase-dropped", F, ["C10"], [(SI, "            re.IGNORECASE,\n        )", "            0,\n        )")]),
    ("sub-count-one", F, ["C10"], [(SI, "else self.sens_regex.sub(self._lookup_anon_word, w)", "else self.sens_regex.sub(self._lookup_anon_word, w, 1)")]),
    ("skip-tokens-containing-reserved", F, ["C10"], [(SI, "                    if w in self.conflicting_words\n", "                    if any(c in w for c in self.conflicting_words)\n")]),
    ("pseudonym-without-salt", F, ["C10", "C13"], [(SI, "replacement = md5((self.salt + sensitive_word).encode()).hexdigest()[", "replacement = md5(sensitive_word.encode()).hexdigest()[")]),
    ("escape-dropped", F, ["C10"], [(SI, "                    re.escape(w)\n", "                    w\n")]),
    # ---------------- C12, C15, C16, C19 --------------------------------------------
    ("blank-lines-dropped", F, ["C12"], [(AF, "            out_io.write(output_line)", "            if output_line.strip():\n                out_io.write(output_line)")]),
    ("comment-lines-skipped", F, ["C12", "C15"], [(AF, "        for line in in_io.readlines():\n            output_line = line\n", "        for line in in_io.readlines():\n            output_line = line\n            if line.startswith('!'):\n                out_io.write(line)\n                continue\n")]),
    ("write-rstrip-newline", F, ["C12"], [(AF, "            out_io.write(output_line)", '            out_io.write(output_line.rstrip() + "\\n")')]),
    ("stage-fed-with-raw-line", F, ["C12", "C15"], [(AF, "                output_line = self.anonymizer_sensitive_word.anonymize(output_line)", "                output_line = self.anonymizer_sensitive_word.anonymize(line)")]),
    ("elif-between-stages", F, ["C15"], [(AF, "            if self.anonymizer4 is not None:\n                output_line = anonymize_ip_addr(\n                    self.anonymizer4,", "            elif self.anonymizer4 is not None:\n                output_line = anonymize_ip_addr(\n                    self.anonymizer4,")]),
    ("raw-salt-to-one-stage", F, ["C15", "C13"], [(AF, "self.anonymizer_as_num = AsNumberAnonymizer(as_numbers, self.salt)", "self.anonymizer_as_num = AsNumberAnonymizer(as_numbers, salt)")]),
    ("host-bit-args-swapped", F, ["C15", "C04"], [(AF, "                preserve_suffix=preserve_suffix_v4,\n", "                preserve_suffix=preserve_suffix_v6,\n")]),
    ("as-stage-before-words", F, ["C15"], [(AF, "            if self.anonymizer_sensitive_word is not None:\n                output_line = self.anonymizer_sensitive_word.anonymize(output_line)\n\n            if self.anonymizer_as_num is not None:\n                output_line = anonymize_as_numbers(self.anonymizer_as_num, output_line)\n", "            if self.anonymizer_as_num is not None:\n                output_line = anonymize_as_numbers(self.anonymizer_as_num, output_line)\n\n            if self.anonymizer_sensitive_word is not None:\n                output_line = self.anonymizer_sensitive_word.anonymize(output_line)\n")]),
    ("word-stage-needs-passwords", F, ["C15"], [(AF, "        if sensitive_words is not None:\n            self.anonymizer_sensitive_word", "        if sensitive_words is not None and anon_pwd:\n            self.anonymizer_sensitive_word")]),
    ("output-path-from-root", F, ["C16"], [(AF, "os.path.join(output_path, rel_root, f),", "os.path.join(output_path, root, f),")]),
    ("filter-on-path", F, ["C16"], [(AF, 'if not f.startswith(".")', 'if not os.path.join(rel_root, f).startswith(".")')]),
    ("input-opened-rplus", F, ["C16"], [(AF, 'with open(in_path, "r") as f_in, open(out_path, "w") as f_out:', 'with open(in_path, "r+") as f_in, open(out_path, "w") as f_out:')]),
    ("handler-breaks", F, ["C16", "C14"], [(AF, '            logging.error("Failed to anonymize file %s", in_path, exc_info=True)\n', '            logging.error("Failed to anonymize file %s", in_path, exc_info=True)\n            break\n')]),
    ("handler-narrowed", F, ["C16", "C14"], [(AF, "        except Exception:\n            logging.error(", "        except OSError:\n            logging.error(")]),
    ("mkdirs-after-open", F, ["C16"], [(AF, "            # Make parent dirs for output file if they don't exist\n            _mkdirs(out_path)\n", "")]),
    ("guards-after-call-salt", F, ["C19"], [(NC, "        if args.salt is None:\n            raise ValueError(\n                \"Salt used for anonymization must be specified in order to undo anonymization.\"\n            )\n", "")]),
    ("salt-and-dump-swapped", F, ["C19"], [(NC, "            args.salt,\n            args.dump_ip_map,\n", "            args.dump_ip_map,\n            args.salt,\n")]),
    ("feature-forgotten-in-any", F, ["C19"], [(NC, "            args.anonymize_ips,\n            args.undo,\n        ]\n    ):", "            args.anonymize_ips,\n        ]\n    ):")]),
    ("host-bits-33", F, ["C19"], [(NC, "if val < 0 or val > 32:", "if val < 0 or val > 33:")]),
    ("output-not-required", S, None, [(NC, '        "--output",\n        required=True,', '        "--output",\n        required=False,')]),  # main's own guard still rejects a missing output before anything is written
    ("host-bits-default-0", F, ["C19", "C04"], [(NC, "        type=host_bits,\n        default=8,", "        type=host_bits,\n        default=0,")]),
    # ---------------- C13, C14, C18 --------------------------------------------------
    ("timestamp-in-pseudonym", F, ["C13"], [(SI, 'anon_val = "netconanRemoved{}".format(len(lookup))', 'import time\n    anon_val = "netconanRemoved{}".format(len(lookup) + int(time.time()) % 1)')]),
    ("sha512-salt-removed", F, ["C13"], [(SI, 'sha512_crypt.using(rounds=5000, salt="0000000000000000")', "sha512_crypt.using(rounds=5000)")]),
    ("sorted-removed", F, ["C13"], [(SI, "for w in sorted(sensitive_words, key=lambda w: (-len(w), w))", "for w in sensitive_words")]),
    ("global-reserved-words-updated", F, ["C13"], [(AF, "        if reserved_words is not None:\n            self.reserved_words.update(reserved_words)", "        if reserved_words is not None:\n            self.reserved_words.update(reserved_words)\n            default_reserved_words.update(reserved_words)")]),
    ("salt-not-logged", F, ["C13"], [(AF, "            logging.warning(\n                'No salt was provided; using randomly generated \"%s\"', self.salt\n            )\n", "")]),
    ("template-sub-again", F, ["C14", "C09"], [(SI, "output_line = compiled_re.sub(lambda _: anon_val, output_line)", "output_line = compiled_re.sub(anon_val, output_line)")]),
    ("md5-salt-unbounded", F, ["C14"], [(SI, '"0" * min(old_salt_size, 8)', '"0" * old_salt_size')]),
    ("except-valueerror-removed", F, ["C14", "C08"], [(SI, "        try:\n            decrypted = juniper_secrets.juniper_decrypt(val)\n        except ValueError:\n            pass\n", "        decrypted = juniper_secrets.juniper_decrypt(val)\n")]),
    ("juniper-salt-unchecked", F, ["C14"], [(JS, "    if not salt or salt[0] not in EXTRA:", "    if salt is None:")]),
    ("new-dict-lookup-on-user-data", F, ["C14"], [(SI, "    item_format = _check_sensitive_item_format(val)\n", "    item_format = _check_sensitive_item_format(val)\n    _hint = {\"$1$\": 1, \"$9$\": 2}[val[:3]]\n")]),
    ("weight-overflows-ring", F, ["C18"], [(JS, "    [1, 64],\n", "    [1, 128],\n")]),
    ("ring-mod-64", F, ["C18"], [(JS, "    return pos_diff % len(NUM_ALPHA) - 1", "    return pos_diff % 64 - 1")]),
    ("duplicate-letter", F, ["C18"], [(JS, '    "iHkq.mPf5T",', '    "iHkq.mPf5Q",')]),
    ("valid-min-5", F, ["C18"], [(JS, "]{{4,}}$", "]{{5,}}$")]),
    ("prev-from-last-filler", F, ["C18"], [(JS, "    pos = 0\n    prev = salt\n", "    pos = 0\n    prev = (salt + rand)[-1]\n")]),
    ("decode-row-by-group", F, ["C18"], [(JS, "decode = ENCODING[len(decrypt) % len(ENCODING)]", "decode = ENCODING[(len(decrypt) + 1) % len(ENCODING)]")]),
    # ---------------- behaviour-preserving ------------------------------------------
    ("rename-locals-walk", S, None, [(IP, "        head, last = bits[:-1], int(bits[-1])\n        flip_last = self.salter(self.salt, head)\n        ret = self._anonymize_bits(head) + str(flip_last ^ last)", "        prefix, cur = bits[:-1], int(bits[-1])\n        flip = self.salter(self.salt, prefix)\n        ret = self._anonymize_bits(prefix) + str(flip ^ cur)")]),
    ("xor-operands-swapped", S, None, [(IP, "ret = self._anonymize_bits(head) + str(flip_last ^ last)", "ret = self._anonymize_bits(head) + str(last ^ flip_last)")]),
    ("temporaries-in-walk", S, None, [(IP, "        ret = self._anonymize_bits(head) + str(flip_last ^ last)", "        anon_head = self._anonymize_bits(head)\n        new_bit = str(flip_last ^ last)\n        ret = anon_head + new_bit")]),
    ("membership-instead-of-get", S, None, [(IP, "        ret = self.cache.get(bits)\n        if ret is not None:\n            return ret\n\n        head, last = bits[:-1], int(bits[-1])\n        flip_last", "        if bits in self.cache:\n            return self.cache[bits]\n\n        head, last = bits[:-1], int(bits[-1])\n        flip_last")]),
    ("suffix-test-truthiness", S, None, [(IP, "    def anonymize(self, ip_int):\n        bits = self.fmt.format(ip_int)\n        if self.preserve_suffix == 0:", "    def anonymize(self, ip_int):\n        bits = self.fmt.format(ip_int)\n        if not self.preserve_suffix:")]),
    ("suffix-if-statement", S, None, [(IP, "        self.preserve_suffix = 0 if preserve_suffix is None else preserve_suffix", "        if preserve_suffix is None:\n            self.preserve_suffix = 0\n        else:\n            self.preserve_suffix = preserve_suffix")]),
    ("debug-logging-added", S, None, [(IP, "    new_ip = anonymizer.make_addr_from_int(new_ip_int)\n", "    new_ip = anonymizer.make_addr_from_int(new_ip_int)\n    logging.debug(\"mapped %d to %d\", ip_int, new_ip_int)\n")]),
    ("salter-temporaries", S, None, [(IP, "    last_hash_digit = md5((salt + string).encode()).hexdigest()[-1]\n    return int(last_hash_digit, 16) & 1", "    digest = md5((salt + string).encode()).hexdigest()\n    last_hash_digit = digest[-1]\n    return int(last_hash_digit, 16) & 1")]),
    ("salter-mod-2", S, None, [(IP, "return int(last_hash_digit, 16) & 1", "return int(last_hash_digit, 16) % 2")]),
    ("octet-respelled", S, None, [(IP, '_IPv4_OCTET_PATTERN = r"(25[0-5]|(2[0-4]|1?[0-9])?[0-9])"', '_IPv4_OCTET_PATTERN = r"(25[012345]|(2[0-4]|1?[0-9])?[0-9])"')]),
    ("ipv4-repeat-respelled", S, None, [(IP, 'r"((0*{octet}\\.){{3}}0*{octet})"', 'r"((0*{octet}\\.){{3,3}}0*{octet})"')]),
    ("ipv6-first-alt-respelled", S, None, [(IP, 'r"(([0-9a-f]{1,4}:){7,7}[0-9a-f]{1,4}"', 'r"(([0-9a-f]{1,4}:){7}[0-9a-f]{1,4}"')]),
    ("keywords-in-ip-ctor", S, None, [(AF, "            self.anonymizer4 = IpAnonymizer(\n                self.salt,\n                preserve_prefixes,\n                preserve_networks,\n                preserve_suffix=preserve_suffix_v4,\n            )", "            self.anonymizer4 = IpAnonymizer(\n                salt=self.salt,\n                preserve_prefixes=preserve_prefixes,\n                preserve_addresses=preserve_networks,\n                preserve_suffix=preserve_suffix_v4,\n            )")]),
    ("stage-blocks-reordered-in-ctor", S, None, [(AF, "        if as_numbers is not None:\n            self.anonymizer_as_num = AsNumberAnonymizer(as_numbers, self.salt)\n", ""), (AF, "        if anon_pwd:\n            self.compiled_regexes = generate_default_sensitive_item_regexes()", "        if as_numbers is not None:\n            self.anonymizer_as_num = AsNumberAnonymizer(as_numbers, self.salt)\n        if anon_pwd:\n            self.compiled_regexes = generate_default_sensitive_item_regexes()")]),
    ("readlines-temporary", S, None, [(AF, "        for line in in_io.readlines():\n", "        lines = in_io.readlines()\n        for line in lines:\n")]),
    ("write-via-temporary", S, None, [(AF, "            out_io.write(output_line)", "            result = output_line\n            out_io.write(result)")]),
    ("main-keywords", S, None, [(NC, "        anonymize_files(\n            args.input,\n            args.output,\n            args.anonymize_passwords,\n            args.anonymize_ips,\n            args.salt,\n            args.dump_ip_map,\n            sensitive_words,\n            args.undo,\n            as_numbers,\n            reserved_words,\n            preserve_prefixes,\n            preserve_addresses,\n", "        anonymize_files(\n            input_path=args.input,\n            output_path=args.output,\n            anon_pwd=args.anonymize_passwords,\n            anon_ip=args.anonymize_ips,\n            salt=args.salt,\n            dumpfile=args.dump_ip_map,\n            sensitive_words=sensitive_words,\n            undo_ip_anon=args.undo,\n            as_numbers=as_numbers,\n            reserved_words=reserved_words,\n            preserve_prefixes=preserve_prefixes,\n            preserve_networks=preserve_addresses,\n")]),
    ("host-bits-chained-comparison", S, None, [(NC, "    if val < 0 or val > 32:", "    if not 0 <= val <= 32:")]),
    ("private-merge-if-statement", S, None, [(NC, "        preserve_addresses = (\n            addrs if preserve_addresses is None else (preserve_addresses + addrs)\n        )", "        if preserve_addresses is None:\n            preserve_addresses = addrs\n        else:\n            preserve_addresses = preserve_addresses + addrs")]),
    ("as-boundaries-tuple", S, None, [(SI, "_AS_NUM_BOUNDARIES = [0, 64512, 65536, 4200000000, 4294967296]", "_AS_NUM_BOUNDARIES = (0, 64512, 65536, 4200000000, 4294967296)")]),
    ("as-hash-temporary", S, None, [(SI, "        hash_val = int(md5((self.salt + as_number).encode()).hexdigest(), 16)\n", "        digest = md5((self.salt + as_number).encode()).hexdigest()\n        hash_val = int(digest, 16)\n")]),
    ("prefix-if-statement", S, None, [(SI, '            prefix = match.group("prefix") if "prefix" in match.groupdict() else ""\n', '            if "prefix" in match.groupdict():\n                prefix = match.group("prefix")\n            else:\n                prefix = ""\n')]),
    ("elif-to-if-after-return", S, None, [(SI, "    elif decrypted in lookup:\n        anon_val = juniper_secrets.juniper_nonrandom_encrypt(lookup[decrypted], salt)", "    if decrypted in lookup:\n        anon_val = juniper_secrets.juniper_nonrandom_encrypt(lookup[decrypted], salt)")]),
    ("anonymize-value-temporary", S, None, [(SI, "            anon_val = prefix + _anonymize_value(\n                match.group(sensitive_item_num), pwd_lookup, reserved_words, salt\n            )", "            secret = match.group(sensitive_item_num)\n            replaced = _anonymize_value(secret, pwd_lookup, reserved_words, salt)\n            anon_val = prefix + replaced")]),
    ("classifier-pattern-respelled", S, None, [(SI, 'if re.match(r"^[0-9]+$", val):', 'if re.match(r"^[0-9]{1,}$", val):')]),
    ("pattern-respelled-same-language", S, None, [(PW, '[(r"(?P<prefix>authentication text )(\\S+)", 2)],', '[(r"(?P<prefix>authentication text )([^\\s]+)", 2)],')]),
    ("optional-type-widened-shifts-the-secret", F, ["C07", "C12"], [(PW, '(?P<prefix>ip ftp password( \\d)? )', '(?P<prefix>ip ftp password( \\d+)? )')]),  # on `ip ftp password 15 pw` the token `15` was replaced, now `pw` is
    ("new-pattern-appended-before-catchalls", S, None, [(SI, '    [(r"(?<=snmp-community )(\\S+)", 1)],\n', '    [(r"(?<=snmp-community )(\\S+)", 1)],\n    [(r"(?P<prefix>radius-secret )(\\S+)", 2)],\n')]),
    ("docstrings-and-comments", S, None, [(SI, '    """Split line into leading whitespace, list of words, and trailing whitespace."""', '    """Split line into (leading whitespace, list of words, trailing whitespace).\n\n    The three pieces use the same whitespace definition.\n    """\n    # nothing else happens here')]),
    ("word-memo-local-name", S, None, [(SI, "        replacement = self.sens_word_replacements.get(sensitive_word)\n        if replacement is None:", "        replacement = self.sens_word_replacements.get(sensitive_word)\n        if replacement is None:\n            logging.debug(\"new sensitive word occurrence\")")]),
    ("juniper-encode-renamed-locals", S, None, [(JS, "    for mod in reversed(enc):\n        gaps.insert(0, ord_val // mod)\n        ord_val %= mod", "    for weight in reversed(enc):\n        gaps.insert(0, ord_val // weight)\n        ord_val %= weight")]),
    ("juniper-weight-still-valid", S, ["C18"], [(JS, "    [1, 4, 32],\n", "    [1, 4, 16],\n")]),
    ("mkdirs-exist-ok-style-comment", S, None, [(AF, '    """Make parent directories for the specified file if they don\'t exist."""', '    """Make parent directories for the specified file if they do not exist yet."""')]),
    ("files-loop-temporary", S, None, [(AF, "    for in_path, out_path in file_list:\n", "    pairs = file_list\n    for in_path, out_path in pairs:\n")]),
    ("parse-args-unchanged-help", S, None, [(NC, 'help="Anonymize IP addresses",', 'help="Anonymize IPv4 and IPv6 addresses",')]),
    # ---------------- model integrity: the program analysed is the program that runs (every property) -----------------
    ("function-rebound-at-module-bottom", F, ["C01", "C03", "C13"], [(IP, None, "\n\ndef _fast_bit(salt, string):\n    return 0\n\n\n_generate_bit_from_hash = _fast_bit\n")]),
    ("function-defined-twice", F, ["C11", "C12"], [(SI, None, "\n\ndef anonymize_as_numbers(anonymizer, line):\n    return line\n")]),
    ("method-patched-from-another-module", F, ["C05", "C06", "C16"], [(AF, None, "\n\ndef _no_mask(self, possible_mask_int):\n    return False\n\n\nIpAnonymizer._is_mask = _no_mask\n")]),
    ("library-class-patched-at-import", F, ["C06", "C17", "C18"], [(JS, None, "\n\nimport ipaddress\nipaddress.IPv4Address.__str__ = lambda self: 'x'\n")]),
    ("library-function-patched-in-function", F, ["C14", "C16"], [(AF, "    file_anonymizer = FileAnonymizer(", "    os.makedirs = lambda *a, **k: None\n    file_anonymizer = FileAnonymizer(")]),
    ("truth-of-stage-object-redefined", F, ["C11", "C15"], [(SI, "    def anonymize(self, as_number):\n", "    def __bool__(self):\n        return len(self.as_num_map) > 2\n\n    def anonymize(self, as_number):\n")]),
    ("getattr-fallback-on-anonymizer", F, ["C02", "C04"], [(IP, "    def anonymize(self, ip_int):\n        bits", "    def __getattr__(self, name):\n        return 0\n\n    def anonymize(self, ip_int):\n        bits")]),
    ("property-on-anonymizer", F, ["C01"], [(IP, "    def anonymize(self, ip_int):\n        bits", "    @property\n    def width(self):\n        return self.length\n\n    def anonymize(self, ip_int):\n        bits")]),
    ("package-decorator-skips-comment-lines", F, ["C11", "C08"], [(SI, "def anonymize_as_numbers(anonymizer, line):", "def _skip_comments(fn):\n    def inner(anonymizer, line):\n        if line.startswith('!'):\n            return line\n        return fn(anonymizer, line)\n    return inner\n\n\n@_skip_comments\ndef anonymize_as_numbers(anonymizer, line):")]),
    ("pattern-table-changed-at-import", F, ["C07", "C09"], [(PW, None, "\n\ndefault_pwd_line_regexes.pop()\n")]),
    ("table-augmented-at-import", F, ["C07"], [(SI, None, "\n\nextra_password_regexes += []\n")]),
    ("constant-depends-on-environment-at-import", F, ["C13"], [(AF, "_DEFAULT_SALT_LENGTH = 16", "_DEFAULT_SALT_LENGTH = 16\nif os.environ.get('NETCONAN_SHORT_SALT'):\n    _DEFAULT_SALT_LENGTH = 4")]),
    ("call-at-import", F, ["C07", "C19"], [(NC, None, "\n\nlogging.getLogger().setLevel(logging.DEBUG)\n")]),
    ("method-slot-filled-by-assignment", F, ["C02", "C17"], [(IP, "class IpV6Anonymizer(_BaseIpAnonymizer):", "class IpV6Anonymizer(_BaseIpAnonymizer):\n    anonymize = _BaseIpAnonymizer.deanonymize\n")]),
    ("global-statement-rebinds-function", F, ["C16"], [(AF, "    file_anonymizer = FileAnonymizer(", "    global _mkdirs\n    _mkdirs = lambda p: None\n    file_anonymizer = FileAnonymizer(")]),
    ("custom-metaclass", F, ["C15", "C16"], [(AF, "class FileAnonymizer:", "class _Meta(type):\n    def __call__(cls, *a, **k):\n        return type.__call__(cls, *a, **k)\n\n\nclass FileAnonymizer(metaclass=_Meta):")]),
    ("class-decorator", F, ["C11"], [(SI, "class AsNumberAnonymizer(object):", "def _register(c):\n    return c\n\n\n@_register\nclass AsNumberAnonymizer(object):")]),
    ("exec-in-main", F, ["C19"], [(NC, "    args = _parse_args(argv)", "    exec('pass')\n    args = _parse_args(argv)")]),
    ("instance-dict-written", F, ["C13", "C15"], [(AF, "        self.salt = salt\n", "        self.salt = salt\n        self.__dict__.update(salt=salt)\n")]),
    ("star-import", F, ["C10"], [(AF, "import string\n", "import string\nfrom .default_reserved_words import *\n")]),
    ("import-rebound-to-another-hash", F, ["C01", "C13"], [(IP, "from hashlib import md5\n", "from hashlib import md5\nfrom hashlib import sha1 as md5\n")]),
    ("memoising-wrapper-bound-to-the-old-name", F, ["C03", "C13"], [(IP, "def _generate_bit_from_hash(salt, string):", "def _memoized(fn):\n    memo = {}\n\n    def inner(salt, string):\n        if string not in memo:\n            memo[string] = fn(salt, string)\n        return memo[string]\n\n    return inner\n\n\ndef _raw_bit_from_hash(salt, string):"), (IP, "class _BaseIpAnonymizer(object, metaclass=ABCMeta):", "_generate_bit_from_hash = _memoized(_raw_bit_from_hash)\n\n\nclass _BaseIpAnonymizer(object, metaclass=ABCMeta):")]),
    ("mixin-before-the-base-overrides-anonymize", F, ["C01", "C02", "C03", "C05"], [(IP, "class IpAnonymizer(_BaseIpAnonymizer):", "class _Fast(object):\n    def anonymize(self, ip_int):\n        return ip_int\n\n\nclass IpAnonymizer(_Fast, _BaseIpAnonymizer):")]),
    ("external-base-class", F, ["C08"], [(SI, "class SensitiveWordAnonymizer(object):", "class SensitiveWordAnonymizer(dict):")]),
    ("mixin-after-the-base-adds-a-method", S, None, [(IP, "class IpAnonymizer(_BaseIpAnonymizer):", "class _Describe(object):\n    def describe(self):\n        return 'v4'\n\n\nclass IpAnonymizer(_BaseIpAnonymizer, _Describe):")]),
    ("repr-on-anonymizer", S, None, [(SI, "    def anonymize(self, as_number):\n", "    def __repr__(self):\n        return 'AsNumberAnonymizer(%d numbers)' % len(self.as_num_map)\n\n    def anonymize(self, as_number):\n")]),
    ("type-checking-import", S, None, [(AF, "import string\n", "import string\nfrom typing import TYPE_CHECKING\n\nif TYPE_CHECKING:\n    from typing import IO\n")]),
    ("local-named-like-a-builtin", S, None, [(AF, "    for in_path, out_path in file_list:\n", "    for in_path, out_path in file_list:\n        input = in_path\n")]),
    ("module-level-tuple-assignment", S, None, [(AF, "_DEFAULT_SALT_LENGTH = 16", "_DEFAULT_SALT_LENGTH, _UNUSED_WIDTH = 16, 80")]),
    # ---------------- language-level hazards (one-shot iterators, late binding, class-level mutables) -----------------
    ("debug-listing-exhausts-the-word-generator", F, ["C10", "C12"], [(SI, "            words = [\n                (\n                    w\n                    if w in self.conflicting_words\n                    else self.sens_regex.sub(self._lookup_anon_word, w)\n                )\n                for w in words\n            ]\n", "            words = (\n                (\n                    w\n                    if w in self.conflicting_words\n                    else self.sens_regex.sub(self._lookup_anon_word, w)\n                )\n                for w in words\n            )\n            if logging.getLogger().isEnabledFor(logging.DEBUG):\n                logging.debug(\"Words after anonymization: %s\", list(words))\n")]),
    ("word-generator-consumed-once", S, None, [(SI, "            words = [\n                (\n                    w\n                    if w in self.conflicting_words\n                    else self.sens_regex.sub(self._lookup_anon_word, w)\n                )\n                for w in words\n            ]\n", "            words = (\n                (\n                    w\n                    if w in self.conflicting_words\n                    else self.sens_regex.sub(self._lookup_anon_word, w)\n                )\n                for w in words\n            )\n")]),
    ("dump-count-exhausts-the-generator", F, ["C17"], [(IP, "        for bits, anon_bits in ips:\n", "        if logging.getLogger().isEnabledFor(logging.DEBUG):\n            logging.debug(\"Dumping %d address mappings\", len(list(ips)))\n        for bits, anon_bits in ips:\n")]),
    ("lazy-filters-collected-in-a-loop", F, ["C10"], [(SI, "        conflicting_words = set()\n        for sensitive_word in sensitive_words:\n            conflicting_words.update(\n                set([w for w in self.reserved_words if sensitive_word in w])\n            )\n", "        candidates = []\n        for sensitive_word in sensitive_words:\n            candidates.append(filter(lambda w: sensitive_word in w, self.reserved_words))\n        conflicting_words = set()\n        for c in candidates:\n            conflicting_words.update(c)\n")]),
    ("filter-consumed-inside-the-round", S, None, [(SI, "            conflicting_words.update(\n                set([w for w in self.reserved_words if sensitive_word in w])\n            )\n", "            conflicting_words.update(\n                set(filter(lambda w: sensitive_word in w, self.reserved_words))\n            )\n")]),
    ("class-level-reserved-set-updated-through-self", F, ["C13", "C10", "C07"], [(AF, "    def __init__(\n        self,\n        anon_pwd,", "    reserved_words = set(default_reserved_words)\n\n    def __init__(\n        self,\n        anon_pwd,"), (AF, "        self.reserved_words = set(default_reserved_words)\n", ""), (AF, "            self.reserved_words.update(reserved_words)", "            self.reserved_words |= set(reserved_words)")]),
    ("class-level-default-shadowed-by-constructor", S, None, [(AF, "    def __init__(\n        self,\n        anon_pwd,", "    reserved_words = frozenset()\n\n    def __init__(\n        self,\n        anon_pwd,")]),
    ("logging-extra-names-a-record-attribute", F, ["C14"], [(AF, 'logging.debug("Input line:  %s", line.rstrip())', 'logging.debug("Input line:  %s", line.rstrip(), extra={"lineno": 1})')]),
    ("word-stage-created-when-a-salt-is-given", F, ["C10", "C15"], [(AF, "        if sensitive_words is not None:\n            self.anonymizer_sensitive_word", "        if salt is not None:\n            self.anonymizer_sensitive_word")]),
    # ---------------- environment and interfaces (round 9) ----------------------------------------------------------
    ("both-streams-latin1", F, ["C09", "C12", "C16"], [(AF, 'with open(in_path, "r") as f_in, open(out_path, "w") as f_out:', 'with open(in_path, "r", encoding="latin-1") as f_in, open(out_path, "w", encoding="latin-1") as f_out:'), (AF, 'with open(in_file, "r") as in_io, open(out_file, "w") as out_io:', 'with open(in_file, "r", encoding="latin-1") as in_io, open(out_file, "w", encoding="latin-1") as out_io:')]),
    ("preserve-addresses-action-append", F, ["C19", "C05"], [(NC, '        "--preserve-addresses",\n        default=None,', '        "--preserve-addresses",\n        action="append",\n        default=None,'), (NC, 'preserve_addresses = args.preserve_addresses.split(",")', 'preserve_addresses = ",".join(args.preserve_addresses).split(",")')]),
    ("conflict-list-cut-for-the-warning", F, ["C10"], [(SI, "        if conflicting_words:\n            logging.warning(", "        if conflicting_words:\n            conflicting_words = sorted(conflicting_words)[:50]\n            logging.warning(")]),
    ("line-count-read-after-the-loop", F, ["C14"], [(AF, "        for line in in_io.readlines():\n", "        for line_count, line in enumerate(in_io.readlines(), 1):\n"), (AF, "            out_io.write(output_line)\n", "            out_io.write(output_line)\n        logging.debug(\"Processed %d lines\", line_count)\n")]),
    ("line-count-initialised-before-the-loop", S, None, [(AF, "        for line in in_io.readlines():\n", "        line_count = 0\n        for line_count, line in enumerate(in_io.readlines(), 1):\n"), (AF, "            out_io.write(output_line)\n", "            out_io.write(output_line)\n        logging.debug(\"Processed %d lines\", line_count)\n")]),
    ("file-layer-inspects-the-word-list", F, ["C15"], [(AF, "        if sensitive_words is not None:\n            self.anonymizer_sensitive_word", "        if sensitive_words is not None and as_numbers is not None:\n            overlap = sorted(set(as_numbers).intersection(sensitive_words))\n            if overlap:\n                logging.warning(\"AS numbers that are also sensitive words: %s\", \", \".join(overlap))\n        if sensitive_words is not None:\n            self.anonymizer_sensitive_word")]),
    ("return-before-the-dump-when-a-file-failed", F, ["C17"], [(AF, "            logging.error(\"Failed to anonymize file %s\", in_path, exc_info=True)\n", "            logging.error(\"Failed to anonymize file %s\", in_path, exc_info=True)\n            failed.append(in_path)\n"), (AF, "    for in_path, out_path in file_list:\n", "    failed = []\n    for in_path, out_path in file_list:\n"), (AF, "    if dumpfile is not None:\n", "    if failed:\n        return failed\n\n    if dumpfile is not None:\n")]),
    ("debug-line-indexes-the-string-before-validation", F, ["C18", "C14"], [(JS, "    if not crypt or not re.search(VALID, crypt):", "    if crypt:\n        _first = crypt[len(MAGIC)]\n    if not crypt or not re.search(VALID, crypt):")]),
    ("ignorecase-added-to-the-ipv4-pattern", F, ["C06"], [(IP, "        enclosing=_IPv4_ENCLOSING,\n        octet=_IPv4_OCTET_PATTERN,\n    )\n)\n", "        enclosing=_IPv4_ENCLOSING,\n        octet=_IPv4_OCTET_PATTERN,\n    ),\n    re.IGNORECASE,\n)\n")]),
    ("salt-or-none-in-the-hand-over", F, ["C02", "C19"], [(AF, "        salt=salt,\n", "        salt=salt or None,\n")]),
    # ---------------- additive changes (round 12) ------------------------------------------------------------------
    ("map-rewritten-by-a-method-called-from-an-inlined-method", F, ["C11"], [(SI, "            for as_num in as_numbers\n        }\n", "            for as_num in as_numbers\n        }\n        self._resolve_replacement_collisions(as_numbers)\n\n    def _resolve_replacement_collisions(self, as_numbers):\n        used = set()\n        for as_num in as_numbers:\n            replacement = self.as_num_map[as_num]\n            while replacement in used:\n                replacement = str(int(replacement) + 1)\n            used.add(replacement)\n            self.as_num_map[as_num] = replacement\n")]),
    ("host-bits-second-way-out", F, ["C19"], [(NC, "    val = int(x)\n", "    if isinstance(x, str) and x.strip().startswith(\"/\"):\n        return 32 - int(x.strip()[1:])\n    val = int(x)\n")]),
    ("decoder-keeps-prefix-of-a-cut-group", F, ["C18", "C08", "C14"], [(JS, "        nibble, chars = _nibble(chars, nibble_len)\n", "        nibble, chars = _nibble(chars, nibble_len)\n        if len(nibble) < nibble_len:\n            break\n")]),
    ("decoder-refuses-a-cut-group-explicitly", S, ["C18", "C08"], [(JS, "        nibble, chars = _nibble(chars, nibble_len)\n", "        nibble, chars = _nibble(chars, nibble_len)\n        if len(nibble) < nibble_len:\n            raise ValueError(\"Invalid Juniper crypt string!\")\n")]),
    ("encoder-refuses-some-characters", F, ["C18"], [(JS, "    for gap in gaps:\n        gap += ALPHA_NUM[prev] + 1\n", "    if any(gap >= len(NUM_ALPHA) - 2 for gap in gaps):\n        raise ValueError(\"cannot be encoded\")\n    for gap in gaps:\n        gap += ALPHA_NUM[prev] + 1\n")]),
    ("info-summary-of-the-secret-lookup", F, ["C07"], [(AF, "    if dumpfile is not None:\n", "    if file_anonymizer.pwd_lookup:\n        logging.info(\"Replaced items: %s\", sorted(file_anonymizer.pwd_lookup))\n\n    if dumpfile is not None:\n")]),
    ("info-count-of-the-secret-lookup", S, None, [(AF, "    if dumpfile is not None:\n", "    if file_anonymizer.pwd_lookup is not None:\n        logging.info(\"Replaced %d distinct items\", len(file_anonymizer.pwd_lookup))\n\n    if dumpfile is not None:\n")]),
    ("unused-module-constant-from-library-call", S, None, [(SI, "_ANON_SENSITIVE_WORD_LEN = 6", "_ANON_SENSITIVE_WORD_LEN = 6\n_HEX_DIGITS = frozenset('0123456789abcdef')")]),
]


def _apply(files, edits):
    new = dict(files)
    for rel, old, repl in edits:
        src = new.get(rel)
        if src is None:
            return None
        if old is None:  # append to the module
            new[rel] = src + repl
            continue
        if src.count(old) != 1:
            return None
        new[rel] = src.replace(old, repl)
    return new


def _keys(pid, files):
    from .main import run_check
    code, rep = run_check(pid, files, "quick", 0, quiet=True, out=io.StringIO(), write=False)
    return code, {v["key"] for v in rep.violations}


def _job(args):
    name, kind, pid, files, base_keys = args
    code, keys = _keys(pid, files)
    new = sorted(keys - base_keys)
    return name, kind, pid, code, new


def run_for(pid, files, rep, seed=0, jobs=None):
    """Run the variants relevant to property `pid`; record statistics in `rep`."""
    base_code, base_keys = _keys(pid, files)
    work = []
    skipped = []
    for name, kind, props, edits in VARIANTS:
        if kind == F and pid not in props:
            continue
        if kind == S and props is not None and pid not in props:
            continue
        nf = _apply(files, edits)
        if nf is None:
            skipped.append(name)
            continue
        work.append((name, kind, pid, nf, base_keys))
    results = []
    jobs = jobs or min(16, os.cpu_count() or 4)
    if len(work) > 3 and jobs > 1:
        with ProcessPoolExecutor(jobs) as ex:
            results = list(ex.map(_job, work))
    else:
        results = [_job(w) for w in work]
    fired = [(n, new) for n, k, p, c, new in results if k == F and (new or c == 2)]
    missed = [n for n, k, p, c, new in results if k == F and not new and c != 2]
    quiet = [n for n, k, p, c, new in results if k == S and not new and c != 2]
    alarms = [(n, new or ["ANALYSIS-ERROR"]) for n, k, p, c, new in results if k == S and (new or c == 2)]
    for n in missed:
        print("SELFTEST-MISS property=%s variant=%s (a breaking variant of the current tree is not reported)" % (pid, n))
    for n, new in alarms:
        print("SELFTEST-FALSE-ALARM property=%s variant=%s reports %s on a behaviour-preserving variant" % (pid, n, new[:3]))
    rep.stat("selftest", {
        "breaking_variants_run": len(fired) + len(missed), "breaking_variants_reported": len(fired), "breaking_variants_missed": missed,
        "preserving_variants_run": len(quiet) + len(alarms), "preserving_variants_silent": len(quiet), "preserving_variants_alarmed": [n for n, _ in alarms],
        "skipped_anchor_not_found": skipped,
        "samples": [{"variant": n, "reported": new[:3]} for n, new in fired[:6]],
    })
    print("%s selftest: breaking variants reported %d/%d, behaviour-preserving variants silent %d/%d, skipped %d"
          % (pid, len(fired), len(fired) + len(missed), len(quiet), len(quiet) + len(alarms), len(skipped)))
    return missed, alarms
