"""Structure rules over the secret-line pattern table (C07.5-7, .9; shared with C09, C12, C14)."""
from . import rx, pwdtable
from .rx import RxError, CharSet
from .source import AnalysisError

LOC = "netconan/default_pwd_regexes.py / sensitive_item_removal.py"


def _is_zero_width(n):
    n = rx.strip_groups(n)
    if n[0] in ("look", "bol", "eol", "eos", "wordb", "eps"):
        return True
    if n[0] == "rep" and _is_zero_width(n[1]):
        return True
    if n[0] == "alt":
        return all(_is_zero_width(x) for x in n[1])
    if n[0] == "cat":
        return all(_is_zero_width(x) for x in n[1])
    return False


def _find_group(n, idx):
    for x in rx.walk(n):
        if x[0] == "group" and x[1] == idx:
            return x
    return None


def partition(pat, prefix_tree):
    """Classify the consuming items of one indexed pattern.

    Returns (ok, message, parts) where parts = {"prefix": node|None, "secret": node, "lookbehind": [...], "trailing": [...]}"""
    items = pwdtable.strip_allowed_prefix(pat.tree, prefix_tree)
    if items is None:
        return False, "pattern does not start with the allowed-prefix context", None
    info = pat.info
    idx = pat.idx
    if idx < 0 or idx > info["groups"]:
        return False, "secret group index %d does not exist (pattern has %d groups)" % (idx, info["groups"]), None
    pidx = info["groupdict"].get("prefix")
    lead = []
    while items and _is_zero_width(items[0]):
        lead.append(items.pop(0))
    trail = []
    while items and _is_zero_width(items[-1]):
        trail.insert(0, items.pop())
    parts = {"prefix": None, "secret": None, "lookbehind": lead, "trailing": trail}
    if idx == 0:
        # whole match is the secret: there must be no prefix group (it would be re-inserted AND replaced)
        if pidx is not None:
            return False, "index 0 (whole match) together with a prefix group", None
        parts["secret"] = rx.cat(*items)
        return True, "whole match is the secret", parts
    if pidx is not None:
        if len(items) != 2:
            return False, "consuming part has %d top-level items; expected exactly <prefix group><secret group> (anything else that is consumed is deleted from the line, anything captured later survives)" % len(items), None
        a, b = items
        if not (a[0] == "group" and a[1] == pidx):
            return False, "first consuming item is not the named prefix group", None
        if not (b[0] == "group" and b[1] == idx):
            return False, "second consuming item is group %s, but the secret index is %d" % (b[1] if b[0] == "group" else b[0], idx), None
        parts["prefix"], parts["secret"] = a, b
        return True, "prefix-group . secret-group", parts
    if len(items) != 1 or not (items[0][0] == "group" and items[0][1] == idx):
        return False, "prefix-less pattern must consume exactly the secret group %d (found %d consuming items: %s)" % (idx, len(items), [i[0] for i in items]), None
    parts["secret"] = items[0]
    return True, "look-behind . secret-group", parts


def check_table(ctx, rep, cl, want_catchalls=True):
    prefix, groups = pwdtable.load(ctx, rep, cl)
    try:
        ptree, pinfo = rx.parse(prefix, 0)
    except RxError as e:
        raise AnalysisError("allowed prefix does not parse: %s" % e)
    rep.ob(cl + ".allowed-prefix-groupless", "_ALLOWED_REGEX_PREFIX", pinfo["groups"] == 0, "the allowed prefix adds %d capturing groups (must be 0: indices are relative to the listed pattern)" % pinfo["groups"], LOC)
    rep.ob(cl + ".allowed-prefix-zero-width", "_ALLOWED_REGEX_PREFIX", _is_zero_width(ptree), "the allowed prefix consumes nothing", LOC)
    n_idx = n_scrub = 0
    parts_by_pat = {}
    for g in groups:
        for pat in g:
            key_id = pat.ident
            if pat.error:
                rep.fail(cl + ".pattern-parses", key_id, "pattern cannot be analysed: %s" % pat.error, LOC)
                continue
            if pat.idx is None:
                n_scrub += 1
                continue
            n_idx += 1
            ok, msg, parts = partition(pat, ptree)
            rep.ob(cl + ".match-is-prefix-then-secret", key_id, ok, "group %d of list %s (index %d): %s" % (pat.gi, pat.source, pat.idx, msg), LOC, key="%s.match-is-prefix-then-secret|%s" % (cl, key_id))
            if ok:
                parts_by_pat[(pat.gi, pat.pi)] = parts
                sec = rx.strip_groups(parts["secret"])
                rep.ob(cl + ".secret-nonempty", key_id, not rx.nullable(sec) or rx.has_zero_width(sec), "secret group cannot match the empty string", LOC, nontrivial=False)
    rep.stat("indexed_patterns", n_idx)
    rep.stat("scrub_patterns", n_scrub)
    rep.stat("pattern_groups", len(groups))
    rep.ob(cl + ".indexed-floor", "pattern table", n_idx >= 30, "indexed patterns found: %d (floor 30 confirmed by hand; 42 on the reference tree)" % n_idx, LOC, nontrivial=False)
    if want_catchalls:
        _catchalls(rep, cl, groups, parts_by_pat)
    return prefix, groups, parts_by_pat


def _catchalls(rep, cl, groups, parts_by_pat):
    """The table ends with keyword-free catch-alls for $9$ and $1$ hash-shaped tokens."""
    body = ("set", CharSet.of(" \t\n\r\f\v;\"").complement())
    want = {
        "$9$": rx.cat(rx.lit("$9$"), rx.plus(("set", _nonspace_noterm()))),
        "$1$": rx.cat(rx.lit("$1$"), rx.plus(("set", _nonspace_noterm()))),
    }
    tail = groups[-2:] if len(groups) >= 2 else groups
    found = {}
    for g in tail:
        for pat in g:
            parts = parts_by_pat.get((pat.gi, pat.pi))
            if not parts or parts["prefix"] is not None or any(not _only_allowed_lookbehind(x) for x in parts["lookbehind"]):
                continue
            sec = rx.strip_groups(parts["secret"])
            for tag, spec in want.items():
                try:
                    alpha, (S, W) = rx.languages([sec, spec])
                except RxError:
                    continue
                if (W - S).is_empty():
                    found[tag] = pat
    for tag in want:
        rep.ob(cl + ".catch-all-last", tag, tag in found,
               "one of the last two pattern groups is a keyword-free catch-all whose secret group covers %s[^\\s;\"]+ (so a standalone hash-shaped token is replaced whatever keywords surround it)" % tag, LOC,
               key="%s.catch-all-last|%s" % (cl, tag))


def _nonspace_noterm():
    from .rx import _category
    return (_category("space") | CharSet.of(";\"")).complement()


def _only_allowed_lookbehind(n):
    return False if n[0] != "eps" else True
