"""Driver:  python -m nc_static.main <Cxx> [--tier quick|thorough] [--repo /repo]"""
import argparse
import os
import sys
import time
import traceback

from .source import Program, AnalysisError, ShapeError, read_tree
from .flow import Analysis
from .calls import CallGraph
from .report import Report


class Ctx:
    def __init__(self, files):
        self.files = files
        self.p = Program(files)
        self.A = Analysis(self.p)
        self.folder = self.A.folder
        self._G = None

    @property
    def G(self):
        if self._G is None:
            self._G = CallGraph(self.A)
        return self._G

    @property
    def helpers(self):
        """Package functions that are not anchors of any rule and are inlined into their callers:
        their bodies are analysed in the callers' context, so closure scans skip them."""
        if getattr(self, "_helpers", None) is None:
            from .flow import ANCHORS, Evaluator
            called = set()
            for cs in self.G.sites:
                for f in cs.funcs():
                    if f is not cs.owner:
                        called.add(f.qualname)
            out = set()
            for f in self.p.all_functions():
                if f.name in ANCHORS or f.name.startswith("__") or f.qualname not in called:
                    continue
                if Evaluator(self.p, f).inlinable(f) is False and False:
                    continue
                ev = Evaluator(self.p, self.p.all_functions()[0] if self.p.all_functions()[0] is not f else self.p.all_functions()[1])
                from .flow import _INLINE_STATS
                st = _INLINE_STATS.get(id(self.p), {"ok": set(), "fail": set()})
                # only functions ALL of whose call sites were actually inlined count as helpers
                if ev.inlinable(f) and f.qualname in st["ok"] and f.qualname not in st["fail"]:
                    out.add(f.qualname)
            self._helpers = out
        return self._helpers


def registry():
    from . import checks_ip
    reg = {
        "C01": checks_ip.c01, "C02": checks_ip.c02, "C03": checks_ip.c03,
        "C04": checks_ip.c04, "C05": checks_ip.c05, "C17": checks_ip.c17,
    }
    for modname in ("checks_rx", "checks_secret", "checks_pipe", "checks_misc"):
        try:
            mod = __import__("nc_static." + modname, fromlist=["CHECKS"])
        except ImportError:
            continue
        reg.update(getattr(mod, "CHECKS", {}))
    return reg


def run_check(pid, files, tier="quick", seed=0, quiet=False, out=sys.stdout, write=True, extra=None):
    """Run one property check on a source provider. Returns (exit code, Report)."""
    rep = Report(pid, tier, seed, quiet=quiet)
    reg = registry()
    if pid not in reg:
        print("ANALYSIS-ERROR property=%s no check registered" % pid, file=out)
        return 2, rep
    try:
        from . import flow as _flow
        _flow._INLINE_CACHE.clear()  # per-program caches keyed by object identity: dropped with the program they belong to (long-lived tool processes)
        _flow._INLINE_STATS.clear()
        ctx = Ctx(files)
        ctx.tier = tier
        ctx.seed = seed
        reg[pid](ctx, rep)
        # the verdict is about the program Python runs only if the package stays inside the modelled language; the scope is the whole
        # package for every property, because the constructs in question act at a distance (a class or library patched in one module
        # changes what every other module's calls mean)
        from . import integrity
        integrity.check(ctx, rep, pid)
        # ... and only where Python's evaluation model agrees with the value model of the term builder
        from . import hazards
        hazards.check(ctx, rep, pid)
        fns = ctx.p.all_functions()
        rep.stat("package_functions", len(fns))
        if ctx._G is not None:
            rep.stat("call_sites_total", len(ctx.G.sites))
            rep.stat("call_sites_resolved", sum(1 for c in ctx.G.sites if c.targets))
        if not rep.obligations:
            raise AnalysisError("check produced no obligations (vacuous)")
        if extra is not None:
            extra(ctx, rep)
        return rep.finish(out, write=write), rep
    except ShapeError as e:
        rep.fail(pid + ".model-shape", e.construct or "model", str(e), e.where or "")
        return rep.finish(out, write=write), rep
    except AnalysisError as e:
        print("ANALYSIS-ERROR property=%s %s" % (pid, e), file=out)
        return 2, rep
    except Exception as e:  # analyser bug: never a pass, never a violation
        traceback.print_exc()
        print("ANALYSIS-ERROR property=%s analyser raised %s: %s" % (pid, type(e).__name__, e), file=out)
        return 2, rep


def main(argv=None):
    ap = argparse.ArgumentParser()
    ap.add_argument("pid")
    ap.add_argument("--tier", default=os.environ.get("VERIF_TIER", "quick"), choices=["quick", "thorough"])
    ap.add_argument("--repo", default=os.environ.get("NETCONAN_REPO", "/repo"))
    ap.add_argument("--replay", default=None)
    args = ap.parse_args(argv)
    seed = int(os.environ.get("VERIF_SEED", "0") or 0)
    if args.replay:
        import json
        with open(args.replay) as fh:
            print(json.dumps(json.load(fh), indent=1))
    try:
        files = read_tree(args.repo)
    except AnalysisError as e:
        print("ANALYSIS-ERROR property=%s %s" % (args.pid, e))
        return 2
    extra = None
    if args.tier == "thorough":
        from . import selftest

        def extra(ctx, rep):
            selftest.run_for(args.pid, files, rep, seed)

    code, rep = run_check(args.pid, files, args.tier, seed, extra=extra)
    return code


if __name__ == "__main__":
    sys.exit(main())
