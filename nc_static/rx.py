"""Regular-language engine over Unicode code points.

Patterns are *parsed* with the standard library's regex parser (re._parser);
no pattern is ever compiled or applied to a string.  The syntax tree is
converted into our own regex AST, from which ε-NFAs / DFAs over a symbolic
alphabet of minterms are built.  Supported: literals, classes (incl. \\d \\s \\w
and negation, IGNORECASE closure as implemented by sre's compiler), ANY,
alternation, greedy/lazy bounded and unbounded repeats, groups, ^ and $ and
look-arounds as *syntax nodes* (handled by the callers: contexts are lifted
out, optional look-aheads are vacuous).  Back-references are rejected.

Language operations: union, intersection, complement, difference, emptiness,
shortest witness, concatenation (at AST level).
"""
import re
import sys
import unicodedata

try:  # Python >= 3.11
    import re._parser as sre_parse
    import re._constants as sre_c
    try:
        import re._casefix as _casefix
        _EXTRA_CASES = _casefix._EXTRA_CASES
    except Exception:  # pragma: no cover
        _EXTRA_CASES = {}
except ImportError:  # pragma: no cover
    import sre_parse
    import sre_constants as sre_c
    _EXTRA_CASES = getattr(sre_parse, "_EXTRA_CASES", {})

MAXCP = 0x10FFFF


class RxError(Exception):
    pass


# ----------------------------------------------------------------------
# character sets as sorted disjoint inclusive intervals
# ----------------------------------------------------------------------
class CharSet:
    __slots__ = ("iv", "_h")

    def __init__(self, intervals=()):
        iv = sorted((int(a), int(b)) for a, b in intervals if a <= b)
        out = []
        for a, b in iv:
            if out and a <= out[-1][1] + 1:
                if b > out[-1][1]:
                    out[-1] = (out[-1][0], b)
            else:
                out.append((a, b))
        self.iv = tuple(out)
        self._h = hash(self.iv)

    @classmethod
    def of(cls, chars):
        return cls((ord(c), ord(c)) for c in chars)

    @classmethod
    def ranges(cls, spec):
        """'a-fA-F0-9.' style (no escapes; '-' last to be literal)."""
        iv = []
        i = 0
        while i < len(spec):
            if i + 2 < len(spec) and spec[i + 1] == "-":
                iv.append((ord(spec[i]), ord(spec[i + 2])))
                i += 3
            else:
                iv.append((ord(spec[i]), ord(spec[i])))
                i += 1
        return cls(iv)

    @classmethod
    def full(cls):
        return cls([(0, MAXCP)])

    def __hash__(self):
        return self._h

    def __eq__(self, o):
        return isinstance(o, CharSet) and self.iv == o.iv

    def __bool__(self):
        return bool(self.iv)

    def __or__(self, o):
        return CharSet(self.iv + o.iv)

    def complement(self):
        out = []
        prev = 0
        for a, b in self.iv:
            if a > prev:
                out.append((prev, a - 1))
            prev = b + 1
        if prev <= MAXCP:
            out.append((prev, MAXCP))
        return CharSet(out)

    def __and__(self, o):
        out = []
        i = j = 0
        A, B = self.iv, o.iv
        while i < len(A) and j < len(B):
            lo = max(A[i][0], B[j][0])
            hi = min(A[i][1], B[j][1])
            if lo <= hi:
                out.append((lo, hi))
            if A[i][1] < B[j][1]:
                i += 1
            else:
                j += 1
        return CharSet(out)

    def __sub__(self, o):
        return self & o.complement()

    def __contains__(self, ch):
        c = ord(ch) if isinstance(ch, str) else ch
        for a, b in self.iv:
            if a <= c <= b:
                return True
        return False

    def issubset(self, o):
        return not (self - o)

    def size(self):
        return sum(b - a + 1 for a, b in self.iv)

    def chars(self, limit=100000):
        n = 0
        for a, b in self.iv:
            for c in range(a, b + 1):
                yield c
                n += 1
                if n >= limit:
                    return

    def sample(self):
        """A representative character, preferring printable ASCII letters/digits."""
        best = None
        for a, b in self.iv:
            for rank, (lo, hi) in enumerate(((48, 57), (97, 122), (65, 90), (33, 126), (32, 32))):
                x, y = max(a, lo), min(b, hi)
                if x <= y:
                    cand = (rank, x)
                    if best is None or cand < best:
                        best = cand
                    break
        if best is not None:
            return chr(best[1])
        return chr(self.iv[0][0]) if self.iv else ""

    def describe(self, maxlen=60):
        parts = []
        for a, b in self.iv:
            def f(c):
                ch = chr(c)
                return ch if 32 < c < 127 else "\\u%04x" % c if c > 0xFF or c < 32 or c == 127 else repr(ch)[1:-1]
            parts.append(f(a) if a == b else "%s-%s" % (f(a), f(b)))
        s = "[" + "".join(parts) + "]"
        return s if len(s) <= maxlen else s[: maxlen - 2] + "…]"

    def __repr__(self):
        return "CharSet(%s)" % self.describe()


_CAT_CACHE = {}


def _category(name):
    """Exact sets for sre's unicode categories, computed from this interpreter's tables."""
    if name in _CAT_CACHE:
        return _CAT_CACHE[name]
    if name == "digit":
        pred = lambda ch: ch.isdecimal()
    elif name == "space":
        pred = lambda ch: ch.isspace()
    elif name == "word":
        pred = lambda ch: ch.isalnum() or ch == "_"
    elif name == "linebreak":
        pred = lambda ch: ch == "\n"
    else:
        raise RxError("category %s" % name)
    iv = []
    start = None
    for c in range(MAXCP + 1):
        ok = pred(chr(c))
        if ok and start is None:
            start = c
        elif not ok and start is not None:
            iv.append((start, c - 1))
            start = None
    if start is not None:
        iv.append((start, MAXCP))
    cs = CharSet(iv)
    _CAT_CACHE[name] = cs
    return cs


def ascii_category(name):
    return {
        "digit": CharSet.ranges("0-9"),
        "space": CharSet.of(" \t\n\r\f\v"),
        "word": CharSet.ranges("a-zA-Z0-9_"),
    }[name]


_LOWER_INV = None


def _lower(c):
    l = chr(c).lower()
    return ord(l) if len(l) == 1 else c


def _lower_inverse():
    global _LOWER_INV
    if _LOWER_INV is None:
        inv = {}
        for c in range(MAXCP + 1):
            l = _lower(c)
            if l != c:
                inv.setdefault(l, []).append(c)
        _LOWER_INV = inv
    return _LOWER_INV


def ignorecase_closure(cs):
    """Set of characters ch that sre matches against a positive class `cs`
    compiled with IGNORECASE (unicode): lower(ch) in C where
    C = {lower(x)} ∪ extra_cases(lower(x)) for x in cs."""
    if cs.size() > 20000:
        # huge classes (negated sets are handled by the caller on the positive part)
        raise RxError("ignorecase closure of a huge class")
    C = set()
    for x in cs.chars():
        l = _lower(x)
        C.add(l)
        for k in _EXTRA_CASES.get(l, ()):
            C.add(k)
    inv = _lower_inverse()
    out = set()
    for l in C:
        if _lower(l) == l:
            out.add(l)
        for c in inv.get(l, ()):
            out.add(c)
    return CharSet((c, c) for c in out)


# ----------------------------------------------------------------------
# regex AST
# ----------------------------------------------------------------------
# nodes: ("eps",) ("set", CharSet) ("cat", (n..)) ("alt", (n..)) ("rep", n, lo, hi|None, greedy)
#        ("group", idx|None, name|None, n) ("look", "ahead"|"behind", negated, n) ("bol",) ("eol",)
EPS = ("eps",)


def lit(s):
    return cat(*[("set", CharSet.of(ch)) for ch in s]) if s else EPS


def cset(spec):
    return ("set", CharSet.ranges(spec))


def cat(*ns):
    flat = []
    for n in ns:
        if n[0] == "cat":
            flat.extend(n[1])
        elif n[0] == "eps":
            continue
        else:
            flat.append(n)
    if not flat:
        return EPS
    if len(flat) == 1:
        return flat[0]
    return ("cat", tuple(flat))


def alt(*ns):
    if len(ns) == 1:
        return ns[0]
    return ("alt", tuple(ns))


def rep(n, lo, hi, greedy=True):
    return ("rep", n, lo, hi, greedy)


def opt(n):
    return rep(n, 0, 1)


def star(n):
    return rep(n, 0, None)


def plus(n):
    return rep(n, 1, None)


EMPTYSET = ("set", CharSet())
ANYCHAR = ("set", CharSet.full())


def parse(pattern, flags=0):
    """Parse a Python regex (text + flags) into our AST.  Returns (ast, info)
    where info has 'groups' (count), 'groupdict' (name -> index), 'flags'."""
    try:
        sp = sre_parse.parse(pattern, flags)
    except Exception as e:
        raise RxError("pattern does not parse: %s" % e)
    fl = sp.state.flags
    st = sp.state
    conv = _Conv(fl)
    node = conv.seq(sp)
    info = {"groups": st.groups - 1, "groupdict": dict(st.groupdict), "flags": fl}
    return node, info


class _Conv:
    def __init__(self, flags):
        self.flags = flags

    def _ic(self, flags):
        return bool(flags & re.IGNORECASE)

    def _ascii(self, flags):
        return bool(flags & re.ASCII)

    def seq(self, sp, flags=None):
        flags = self.flags if flags is None else flags
        return cat(*[self.item(op, av, flags) for op, av in sp])

    def charset(self, cs, flags):
        if self._ic(flags):
            return ignorecase_closure(cs)
        return cs

    def item(self, op, av, flags):
        c = sre_c
        if op is c.LITERAL:
            return ("set", self.charset(CharSet([(av, av)]), flags))
        if op is c.NOT_LITERAL:
            return ("set", self.charset(CharSet([(av, av)]), flags).complement())
        if op is c.ANY:
            if flags & re.DOTALL:
                return ANYCHAR
            return ("set", CharSet.of("\n").complement())
        if op is c.IN:
            neg = False
            acc = CharSet()
            plain = CharSet()
            for iop, iav in av:
                if iop is c.NEGATE:
                    neg = True
                elif iop is c.LITERAL:
                    plain = plain | CharSet([(iav, iav)])
                elif iop is c.RANGE:
                    plain = plain | CharSet([iav])
                elif iop is c.CATEGORY:
                    acc = acc | self.category(iav, flags)
                else:
                    raise RxError("class item %s" % iop)
            if plain:
                acc = acc | self.charset(plain, flags)
            return ("set", acc.complement() if neg else acc)
        if op is c.BRANCH:
            return alt(*[self.seq(x, flags) for x in av[1]])
        if op is c.SUBPATTERN:
            group, add_flags, del_flags, p = av
            f2 = (flags | add_flags) & ~del_flags
            inner = self.seq(p, f2)
            if group is None:
                return inner
            return ("group", group, None, inner)
        if op in (c.MAX_REPEAT, c.MIN_REPEAT):
            lo, hi, p = av
            hi = None if hi == c.MAXREPEAT else hi
            return ("rep", self.seq(p, flags), lo, hi, op is c.MAX_REPEAT)
        if op is c.AT:
            if av in (c.AT_BEGINNING, c.AT_BEGINNING_STRING):
                if av is c.AT_BEGINNING and flags & re.MULTILINE:
                    raise RxError("MULTILINE ^")
                return ("bol",)
            if av in (c.AT_END, c.AT_END_STRING):
                if av is c.AT_END and flags & re.MULTILINE:
                    raise RxError("MULTILINE $")
                return ("eol",) if av is c.AT_END else ("eos",)
            if av in (c.AT_BOUNDARY, c.AT_NON_BOUNDARY):
                return ("wordb", av is c.AT_BOUNDARY)
            raise RxError("anchor %s" % av)
        if op in (c.ASSERT, c.ASSERT_NOT):
            direction, p = av
            return ("look", "ahead" if direction >= 0 else "behind", op is c.ASSERT_NOT, self.seq(p, flags))
        if op is c.GROUPREF or op is c.GROUPREF_EXISTS:
            raise RxError("back-reference: not a regular language")
        raise RxError("regex opcode %s" % op)

    def category(self, cat_, flags):
        c = sre_c
        asc = self._ascii(flags)
        table = {
            c.CATEGORY_DIGIT: ("digit", False),
            c.CATEGORY_NOT_DIGIT: ("digit", True),
            c.CATEGORY_SPACE: ("space", False),
            c.CATEGORY_NOT_SPACE: ("space", True),
            c.CATEGORY_WORD: ("word", False),
            c.CATEGORY_NOT_WORD: ("word", True),
        }
        if cat_ not in table:
            raise RxError("category %s" % cat_)
        name, neg = table[cat_]
        cs = ascii_category(name) if asc else _category(name)
        return cs.complement() if neg else cs


# ----------------------------------------------------------------------
# AST utilities
# ----------------------------------------------------------------------
def walk(n):
    yield n
    t = n[0]
    if t in ("cat", "alt"):
        for x in n[1]:
            for y in walk(x):
                yield y
    elif t == "rep":
        for y in walk(n[1]):
            yield y
    elif t == "group":
        for y in walk(n[3]):
            yield y
    elif t == "look":
        for y in walk(n[3]):
            yield y


def strip_groups(n):
    t = n[0]
    if t == "group":
        return strip_groups(n[3])
    if t == "cat":
        return cat(*[strip_groups(x) for x in n[1]])
    if t == "alt":
        return alt(*[strip_groups(x) for x in n[1]])
    if t == "rep":
        return ("rep", strip_groups(n[1]), n[2], n[3], n[4])
    if t == "look":
        return ("look", n[1], n[2], strip_groups(n[3]))
    return n


def has_zero_width(n):
    return any(x[0] in ("look", "bol", "eol", "eos", "wordb") for x in walk(n))


def nullable(n):
    t = n[0]
    if t == "eps":
        return True
    if t == "set":
        return False
    if t == "cat":
        return all(nullable(x) for x in n[1])
    if t == "alt":
        return any(nullable(x) for x in n[1])
    if t == "rep":
        return n[2] == 0 or nullable(n[1])
    if t == "group":
        return nullable(n[3])
    return True  # zero-width


def drop_vacuous(n):
    """Remove optional zero-width assertions, e.g. (?=/(\\d{1,3}))? — a repeat
    with lower bound 0 of a look-around always succeeds (by taking 0 copies)."""
    t = n[0]
    if t == "rep":
        inner = strip_groups(n[1])
        if n[2] == 0 and inner[0] == "look":
            return EPS
        return ("rep", drop_vacuous(n[1]), n[2], n[3], n[4])
    if t == "cat":
        return cat(*[drop_vacuous(x) for x in n[1]])
    if t == "alt":
        return alt(*[drop_vacuous(x) for x in n[1]])
    if t == "group":
        return ("group", n[1], n[2], drop_vacuous(n[3]))
    if t == "look":
        # a look-ahead whose body is nullable is vacuous as well
        if not n[2] and nullable(strip_groups(n[3])) and not has_zero_width(n[3]):
            return EPS
        return n
    return n


def top_items(n):
    return list(n[1]) if n[0] == "cat" else ([] if n[0] == "eps" else [n])


class Context:
    """Left / right context of a pattern: which single characters (or line
    boundary) may stand immediately before / after a match."""

    def __init__(self):
        self.bol = False
        self.chars = CharSet()
        self.other = []  # context alternatives that are not a single char / boundary

    def describe(self):
        bits = []
        if self.bol:
            bits.append("boundary")
        if self.chars:
            bits.append(self.chars.describe())
        for o in self.other:
            bits.append("other:%s" % (o,))
        return " | ".join(bits) or "none"


def _ctx_from_look(body, ctx, side):
    """Add one look-around body (already stripped of groups) to a context."""
    body = strip_groups(body)
    alts = body[1] if body[0] == "alt" else (body,)
    for a in alts:
        if a[0] in ("bol",) and side == "left":
            ctx.bol = True
        elif a[0] in ("eol", "eos") and side == "right":
            ctx.bol = True
        elif a[0] == "set":
            ctx.chars = ctx.chars | a[1]
        else:
            ctx.other.append(a)


def split_context(n):
    """Split  ctxL · body · ctxR  where ctxL is a look-behind (or an alternation /
    non-capturing group of look-behinds) at the very start and ctxR a look-ahead
    at the very end.  Returns (left Context|None, body AST, right Context|None)."""
    items = top_items(n)
    left = right = None

    def _neg_single(c):
        """(?<!S) / (?!S) with one character set S: 'the neighbour is the boundary or a character outside S'."""
        return c[0] == "look" and c[2] and strip_groups(c[3])[0] == "set"
    if items and _neg_single(strip_groups(items[0])) and strip_groups(items[0])[1] == "behind":
        left = Context()
        left.bol = True
        left.chars = strip_groups(strip_groups(items[0])[3])[1].complement()
        items = items[1:]
    if items and _neg_single(strip_groups(items[-1])) and strip_groups(items[-1])[1] == "ahead":
        right = Context()
        right.bol = True
        right.chars = strip_groups(strip_groups(items[-1])[3])[1].complement()
        items = items[:-1]
    if items and left is None:
        first = strip_groups(items[0])
        cands = first[1] if first[0] == "alt" else (first,)
        if all((c[0] == "look" and c[1] == "behind" and not c[2]) or c[0] == "bol" for c in cands):
            left = Context()
            for c in cands:
                if c[0] == "bol":
                    left.bol = True
                else:
                    _ctx_from_look(c[3], left, "left")
            items = items[1:]
    if items and right is None:
        last = strip_groups(items[-1])
        cands = last[1] if last[0] == "alt" else (last,)
        if all((c[0] == "look" and c[1] == "ahead" and not c[2]) or c[0] in ("eol", "eos") for c in cands):
            right = Context()
            for c in cands:
                if c[0] in ("eol", "eos"):
                    right.bol = True
                else:
                    _ctx_from_look(c[3], right, "right")
            items = items[:-1]
    return left, cat(*items), right


# ----------------------------------------------------------------------
# automata
# ----------------------------------------------------------------------
class Alphabet:
    """Partition of the code-point space into minterms w.r.t. a family of sets."""

    def __init__(self, sets):
        cuts = {0, MAXCP + 1}
        for s in sets:
            for a, b in s.iv:
                cuts.add(a)
                cuts.add(b + 1)
        cuts = sorted(cuts)
        segs = [(cuts[i], cuts[i + 1] - 1) for i in range(len(cuts) - 1)]
        sets = list(dict.fromkeys(sets))
        # signature of each segment = which sets contain it
        sig_of = {}
        self.atoms = []  # CharSet per atom
        atom_iv = {}
        for lo, hi in segs:
            sig = tuple(i for i, s in enumerate(sets) if lo in s)
            atom_iv.setdefault(sig, []).append((lo, hi))
        self.sig_index = {}
        for sig, iv in atom_iv.items():
            self.sig_index[sig] = len(self.atoms)
            self.atoms.append(CharSet(iv))
        self.n = len(self.atoms)
        self._mask = {}
        for i, s in enumerate(sets):
            m = 0
            for sig, idx in self.sig_index.items():
                if i in sig:
                    m |= 1 << idx
            self._mask[s] = m

    def mask(self, cs):
        if cs in self._mask:
            return self._mask[cs]
        m = 0
        for i, a in enumerate(self.atoms):
            inter = a & cs
            if inter:
                if inter != a:
                    raise RxError("set %r is not a union of atoms" % cs)
                m |= 1 << i
        self._mask[cs] = m
        return m

    def charset_of_mask(self, m):
        iv = []
        for i, a in enumerate(self.atoms):
            if m >> i & 1:
                iv.extend(a.iv)
        return CharSet(iv)


def collect_sets(*nodes):
    out = []
    for n in nodes:
        if n is None:
            continue
        if isinstance(n, CharSet):
            out.append(n)
            continue
        for x in walk(n):
            if x[0] == "set":
                out.append(x[1])
    return out


class NFA:
    def __init__(self):
        self.eps = []  # list of lists
        self.tr = []  # list of list of (mask, target)

    def new(self):
        self.eps.append([])
        self.tr.append([])
        return len(self.eps) - 1


def _build(nfa, n, alpha, s, t):
    """Add states/transitions so that n leads from state s to state t."""
    k = n[0]
    if k == "eps":
        nfa.eps[s].append(t)
    elif k == "set":
        m = alpha.mask(n[1])
        if m:
            nfa.tr[s].append((m, t))
    elif k == "cat":
        cur = s
        items = n[1]
        for i, x in enumerate(items):
            nxt = t if i == len(items) - 1 else nfa.new()
            _build(nfa, x, alpha, cur, nxt)
            cur = nxt
    elif k == "alt":
        for x in n[1]:
            a, b = nfa.new(), nfa.new()
            nfa.eps[s].append(a)
            _build(nfa, x, alpha, a, b)
            nfa.eps[b].append(t)
    elif k == "group":
        _build(nfa, n[3], alpha, s, t)
    elif k == "rep":
        inner, lo, hi = n[1], n[2], n[3]
        cur = s
        for _ in range(lo):
            nxt = nfa.new()
            _build(nfa, inner, alpha, cur, nxt)
            cur = nxt
        if hi is None:
            a, b = nfa.new(), nfa.new()
            nfa.eps[cur].append(a)
            _build(nfa, inner, alpha, a, b)
            nfa.eps[b].append(a)
            nfa.eps[a].append(t)
        else:
            nfa.eps[cur].append(t)
            for _ in range(hi - lo):
                nxt = nfa.new()
                _build(nfa, inner, alpha, cur, nxt)
                nfa.eps[nxt].append(t)
                cur = nxt
    elif k == "dfa":
        d = n[1]
        if d.alpha is not alpha:
            raise RxError("embedded DFA over another alphabet")
        base = [nfa.new() for _ in range(len(d.trans))]
        nfa.eps[s].append(base[d.start])
        for q, row in enumerate(d.trans):
            by_target = {}
            for a, q2 in enumerate(row):
                if q2 is not None:
                    by_target[q2] = by_target.get(q2, 0) | (1 << a)
            for q2, m in by_target.items():
                nfa.tr[base[q]].append((m, base[q2]))
            if q in d.acc:
                nfa.eps[base[q]].append(t)
    else:
        raise RxError("cannot build automaton for node %s" % k)


class DFA:
    def __init__(self, alpha, trans, start, acc):
        self.alpha = alpha
        self.trans = trans  # list of rows; row[a] = target or None
        self.start = start
        self.acc = acc  # set

    # -- construction ---------------------------------------------------
    @classmethod
    def from_ast(cls, n, alpha, limit=400000):
        n = strip_groups(n)
        for x in walk(n):
            if x[0] in ("look", "bol", "eol", "eos", "wordb"):
                raise RxError("zero-width construct inside a language body: %s" % x[0])
        nfa = NFA()
        s, t = nfa.new(), nfa.new()
        _build(nfa, n, alpha, s, t)
        # epsilon closures
        clos_cache = {}

        def closure(states):
            stack = list(states)
            seen = set(states)
            while stack:
                q = stack.pop()
                for r in nfa.eps[q]:
                    if r not in seen:
                        seen.add(r)
                        stack.append(r)
            return frozenset(seen)

        start = closure([s])
        index = {start: 0}
        order = [start]
        trans = []
        i = 0
        A = alpha.n
        while i < len(order):
            S = order[i]
            i += 1
            row = [None] * A
            moves = {}
            for q in S:
                for m, r in nfa.tr[q]:
                    moves.setdefault(m, set()).add(r)
            if moves:
                for a in range(A):
                    bit = 1 << a
                    tg = set()
                    for m, rs in moves.items():
                        if m & bit:
                            tg |= rs
                    if tg:
                        key = frozenset(tg)
                        T = clos_cache.get(key)
                        if T is None:
                            T = closure(tg)
                            clos_cache[key] = T
                        j = index.get(T)
                        if j is None:
                            j = len(order)
                            index[T] = j
                            order.append(T)
                            if j > limit:
                                raise RxError("DFA too large")
                        row[a] = j
            trans.append(row)
        acc = {j for S, j in index.items() if t in S}
        return cls(alpha, trans, 0, acc).trim()

    def trim(self):
        """Remove states that cannot reach acceptance (keeps determinism)."""
        n = len(self.trans)
        rev = [[] for _ in range(n)]
        for q, row in enumerate(self.trans):
            for r in row:
                if r is not None:
                    rev[r].append(q)
        live = set(self.acc)
        stack = list(self.acc)
        while stack:
            q = stack.pop()
            for r in rev[q]:
                if r not in live:
                    live.add(r)
                    stack.append(r)
        if self.start not in live:
            return DFA(self.alpha, [[None] * self.alpha.n], 0, set())
        remap = {}
        order = []
        stack = [self.start]
        remap[self.start] = 0
        order.append(self.start)
        while stack:
            q = stack.pop()
            for r in self.trans[q]:
                if r is not None and r in live and r not in remap:
                    remap[r] = len(order)
                    order.append(r)
                    stack.append(r)
        trans = []
        for q in order:
            trans.append([remap[r] if (r is not None and r in live) else None for r in self.trans[q]])
        return DFA(self.alpha, trans, 0, {remap[q] for q in self.acc if q in remap})

    def minimize(self):
        """Moore partition refinement on the (partial) DFA."""
        n = len(self.trans)
        A = self.alpha.n
        part = [1 if q in self.acc else 0 for q in range(n)]
        while True:
            sigs = {}
            newpart = [0] * n
            for q in range(n):
                sig = (part[q],) + tuple(part[r] if r is not None else -1 for r in self.trans[q])
                if sig not in sigs:
                    sigs[sig] = len(sigs)
                newpart[q] = sigs[sig]
            if len(sigs) == len(set(part)):
                part = newpart
                break
            part = newpart
        k = len(set(part))
        trans = [None] * k
        for q in range(n):
            b = part[q]
            if trans[b] is None:
                trans[b] = [part[r] if r is not None else None for r in self.trans[q]]
        d = DFA(self.alpha, trans, part[self.start], {part[q] for q in self.acc})
        return d.trim()

    # -- boolean operations ------------------------------------------------
    def _total(self):
        """Return (trans, sink) of a total version."""
        n = len(self.trans)
        sink = n
        trans = [[r if r is not None else sink for r in row] for row in self.trans]
        trans.append([sink] * self.alpha.n)
        return trans, sink

    def complement(self):
        trans, sink = self._total()
        acc = set(range(len(trans))) - self.acc
        return DFA(self.alpha, [list(r) for r in trans], self.start, acc).trim()

    def product(self, o, mode):
        if o.alpha is not self.alpha:
            raise RxError("product over different alphabets")
        A = self.alpha.n
        t1, s1 = self._total()
        t2, s2 = o._total()
        index = {(self.start, o.start): 0}
        order = [(self.start, o.start)]
        trans = []
        i = 0
        while i < len(order):
            p, q = order[i]
            i += 1
            row = [None] * A
            r1, r2 = t1[p], t2[q]
            for a in range(A):
                key = (r1[a], r2[a])
                j = index.get(key)
                if j is None:
                    j = len(order)
                    index[key] = j
                    order.append(key)
                row[a] = j
            trans.append(row)
        acc = set()
        for (p, q), j in index.items():
            x, y = p in self.acc, q in o.acc
            ok = (x and y) if mode == "and" else (x or y) if mode == "or" else (x and not y) if mode == "minus" else (x != y)
            if ok:
                acc.add(j)
        return DFA(self.alpha, trans, 0, acc).trim()

    def __and__(self, o):
        return self.product(o, "and")

    def __or__(self, o):
        return self.product(o, "or")

    def __sub__(self, o):
        return self.product(o, "minus")

    def __xor__(self, o):
        return self.product(o, "xor")

    def is_empty(self):
        return not self.acc

    def nstates(self):
        return len(self.trans)

    def used_alphabet(self):
        """Union of the atoms that label a transition of the trimmed DFA."""
        m = 0
        for row in self.trans:
            for a, r in enumerate(row):
                if r is not None:
                    m |= 1 << a
        return self.alpha.charset_of_mask(m)

    def shortest(self, k=1):
        """Up to k shortest accepted strings (BFS; one representative char per atom)."""
        from collections import deque

        if not self.acc:
            return []
        out = []
        dq = deque([(self.start, "")])
        seen_count = {}
        maxlen = None
        while dq and len(out) < k:
            q, w = dq.popleft()
            if maxlen is not None and len(w) > maxlen:
                break
            c = seen_count.get(q, 0)
            if c >= k:
                continue
            seen_count[q] = c + 1
            if q in self.acc:
                out.append(w)
                if maxlen is None:
                    maxlen = len(w) + 6
            for a, r in enumerate(self.trans[q]):
                if r is not None:
                    dq.append((r, w + self.alpha.atoms[a].sample()))
        return out

    def accepts(self, s):
        q = self.start
        for ch in s:
            a = None
            for i, at in enumerate(self.alpha.atoms):
                if ch in at:
                    a = i
                    break
            q = self.trans[q][a]
            if q is None:
                return False
        return q in self.acc

    def count_upto(self, n):
        """Number of accepted atom-strings of length <= n (coverage statistic)."""
        cur = {self.start: 1}
        total = 1 if self.start in self.acc else 0
        for _ in range(n):
            nxt = {}
            for q, c in cur.items():
                for r in self.trans[q]:
                    if r is not None:
                        nxt[r] = nxt.get(r, 0) + c
            cur = nxt
            total += sum(c for q, c in cur.items() if q in self.acc)
        return total


def languages(nodes, extra_sets=()):
    """Compile several ASTs over one common alphabet. Returns (alphabet, [DFA])."""
    alpha = Alphabet(collect_sets(*nodes) + list(extra_sets))
    return alpha, [DFA.from_ast(n, alpha) for n in nodes]


def dfa_node(d):
    return ("dfa", d)
