"""Source model: modules, imports, classes, functions of the netconan package.

Input is a *source provider*: a mapping  relative path -> text.  The default
provider reads /repo's working tree; self-tests hand in edited copies.
"""
import ast
import os

PKG = "netconan"


class AnalysisError(Exception):
    """The analyser could not do its job (anchor vanished, constant not foldable,
    source unparsable).  Never a pass, never a violation: exit status 2."""


def read_tree(root):
    """Return {relpath: text} for every .py file of the netconan package."""
    out = {}
    base = os.path.join(root, PKG)
    if not os.path.isdir(base):
        raise AnalysisError("package directory %s not found" % base)
    for d, dirs, files in os.walk(base):
        dirs[:] = sorted(x for x in dirs if x != "__pycache__")
        for f in sorted(files):
            if f.endswith(".py"):
                p = os.path.join(d, f)
                with open(p, encoding="utf-8") as fh:
                    out[os.path.relpath(p, root)] = fh.read()
    return out


def modname_of(relpath):
    p = relpath[:-3].replace(os.sep, "/").split("/")
    if p[-1] == "__init__":
        p = p[:-1]
    return ".".join(p)


class FunctionInfo:
    def __init__(self, qualname, node, module, cls=None):
        self.qualname = qualname  # e.g. netconan.ip_anonymization._BaseIpAnonymizer.anonymize
        self.node = node
        self.module = module
        self.cls = cls  # ClassInfo or None
        self.name = node.name
        self.decorators = []
        for d in node.decorator_list:
            if isinstance(d, ast.Name):
                self.decorators.append(d.id)
            elif isinstance(d, ast.Attribute):
                self.decorators.append(d.attr)
        a = node.args
        self.posonly = [x.arg for x in a.posonlyargs]
        self.params = [x.arg for x in a.posonlyargs + a.args]
        self.kwonly = [x.arg for x in a.kwonlyargs]
        self.vararg = a.vararg.arg if a.vararg else None
        self.kwarg = a.kwarg.arg if a.kwarg else None
        nd = len(a.defaults)
        self.defaults = {}
        for p, d in zip(self.params[len(self.params) - nd:], a.defaults):
            self.defaults[p] = d
        for p, d in zip(self.kwonly, a.kw_defaults):
            if d is not None:
                self.defaults[p] = d

    @property
    def is_classmethod(self):
        return "classmethod" in self.decorators

    @property
    def is_staticmethod(self):
        return "staticmethod" in self.decorators

    @property
    def is_abstract(self):
        return "abstractmethod" in self.decorators

    @property
    def where(self):
        return "%s:%d" % (self.module.relpath, self.node.lineno)

    def __repr__(self):
        return "<fn %s>" % self.qualname


class ClassInfo:
    def __init__(self, qualname, node, module):
        self.qualname = qualname
        self.name = node.name
        self.node = node
        self.module = module
        self.base_exprs = node.bases
        self.bases = []  # resolved ClassInfo list (package classes only)
        self.methods = {}  # name -> FunctionInfo
        self.assigns = {}  # class-level name -> ast expr

    def mro(self):
        out, seen = [], set()

        def go(c):
            if c.qualname in seen:
                return
            seen.add(c.qualname)
            out.append(c)
            for b in c.bases:
                go(b)

        go(self)
        return out

    def find_method(self, name):
        for c in self.mro():
            if name in c.methods:
                return c.methods[name]
        return None

    def find_assign(self, name):
        for c in self.mro():
            if name in c.assigns:
                return c, c.assigns[name]
        return None, None

    def __repr__(self):
        return "<class %s>" % self.qualname


class ModuleInfo:
    def __init__(self, name, relpath, text):
        self.name = name
        self.relpath = relpath
        self.text = text
        try:
            self.tree = ast.parse(text, filename=relpath)
        except SyntaxError as e:
            raise AnalysisError("cannot parse %s: %s" % (relpath, e))
        self.imports = {}  # local name -> ("module", dotted) | ("name", dotted_module, attr)
        self.assigns = {}  # module-level name -> list of ast expr (in order)
        self.functions = {}
        self.classes = {}
        self.is_pkg = relpath.endswith("__init__.py")

    def package(self):
        return self.name if self.is_pkg else self.name.rpartition(".")[0]


class Program:
    """All modules of the package with cross-module resolution."""

    def __init__(self, files):
        self.files = dict(files)
        self.modules = {}
        for rel, text in sorted(files.items()):
            m = ModuleInfo(modname_of(rel), rel, text)
            self.modules[m.name] = m
        self.functions = {}
        self.classes = {}
        for m in self.modules.values():
            self._index(m)
        for c in self.classes.values():
            for b in c.base_exprs:
                r = self.resolve_global_expr(c.module, b)
                if r and r[0] == "class":
                    c.bases.append(r[1])
        self.lambdas = {}  # id(node) -> (FunctionInfo owner, node)
        self.rename_map = {}  # current name -> reference (anchor) name
        self._detect_renames()

    @classmethod
    def from_root(cls, root):
        return cls(read_tree(root))

    # -- indexing ---------------------------------------------------------
    def _index(self, m):
        for st in m.tree.body:
            if isinstance(st, ast.Import):
                for a in st.names:
                    if a.asname:
                        m.imports[a.asname] = ("module", a.name)
                    else:
                        top = a.name.split(".")[0]
                        m.imports[top] = ("module", top)
            elif isinstance(st, ast.ImportFrom):
                if st.level:
                    base = m.package().split(".")
                    if st.level > 1:
                        base = base[: -(st.level - 1)]
                    mod = ".".join(base + ([st.module] if st.module else []))
                else:
                    mod = st.module
                for a in st.names:
                    m.imports[a.asname or a.name] = ("name", mod, a.name)
            elif isinstance(st, (ast.FunctionDef, ast.AsyncFunctionDef)):
                f = FunctionInfo(m.name + "." + st.name, st, m)
                m.functions[st.name] = f
                self.functions[f.qualname] = f
            elif isinstance(st, ast.ClassDef):
                c = ClassInfo(m.name + "." + st.name, st, m)
                m.classes[st.name] = c
                self.classes[c.qualname] = c
                for s2 in st.body:
                    if isinstance(s2, (ast.FunctionDef, ast.AsyncFunctionDef)):
                        f = FunctionInfo(c.qualname + "." + s2.name, s2, m, c)
                        c.methods[s2.name] = f
                        self.functions[f.qualname] = f
                    elif isinstance(s2, ast.Assign):
                        for t in s2.targets:
                            if isinstance(t, ast.Name):
                                c.assigns[t.id] = s2.value
                    elif isinstance(s2, ast.AnnAssign) and s2.value is not None:
                        if isinstance(s2.target, ast.Name):
                            c.assigns[s2.target.id] = s2.value
            elif isinstance(st, ast.Assign):
                for t in st.targets:
                    if isinstance(t, ast.Name):
                        m.assigns.setdefault(t.id, []).append(st.value)
            elif isinstance(st, ast.AnnAssign) and st.value is not None:
                if isinstance(st.target, ast.Name):
                    m.assigns.setdefault(st.target.id, []).append(st.value)

    # -- renamed / moved anchor functions ----------------------------------
    def _detect_renames(self):
        """An anchor function of the reference tree that is missing under its name but has a unique,
        sufficiently similar counterpart (same class, same arity, similar callee/attribute/constant
        features) is a rename: the counterpart is analysed under the reference name."""
        ref_path = os.path.join(os.path.dirname(os.path.dirname(os.path.abspath(__file__))), "reference", "anchors.json")
        try:
            import json
            with open(ref_path) as fh:
                ref = json.load(fh)["anchors"]
        except Exception:
            return
        ref_names = {(a["cls"], a["name"]) for a in ref}
        present = {(f.cls.name if f.cls else None, f.name) for f in self.functions.values()}
        missing = [a for a in ref if (a["cls"], a["name"]) not in present]
        if not missing:
            return
        all_ref_func_names = {a["name"] for a in ref}
        cands = [f for f in self.functions.values() if (f.cls.name if f.cls else None, f.name) not in ref_names and f.name not in all_ref_func_names]
        def sim(a, f):
            if (f.cls.name if f.cls else None) != a["cls"] or len(f.params) != a["nparams"]:
                return 0.0
            ff = set(_fingerprint(f))
            fr = set(a["features"])
            for nm in (f.name, a["name"]):
                for pre in ("", ".", "@"):
                    ff.discard(pre + nm)
                    fr.discard(pre + nm)
            # names of other renamed functions differ on both sides: compare the rest
            return len(ff & fr) / max(1, len(ff | fr))

        scores = [(sim(a, f), i, j) for i, a in enumerate(missing) for j, f in enumerate(cands)]
        scores = [x for x in scores if x[0] >= 0.5]
        scores.sort(key=lambda x: -x[0])
        used_a, used_f = set(), set()
        for sc, i, j in scores:
            if i in used_a or j in used_f:
                continue
            # mutual best: no other unassigned pair involving i or j scores (almost) as high
            rivals = [x for x in scores if (x[1] == i) != (x[2] == j) and x[1] not in used_a and x[2] not in used_f and sc - x[0] < 0.05]
            if rivals:
                continue
            used_a.add(i)
            used_f.add(j)
            self._apply_rename(cands[j], missing[i]["name"])

    def _apply_rename(self, f, old):
        new = f.name
        self.rename_map[new] = old
        oldq = f.qualname[: -len(new)] + old
        del self.functions[f.qualname]
        f.name = old
        f.qualname = oldq
        f.renamed_from = new
        self.functions[oldq] = f
        if f.cls is not None:
            f.cls.methods[old] = f
        else:
            f.module.functions[old] = f


    def resolve_module_name(self, m, name):
        """Resolve a module-level name used in module m.

        Returns one of
          ("func", FunctionInfo) ("class", ClassInfo) ("module", ModuleInfo)
          ("const", ModuleInfo, name)      module-level assignment in the package
          ("ext", dotted)                  something outside the package
          None                             unknown (builtin or undefined)
        """
        if name in m.functions:
            return ("func", m.functions[name])
        if name in m.classes:
            return ("class", m.classes[name])
        if name in m.assigns:
            return ("const", m, name)
        if name in m.imports:
            imp = m.imports[name]
            if imp[0] == "module":
                if imp[1] in self.modules:
                    return ("module", self.modules[imp[1]])
                return ("ext", imp[1])
            _, mod, attr = imp
            full = mod + "." + attr
            if full in self.modules:
                return ("module", self.modules[full])
            if mod in self.modules:
                return self.resolve_module_name(self.modules[mod], attr) or (
                    "ext",
                    full,
                )
            return ("ext", full)
        return None

    def resolve_global_expr(self, m, node):
        """Resolve Name / dotted Attribute at module level of m."""
        if isinstance(node, ast.Name):
            return self.resolve_module_name(m, node.id)
        if isinstance(node, ast.Attribute):
            base = self.resolve_global_expr(m, node.value)
            if base is None:
                return None
            return self.resolve_attr(base, node.attr)
        return None

    def resolve_attr(self, base, attr):
        if base[0] == "module":
            return self.resolve_module_name(base[1], attr) or None
        if base[0] == "ext":
            return ("ext", base[1] + "." + attr)
        if base[0] == "class":
            c = base[1]
            f = c.find_method(attr)
            if f:
                return ("func", f)
            owner, expr = c.find_assign(attr)
            if owner:
                return ("classconst", owner, attr)
            return None
        return None

    def function(self, qualname):
        f = self.functions.get(qualname)
        if f is None:
            raise AnalysisError("anchor function %s not found" % qualname)
        return f

    def find_function(self, suffix):
        """Find by trailing qualified name, e.g. '_BaseIpAnonymizer.anonymize'."""
        hits = [f for q, f in self.functions.items() if q == suffix or q.endswith("." + suffix)]
        if len(hits) != 1:
            raise AnalysisError(
                "anchor function %r: %d candidates (%s)" % (suffix, len(hits), [h.qualname for h in hits])
            )
        return hits[0]

    def maybe_function(self, suffix):
        hits = [f for q, f in self.functions.items() if q == suffix or q.endswith("." + suffix)]
        return hits[0] if len(hits) == 1 else None

    def find_class(self, name):
        hits = [c for q, c in self.classes.items() if q == name or q.endswith("." + name)]
        if len(hits) != 1:
            raise AnalysisError("anchor class %r: %d candidates" % (name, len(hits)))
        return hits[0]

    def subclasses(self, cls):
        return [c for c in self.classes.values() if c is not cls and cls in c.mro()]

    def all_functions(self):
        return list(self.functions.values())


def _fingerprint(f):
    names = set()
    for n in ast.walk(f.node):
        if isinstance(n, ast.Call):
            fn = n.func
            if isinstance(fn, ast.Name):
                names.add(fn.id)
            elif isinstance(fn, ast.Attribute):
                names.add("." + fn.attr)
        elif isinstance(n, ast.Attribute):
            names.add("@" + n.attr)
        elif isinstance(n, ast.Constant) and isinstance(n.value, str) and 3 <= len(n.value) <= 60:
            names.add("'" + n.value)
    return sorted(names)


def unparse(node):
    try:
        return ast.unparse(node)
    except Exception:
        return "<%s>" % type(node).__name__
