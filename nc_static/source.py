"""Source model: modules, imports, classes, functions of the netconan package.

Input is a *source provider*: a mapping  relative path -> text.  The default
provider reads /repo's working tree; self-tests hand in edited copies.
"""
import ast
import os

PKG = "netconan"


class AnalysisError(Exception):
    """The analyser could not do its job (anchor vanished, constant not foldable,
    source unparsable).  Never a pass, never a violation: exit status 2."""


class ShapeError(AnalysisError):
    """The anchors are all present but the construct does not have a shape any rule recognises (e.g. a
    constructor parameter that no longer reaches a field as itself).  An undischarged obligation: reported
    as a violation of the property being checked (exit 1), naming the construct."""

    def __init__(self, msg, where=None, construct=None):
        AnalysisError.__init__(self, msg)
        self.where = where
        self.construct = construct


def read_tree(root):
    """Return {relpath: text} for every .py file of the netconan package."""
    out = {}
    base = os.path.join(root, PKG)
    if not os.path.isdir(base):
        raise AnalysisError("package directory %s not found" % base)
    for d, dirs, files in os.walk(base):
        dirs[:] = sorted(x for x in dirs if x != "__pycache__")
        for f in sorted(files):
            if f.endswith(".py"):
                p = os.path.join(d, f)
                with open(p, encoding="utf-8") as fh:
                    out[os.path.relpath(p, root)] = fh.read()
    return out


def modname_of(relpath):
    p = relpath[:-3].replace(os.sep, "/").split("/")
    if p[-1] == "__init__":
        p = p[:-1]
    return ".".join(p)


GEN_ACC = "__gen_acc"


def _own_nodes(fn_node):
    """Nodes of a function body, not descending into nested functions / lambdas / classes."""
    todo = list(fn_node.body)
    while todo:
        n = todo.pop()
        yield n
        for c in ast.iter_child_nodes(n):
            if not isinstance(c, (ast.FunctionDef, ast.AsyncFunctionDef, ast.Lambda, ast.ClassDef)):
                todo.append(c)


def is_generator_def(fn_node):
    return any(isinstance(n, (ast.Yield, ast.YieldFrom)) for n in _own_nodes(fn_node))


class _YieldLowering(ast.NodeTransformer):
    """yield e -> __gen_acc.append(e); yield from x -> __gen_acc.extend(x); return -> return __gen_acc."""

    def __init__(self):
        self.ok = True

    def visit_FunctionDef(self, node):
        return node  # nested functions keep their own yields

    visit_AsyncFunctionDef = visit_Lambda = visit_ClassDef = visit_FunctionDef

    def _acc(self, method, value, at):
        call = ast.Call(func=ast.Attribute(value=ast.Name(id=GEN_ACC, ctx=ast.Load()), attr=method, ctx=ast.Load()), args=[value], keywords=[])
        st = ast.Expr(value=call)
        return ast.fix_missing_locations(ast.copy_location(st, at))

    def visit_Expr(self, node):
        v = node.value
        if isinstance(v, ast.Yield):
            return self._acc("append", v.value if v.value is not None else ast.Constant(value=None), node)
        if isinstance(v, ast.YieldFrom):
            return self._acc("extend", v.value, node)
        self.generic_visit(node)
        return node

    def visit_Yield(self, node):
        self.ok = False  # a yield used as an expression (x = yield ...): not lowered
        return node

    visit_YieldFrom = visit_Yield

    def visit_Return(self, node):
        if node.value is not None:
            self.ok = False
            return node
        return ast.fix_missing_locations(ast.copy_location(ast.Return(value=ast.Name(id=GEN_ACC, ctx=ast.Load())), node))


def lower_generator(fn_node):
    """A list-returning twin of a generator function (same elements, same order; evaluation is eager).
    Returns None when the generator uses yield as an expression or returns a value."""
    import copy
    new = copy.deepcopy(fn_node)
    tr = _YieldLowering()
    new.body = [tr.visit(st) for st in new.body]
    flat = []
    for st in new.body:
        flat.extend(st if isinstance(st, list) else [st])
    if not tr.ok:
        return None
    init = ast.Assign(targets=[ast.Name(id=GEN_ACC, ctx=ast.Store())], value=ast.List(elts=[], ctx=ast.Load()))
    fin = ast.Return(value=ast.Name(id=GEN_ACC, ctx=ast.Load()))
    at = fn_node.body[0] if fn_node.body else fn_node
    ast.fix_missing_locations(ast.copy_location(init, at))
    ast.fix_missing_locations(ast.copy_location(fin, fn_node.body[-1] if fn_node.body else fn_node))
    # keep a leading docstring first
    if flat and isinstance(flat[0], ast.Expr) and isinstance(flat[0].value, ast.Constant) and isinstance(flat[0].value.value, str):
        new.body = [flat[0], init] + flat[1:] + [fin]
    else:
        new.body = [init] + flat + [fin]
    return new


def lower_result_variable(fn_node):
    """for ...: ... x = E; break  /  return x      ==      for ...: ... return E  /  return x
    (a search loop that leaves through `break` with its result in a variable which is returned right after the loop).
    Returns a rewritten copy of the function, or None when the shape does not occur."""
    import copy
    changed = [False]

    def rewrite_block(blk, loop_ok_name):
        """Inside the body of the candidate loop (not descending into nested loops): `x = E; break` -> `return E`."""
        out = []
        i = 0
        while i < len(blk):
            st = blk[i]
            if (isinstance(st, ast.Assign) and len(st.targets) == 1 and isinstance(st.targets[0], ast.Name) and st.targets[0].id == loop_ok_name
                    and i + 1 < len(blk) and isinstance(blk[i + 1], ast.Break)):
                ret = ast.Return(value=st.value)
                out.append(ast.fix_missing_locations(ast.copy_location(ret, st)))
                changed[0] = True
                i += 2
                continue
            if isinstance(st, ast.If):
                st.body = rewrite_block(st.body, loop_ok_name)
                st.orelse = rewrite_block(st.orelse, loop_ok_name)
            elif isinstance(st, ast.With):
                st.body = rewrite_block(st.body, loop_ok_name)
            elif isinstance(st, ast.Try):
                pass  # a return inside try/finally is not the same as break: left alone
            out.append(st)
            i += 1
        return out

    def walk_blocks(blk):
        for i, st in enumerate(blk):
            if isinstance(st, (ast.For, ast.While)) and not st.orelse and i + 1 < len(blk) and isinstance(blk[i + 1], ast.Return) and isinstance(blk[i + 1].value, ast.Name):
                name = blk[i + 1].value.id
                # the variable must not be read inside the loop (it is only the result slot)
                reads = [n for n in ast.walk(st) if isinstance(n, ast.Name) and n.id == name and isinstance(n.ctx, ast.Load)]
                if not reads:
                    st.body = rewrite_block(st.body, name)
            for field in ("body", "orelse", "finalbody"):
                sub = getattr(st, field, None)
                if isinstance(sub, list) and sub and isinstance(sub[0], ast.stmt) and not isinstance(st, (ast.FunctionDef, ast.AsyncFunctionDef, ast.ClassDef)):
                    walk_blocks(sub)
            if isinstance(st, ast.Try):
                for h in st.handlers:
                    walk_blocks(h.body)
    new = copy.deepcopy(fn_node)
    walk_blocks(new.body)
    return new if changed[0] else None


class FunctionInfo:
    def __init__(self, qualname, node, module, cls=None):
        self.qualname = qualname  # e.g. netconan.ip_anonymization._BaseIpAnonymizer.anonymize
        low_rv = lower_result_variable(node)
        if low_rv is not None:
            node = low_rv
        # a generator function is analysed through its list-returning twin (the original is kept for loop fusion)
        self.gen_orig = None
        if is_generator_def(node):
            low = lower_generator(node)
            if low is not None:
                self.gen_orig = node
                node = low
        self.node = node
        self.module = module
        self.cls = cls  # ClassInfo or None
        self.name = node.name
        self.decorators = []
        for d in node.decorator_list:
            if isinstance(d, ast.Name):
                self.decorators.append(d.id)
            elif isinstance(d, ast.Attribute):
                self.decorators.append(d.attr)
        a = node.args
        self.posonly = [x.arg for x in a.posonlyargs]
        self.params = [x.arg for x in a.posonlyargs + a.args]
        self.kwonly = [x.arg for x in a.kwonlyargs]
        self.vararg = a.vararg.arg if a.vararg else None
        self.kwarg = a.kwarg.arg if a.kwarg else None
        nd = len(a.defaults)
        self.defaults = {}
        for p, d in zip(self.params[len(self.params) - nd:], a.defaults):
            self.defaults[p] = d
        for p, d in zip(self.kwonly, a.kw_defaults):
            if d is not None:
                self.defaults[p] = d

    @property
    def mparams(self):
        """Positional parameters with a receiver slot in front for every function defined in a class: a method turned into a
        @staticmethod keeps its parameter positions (index 0 = receiver, 1 = first real parameter)."""
        if self.cls is not None and "staticmethod" in self.decorators:
            return ["<static>"] + self.params
        return self.params

    @property
    def is_classmethod(self):
        return "classmethod" in self.decorators

    @property
    def is_staticmethod(self):
        return "staticmethod" in self.decorators

    @property
    def is_abstract(self):
        return "abstractmethod" in self.decorators

    @property
    def where(self):
        return "%s:%d" % (self.module.relpath, self.node.lineno)

    def __repr__(self):
        return "<fn %s>" % self.qualname


class ClassInfo:
    def __init__(self, qualname, node, module):
        self.qualname = qualname
        self.name = node.name
        self.node = node
        self.module = module
        self.base_exprs = node.bases
        self.bases = []  # resolved ClassInfo list (package classes only)
        self.methods = {}  # name -> FunctionInfo
        self.assigns = {}  # class-level name -> ast expr

    def mro(self):
        """C3 linearisation over the package classes (external bases contribute no analysable methods and are left out)."""
        memo = {}

        def lin(c, stack=()):
            if c.qualname in memo:
                return memo[c.qualname]
            if c.qualname in stack:
                return [c]
            seqs = [lin(b, stack + (c.qualname,))[:] for b in c.bases] + [list(c.bases)]
            out = [c]
            while any(seqs):
                seqs = [q for q in seqs if q]
                head = None
                for q in seqs:
                    cand = q[0]
                    if not any(cand in r[1:] for r in seqs):
                        head = cand
                        break
                if head is None:  # inconsistent hierarchy (Python would refuse it): fall back to depth-first order
                    head = seqs[0][0]
                out.append(head)
                seqs = [[x for x in q if x is not head] for q in seqs]
            memo[c.qualname] = out
            return out

        return lin(self)

    def find_method(self, name):
        for c in self.mro():
            if name in c.methods:
                return c.methods[name]
        return None

    def find_assign(self, name):
        for c in self.mro():
            if name in c.assigns:
                return c, c.assigns[name]
        return None, None

    def __repr__(self):
        return "<class %s>" % self.qualname


class _SuppressLowering(ast.NodeTransformer):
    """with contextlib.suppress(E1, E2): BODY   ->   try: BODY / except (E1, E2): pass   (what suppress does)."""

    def __init__(self, tree):
        self.names = set()  # local names bound to contextlib.suppress
        self.mods = set()  # local names bound to the contextlib module
        for st in ast.walk(tree):
            if isinstance(st, ast.ImportFrom) and st.module == "contextlib" and not st.level:
                for a in st.names:
                    if a.name == "suppress":
                        self.names.add(a.asname or a.name)
            elif isinstance(st, ast.Import):
                for a in st.names:
                    if a.name == "contextlib":
                        self.mods.add(a.asname or a.name)

    def _is_suppress(self, call):
        if not isinstance(call, ast.Call) or call.keywords:
            return False
        f = call.func
        if isinstance(f, ast.Name):
            return f.id in self.names
        return isinstance(f, ast.Attribute) and f.attr == "suppress" and isinstance(f.value, ast.Name) and f.value.id in self.mods

    def visit_With(self, node):
        self.generic_visit(node)
        if len(node.items) == 1 and node.items[0].optional_vars is None and self._is_suppress(node.items[0].context_expr):
            excs = node.items[0].context_expr.args
            if excs and not any(isinstance(a, ast.Starred) for a in excs):
                typ = excs[0] if len(excs) == 1 else ast.Tuple(elts=list(excs), ctx=ast.Load())
                h = ast.ExceptHandler(type=typ, name=None, body=[ast.copy_location(ast.Pass(), node)])
                tr = ast.Try(body=node.body, handlers=[h], orelse=[], finalbody=[])
                ast.copy_location(h, node)
                return ast.fix_missing_locations(ast.copy_location(tr, node))
        return node


class ModuleInfo:
    def __init__(self, name, relpath, text):
        self.name = name
        self.relpath = relpath
        self.text = text
        try:
            self.tree = ast.parse(text, filename=relpath)
        except SyntaxError as e:
            raise AnalysisError("cannot parse %s: %s" % (relpath, e))
        low = _SuppressLowering(self.tree)
        if low.names or low.mods:
            self.tree = low.visit(self.tree)
        self.imports = {}  # local name -> ("module", dotted) | ("name", dotted_module, attr)
        self.assigns = {}  # module-level name -> list of ast expr (in order)
        self.functions = {}
        self.classes = {}
        self.is_pkg = relpath.endswith("__init__.py")

    def package(self):
        return self.name if self.is_pkg else self.name.rpartition(".")[0]


class Program:
    """All modules of the package with cross-module resolution."""

    def __init__(self, files):
        self.files = dict(files)
        self.modules = {}
        for rel, text in sorted(files.items()):
            m = ModuleInfo(modname_of(rel), rel, text)
            self.modules[m.name] = m
        self.functions = {}
        self.classes = {}
        for m in self.modules.values():
            self._index(m)
        for c in self.classes.values():
            for b in c.base_exprs:
                r = self.resolve_global_expr(c.module, b)
                if r and r[0] == "class":
                    c.bases.append(r[1])
        self.namedtuples = {}  # (module name, type name) -> [field names]
        self._collect_namedtuples()
        self._collect_sentinels()
        self.lambdas = {}  # id(node) -> (FunctionInfo owner, node)
        self.rename_map = {}  # current name -> reference (anchor) name
        self._detect_renames()

    def _collect_namedtuples(self):
        """Record-like tuple types of the package: collections.namedtuple / typing.NamedTuple (functional or class form).
        A value of such a type is analysed as the plain tuple of its fields."""
        def ext(m, node):
            r = self.resolve_global_expr(m, node)
            return r[1] if r and r[0] == "ext" else None
        for m in self.modules.values():
            for name, values in m.assigns.items():
                if len(values) != 1 or not isinstance(values[0], ast.Call):
                    continue
                call = values[0]
                q = ext(m, call.func)
                if q not in ("collections.namedtuple", "typing.NamedTuple") or len(call.args) < 2:
                    continue
                spec = call.args[1]
                fields = None
                if isinstance(spec, ast.Constant) and isinstance(spec.value, str):
                    fields = spec.value.replace(",", " ").split()
                elif isinstance(spec, (ast.List, ast.Tuple)):
                    fields = []
                    for e in spec.elts:
                        if isinstance(e, ast.Constant) and isinstance(e.value, str):
                            fields.append(e.value)
                        elif isinstance(e, (ast.Tuple, ast.List)) and e.elts and isinstance(e.elts[0], ast.Constant) and isinstance(e.elts[0].value, str):
                            fields.append(e.elts[0].value)
                        else:
                            fields = None
                            break
                if fields:
                    self.namedtuples[(m.name, name)] = fields
            for c in m.classes.values():
                if any(ext(m, b) == "typing.NamedTuple" for b in c.base_exprs):
                    fields = [st.target.id for st in c.node.body if isinstance(st, ast.AnnAssign) and isinstance(st.target, ast.Name)]
                    if fields and not c.methods:
                        self.namedtuples[(m.name, c.name)] = fields
        self.nt_field_index = {}  # field name -> index when every record type having the field agrees on its position
        clash = set()
        for fields in self.namedtuples.values():
            for i, fname in enumerate(fields):
                if self.nt_field_index.setdefault(fname, i) != i:
                    clash.add(fname)
        for fname in clash:
            del self.nt_field_index[fname]
        # a field name that is also a method / attribute of a package class is not resolved by name alone
        for c in self.classes.values():
            for n in list(c.methods) + list(c.assigns):
                self.nt_field_index.pop(n, None)

    def _collect_sentinels(self):
        """Module-level `X = object()` markers that are only ever returned or compared by identity: such an object is
        identical to nothing but itself, and cannot be found inside a container or be produced by a computation."""
        self.sentinels = set()
        for m in self.modules.values():
            for name, values in m.assigns.items():
                if len(values) == 1 and isinstance(values[0], ast.Call) and isinstance(values[0].func, ast.Name) and values[0].func.id == "object" and not values[0].args and not values[0].keywords:
                    self.sentinels.add((m.name, name))
        if not self.sentinels:
            return
        for m in self.modules.values():
            parents = {}
            for n in ast.walk(m.tree):
                for c in ast.iter_child_nodes(n):
                    parents[id(c)] = n
            for n in ast.walk(m.tree):
                if isinstance(n, ast.Name) and isinstance(n.ctx, ast.Load):
                    r = self.resolve_module_name(m, n.id)
                    if r and r[0] == "const" and (r[1].name, r[2]) in self.sentinels:
                        par = parents.get(id(n))
                        ok = isinstance(par, ast.Return) or (isinstance(par, ast.Compare) and all(isinstance(o, (ast.Is, ast.IsNot)) for o in par.ops))
                        if not ok:
                            self.sentinels.discard((r[1].name, r[2]))

    def nt_return_fields(self, f):
        """Field list when every `return` of package function f builds one record type, else None."""
        from .source import _own_nodes as own
        found = None
        for n in own(f.node):
            if isinstance(n, ast.Return):
                v = n.value
                if not isinstance(v, ast.Call):
                    return None
                r = self.resolve_global_expr(f.module, v.func)
                key = None
                if r and r[0] == "const":
                    key = (r[1].name, r[2])
                elif r and r[0] == "class":
                    key = (r[1].module.name, r[1].name)
                if key not in self.namedtuples:
                    return None
                if found is not None and found != key:
                    return None
                found = key
        return self.namedtuples[found] if found else None

    @classmethod
    def from_root(cls, root):
        return cls(read_tree(root))

    # -- indexing ---------------------------------------------------------
    def _index(self, m):
        for st in m.tree.body:
            if isinstance(st, ast.Import):
                for a in st.names:
                    if a.asname:
                        m.imports[a.asname] = ("module", a.name)
                    else:
                        top = a.name.split(".")[0]
                        m.imports[top] = ("module", top)
            elif isinstance(st, ast.ImportFrom):
                if st.level:
                    base = m.package().split(".")
                    if st.level > 1:
                        base = base[: -(st.level - 1)]
                    mod = ".".join(base + ([st.module] if st.module else []))
                else:
                    mod = st.module
                for a in st.names:
                    m.imports[a.asname or a.name] = ("name", mod, a.name)
            elif isinstance(st, (ast.FunctionDef, ast.AsyncFunctionDef)):
                f = FunctionInfo(m.name + "." + st.name, st, m)
                m.functions[st.name] = f
                self.functions[f.qualname] = f
            elif isinstance(st, ast.ClassDef):
                c = ClassInfo(m.name + "." + st.name, st, m)
                m.classes[st.name] = c
                self.classes[c.qualname] = c
                for s2 in st.body:
                    if isinstance(s2, (ast.FunctionDef, ast.AsyncFunctionDef)):
                        f = FunctionInfo(c.qualname + "." + s2.name, s2, m, c)
                        c.methods[s2.name] = f
                        self.functions[f.qualname] = f
                    elif isinstance(s2, ast.Assign):
                        for t in s2.targets:
                            if isinstance(t, ast.Name):
                                c.assigns[t.id] = s2.value
                    elif isinstance(s2, ast.AnnAssign) and s2.value is not None:
                        if isinstance(s2.target, ast.Name):
                            c.assigns[s2.target.id] = s2.value
            elif isinstance(st, ast.Assign):
                for t in st.targets:
                    if isinstance(t, ast.Name):
                        m.assigns.setdefault(t.id, []).append(st.value)
            elif isinstance(st, ast.AnnAssign) and st.value is not None:
                if isinstance(st.target, ast.Name):
                    m.assigns.setdefault(st.target.id, []).append(st.value)

    # -- renamed / moved anchor functions ----------------------------------
    def _detect_renames(self):
        """An anchor function of the reference tree that is missing under its name but has a unique,
        sufficiently similar counterpart (same class, same arity, similar callee/attribute/constant
        features) is a rename: the counterpart is analysed under the reference name."""
        ref_path = os.path.join(os.path.dirname(os.path.dirname(os.path.abspath(__file__))), "reference", "anchors.json")
        try:
            import json
            with open(ref_path) as fh:
                ref = json.load(fh)["anchors"]
        except Exception:
            return
        ref_names = {(a["cls"], a["name"]) for a in ref}
        present = {(f.cls.name if f.cls else None, f.name) for f in self.functions.values()}
        missing = [a for a in ref if (a["cls"], a["name"]) not in present]
        if not missing:
            return
        all_ref_func_names = {a["name"] for a in ref}
        cands = [f for f in self.functions.values() if (f.cls.name if f.cls else None, f.name) not in ref_names and f.name not in all_ref_func_names]
        def old_name_still_bound(a, f):
            # a rename leaves the old name unbound; when the old name is still bound (assigned, imported, a class attribute)
            # the code that uses it gets that object, not the look-alike function
            if f.cls is not None:
                return a["name"] in f.cls.assigns
            m = f.module
            return a["name"] in m.assigns or a["name"] in m.imports or a["name"] in m.classes

        def sim(a, f):
            if (f.cls.name if f.cls else None) != a["cls"] or len(f.params) != a["nparams"]:
                return 0.0
            if old_name_still_bound(a, f):
                return 0.0
            ff = set(_fingerprint(f))
            fr = set(a["features"])
            for nm in (f.name, a["name"]):
                for pre in ("", ".", "@"):
                    ff.discard(pre + nm)
                    fr.discard(pre + nm)
            # names of other renamed functions differ on both sides: compare the rest
            return len(ff & fr) / max(1, len(ff | fr))

        scores = [(sim(a, f), i, j) for i, a in enumerate(missing) for j, f in enumerate(cands)]
        scores = [x for x in scores if x[0] >= 0.5]
        scores.sort(key=lambda x: -x[0])
        used_a, used_f = set(), set()
        for sc, i, j in scores:
            if i in used_a or j in used_f:
                continue
            # mutual best: no other unassigned pair involving i or j scores (almost) as high
            rivals = [x for x in scores if (x[1] == i) != (x[2] == j) and x[1] not in used_a and x[2] not in used_f and sc - x[0] < 0.05]
            if rivals:
                continue
            used_a.add(i)
            used_f.add(j)
            self._apply_rename(cands[j], missing[i]["name"])

    def _apply_rename(self, f, old):
        new = f.name
        self.rename_map[new] = old
        oldq = f.qualname[: -len(new)] + old
        del self.functions[f.qualname]
        f.name = old
        f.qualname = oldq
        f.renamed_from = new
        self.functions[oldq] = f
        if f.cls is not None:
            f.cls.methods[old] = f
        else:
            f.module.functions[old] = f


    def resolve_module_name(self, m, name):
        """Resolve a module-level name used in module m.

        Returns one of
          ("func", FunctionInfo) ("class", ClassInfo) ("module", ModuleInfo)
          ("const", ModuleInfo, name)      module-level assignment in the package
          ("ext", dotted)                  something outside the package
          None                             unknown (builtin or undefined)
        """
        if name in m.functions:
            return ("func", m.functions[name])
        if name in m.classes:
            return ("class", m.classes[name])
        if name in m.assigns:
            return ("const", m, name)
        if name in m.imports:
            imp = m.imports[name]
            if imp[0] == "module":
                if imp[1] in self.modules:
                    return ("module", self.modules[imp[1]])
                return ("ext", imp[1])
            _, mod, attr = imp
            full = mod + "." + attr
            if full in self.modules:
                return ("module", self.modules[full])
            if mod in self.modules:
                return self.resolve_module_name(self.modules[mod], attr) or (
                    "ext",
                    full,
                )
            return ("ext", full)
        return None

    def resolve_global_expr(self, m, node):
        """Resolve Name / dotted Attribute at module level of m."""
        if isinstance(node, ast.Name):
            return self.resolve_module_name(m, node.id)
        if isinstance(node, ast.Attribute):
            base = self.resolve_global_expr(m, node.value)
            if base is None:
                return None
            return self.resolve_attr(base, node.attr)
        return None

    def resolve_attr(self, base, attr):
        if base[0] == "module":
            return self.resolve_module_name(base[1], attr) or None
        if base[0] == "ext":
            return ("ext", base[1] + "." + attr)
        if base[0] == "class":
            c = base[1]
            f = c.find_method(attr)
            if f:
                return ("func", f)
            owner, expr = c.find_assign(attr)
            if owner:
                return ("classconst", owner, attr)
            return None
        return None

    def function(self, qualname):
        f = self.functions.get(qualname)
        if f is None:
            raise AnalysisError("anchor function %s not found" % qualname)
        return f

    def find_function(self, suffix):
        """Find by trailing qualified name, e.g. '_BaseIpAnonymizer.anonymize'."""
        hits = [f for q, f in self.functions.items() if q == suffix or q.endswith("." + suffix)]
        if len(hits) != 1:
            # the clauses anchored in this function cannot be discharged: reported as a violation naming the anchor (a renamed function with a
            # recognisable body was already mapped back by _detect_renames)
            raise ShapeError(
                "anchor function %r: %d candidates (%s); the clauses anchored in it cannot be discharged" % (suffix, len(hits), [h.qualname for h in hits]),
                None, "anchor:%s" % suffix)
        return hits[0]

    def maybe_function(self, suffix):
        hits = [f for q, f in self.functions.items() if q == suffix or q.endswith("." + suffix)]
        return hits[0] if len(hits) == 1 else None

    def find_class(self, name):
        hits = [c for q, c in self.classes.items() if q == name or q.endswith("." + name)]
        if len(hits) != 1:
            raise ShapeError("anchor class %r: %d candidates; the clauses anchored in it cannot be discharged" % (name, len(hits)), None, "anchor:%s" % name)
        return hits[0]

    def subclasses(self, cls):
        return [c for c in self.classes.values() if c is not cls and cls in c.mro()]

    def all_functions(self):
        return list(self.functions.values())


def _fingerprint(f):
    names = set()
    for n in ast.walk(f.node):
        if isinstance(n, ast.Call):
            fn = n.func
            if isinstance(fn, ast.Name):
                names.add(fn.id)
            elif isinstance(fn, ast.Attribute):
                names.add("." + fn.attr)
        elif isinstance(n, ast.Attribute):
            names.add("@" + n.attr)
        elif isinstance(n, ast.Constant) and isinstance(n.value, str) and 3 <= len(n.value) <= 60:
            names.add("'" + n.value)
        elif isinstance(n, ast.Constant) and isinstance(n.value, int) and not isinstance(n.value, bool) and abs(n.value) > 1:
            names.add("#%d" % n.value)  # numeric constants other than 0 / 1 / -1 (bit masks, widths, bounds)
        elif isinstance(n, (ast.BinOp, ast.UnaryOp, ast.BoolOp)):
            names.add("op:" + type(n.op).__name__)
        elif isinstance(n, ast.Compare):
            for o in n.ops:
                names.add("op:" + type(o).__name__)
        elif isinstance(n, (ast.For, ast.While, ast.If, ast.Try, ast.With, ast.Return, ast.Raise, ast.Subscript, ast.Slice, ast.ListComp, ast.GeneratorExp, ast.DictComp, ast.Tuple)):
            names.add("k:" + type(n).__name__)  # the kinds of construct the body is made of (arithmetic-only helpers have nothing else to go by)
    return sorted(names)


def unparse(node):
    try:
        return ast.unparse(node)
    except Exception:
        return "<%s>" % type(node).__name__
