"""Predicates over value terms (idioms accepted by the rules)."""
from .flow import subterms, strip_mut, show

MINUS1 = (("unop", "-", ("const", 1)), ("const", -1))


def is_const(t, v=None):
    return isinstance(t, tuple) and t[0] == "const" and (v is None or (t[1] == v and type(t[1]) is type(v)))


def is_call(t):
    return isinstance(t, tuple) and t and t[0] == "call"


def callee_name(t):
    """Last component of a call's callee ('int', 'format', '_anonymize_bits' ...)."""
    if not is_call(t):
        return None
    f = t[1]
    if f[0] == "attr":
        return f[2]
    if f[0] in ("builtin", "param", "bound"):
        return f[1]
    if f[0] == "global":
        return f[2]
    return None


def call_recv(t):
    f = t[1]
    return f[1] if f[0] == "attr" else None


def builtin_call(t, name, nargs=None):
    return is_call(t) and t[1] == ("builtin", name) and (nargs is None or len(t[2]) == nargs)


def unwrap(t, names=("str", "int")):
    """Strip str()/int() wrappers with a single positional argument."""
    while is_call(t) and t[1][0] == "builtin" and t[1][1] in names and len(t[2]) == 1 and not t[3]:
        t = t[2][0]
    return t


def drop_last(t):
    """If t is X[:-1] return X."""
    if t[0] == "sub" and isinstance(t[2], tuple) and t[2][0] == "slice":
        lo, hi, st = t[2][1], t[2][2], t[2][3]
        if (lo is None or is_const(lo, 0)) and hi in MINUS1 and st is None:
            return t[1]
    return None


def last_elem(t):
    """If t is X[-1] return X."""
    if t[0] == "sub" and t[2] in MINUS1:
        return t[1]
    return None


def last_char_int(t, base):
    """t is int(base[-1]) (or base[-1] == '1' style) -> True"""
    u = t
    if builtin_call(u, "int", 1) and not u[3]:
        return last_elem(u[2][0]) == base
    return False


def xor_operands(t):
    """If t is an xor-like combination of two one-bit values return (a, b).

    Accepted idioms: a ^ b, a != b, (a + b) % 2, (a - b) % 2, abs(a - b), and
    int()/str()/bool() wrappers around them."""
    u = unwrap(t, ("str", "int", "bool", "abs"))
    if u[0] == "binop" and u[1] == "^":
        return u[2], u[3]
    if u[0] == "compare" and u[1] == ("!=",) and len(u[2]) == 2:
        return u[2][0], u[2][1]
    if u[0] == "binop" and u[1] == "%" and is_const(u[3], 2):
        v = u[2]
        if v[0] == "binop" and v[1] in ("+", "-"):
            return v[2], v[3]
    if u[0] == "binop" and u[1] == "-" and t != u and callee_name(t) == "abs":
        return u[2], u[3]
    return None


def concat_parts(t):
    """Flatten a + b + c into [a, b, c]; "".join([a, b, c]) / "".join((a, b, c)) is the same concatenation."""
    if t[0] == "binop" and t[1] == "+":
        return concat_parts(t[2]) + concat_parts(t[3])
    if is_call(t) and t[1][0] == "attr" and t[1][2] == "join" and t[1][1] == ("const", "") and len(t[2]) == 1 and not t[3] and t[2][0][0] in ("list", "tuple") and not any(x[0] == "star" for x in t[2][0][1]):
        out = []
        for x in t[2][0][1]:
            out += concat_parts(x)
        return out
    return [t]


def text_parts(t):
    """A text expression as a sequence of literal pieces and embedded values, whichever way it is assembled
    (f-string / format / %, + concatenation, "".join of a display).  None when a field carries a conversion or format spec."""
    out = []

    def add(x):
        if x[0] == "const" and isinstance(x[1], str):
            if out and out[-1][0] == "const":
                out[-1] = ("const", out[-1][1] + x[1])
            elif x[1]:
                out.append(x)
            return True
        if x[0] == "fstr":
            for y in x[1]:
                if y[0] == "const":
                    add(("const", str(y[1])))
                elif y[0] == "fmt" and y[2] is None and y[3] is None:
                    if not add_val(y[1]):
                        return False
                else:
                    return False
            return True
        return add_val(x)

    def add_val(x):
        if x[0] in ("const", "fstr") or (x[0] == "binop" and x[1] == "+") or (is_call(x) and x[1][0] == "attr" and x[1][2] == "join" and x[1][1] == ("const", "")):
            ps = concat_parts(x)
            if len(ps) > 1 or ps[0] is not x:
                return all(add(p_) for p_ in ps)
            if x[0] in ("const", "fstr"):
                return add(x) if x[0] == "fstr" or isinstance(x[1], str) else (out.append(x) or True)
        out.append(x)
        return True
    ok = all(add(p_) for p_ in concat_parts(t))
    return out if ok else None


def slice_of(t):
    """If t is X[lo:hi] return (X, lo, hi) (step must be absent)."""
    if t[0] == "sub" and isinstance(t[2], tuple) and t[2] and t[2][0] == "slice" and t[2][3] is None:
        return t[1], t[2][1], t[2][2]
    return None


def neg_of(t):
    """If t is -X return X."""
    if t[0] == "unop" and t[1] == "-":
        return t[2]
    return None


def depends_on(t, leaf):
    return any(s == leaf for s in subterms(t))


def find_calls(t, pred):
    return [s for s in subterms(t) if s[0] == "call" and pred(s)]


def cond_polarity(conds, pred):
    """Search path conditions for one matching pred(term); returns polarity or None."""
    for t, pol, _ in conds:
        if pred(t):
            return pol
    return None


def nonzero_guard(conds, s):
    """Do the path conditions imply s != 0 (for a non-negative count s)?"""
    for t, pol, _ in conds:
        if t == s and pol:
            return True
        if t[0] == "unop" and t[1] == "not" and t[2] == s and not pol:
            return True
        if t[0] == "compare" and len(t[2]) == 2:
            a, b = t[2]
            op = t[1][0]
            if a == s and is_const(b, 0):
                if (op == "==" and not pol) or (op == "!=" and pol) or (op == ">" and pol) or (op == "<=" and not pol):
                    return True
            if b == s and is_const(a, 0):
                if (op == "==" and not pol) or (op == "!=" and pol) or (op == "<" and pol) or (op == ">=" and not pol):
                    return True
            if a == s and is_const(b, 1) and ((op == ">=" and pol) or (op == "<" and not pol)):
                return True
    return False


def zero_guard(conds, s):
    """Do the path conditions imply s == 0?"""
    for t, pol, _ in conds:
        if t == s and not pol:
            return True
        if t[0] == "unop" and t[1] == "not" and t[2] == s and pol:
            return True
        if t[0] == "compare" and len(t[2]) == 2:
            a, b = t[2]
            op = t[1][0]
            if (a == s and is_const(b, 0)) or (b == s and is_const(a, 0)):
                if (op == "==" and pol) or (op == "!=" and not pol):
                    return True
            if a == s and is_const(b, 0) and ((op == ">" and not pol) or (op == "<=" and pol)):
                return True
            if a == s and is_const(b, 1) and ((op == "<" and pol) or (op == ">=" and not pol)):
                return True
    return False


def is_none_test(t, x):
    """t is `x is None` -> True ; `x is not None` -> False ; else None"""
    if t[0] == "compare" and len(t[2]) == 2 and t[2][0] == x and is_const(t[2][1]) and t[2][1][1] is None:
        if t[1] == ("is",) or t[1] == ("==",):
            return True
        if t[1] == ("is not",) or t[1] == ("!=",):
            return False
    return None


def norm_sub(t):
    """Normalise a `<pattern>.sub(...)` call term: (receiver, repl, string, count) or None.
    Accepts positional and keyword spellings (repl=, string=, count=)."""
    if not (is_call(t) and t[1][0] == "attr" and t[1][2] == "sub"):
        return None
    pos = list(t[2])
    kw = dict(t[3])
    names = ["repl", "string", "count"]
    vals = {}
    for n, v in zip(names, pos):
        vals[n] = v
    for k, v in kw.items():
        if k not in names or k in vals:
            return None
        vals[k] = v
    if len(pos) > 3 or "repl" not in vals or "string" not in vals:
        return None
    return t[1][1], vals["repl"], vals["string"], vals.get("count")


def group0(t, m):
    """t is m.group(0) or m.group() or m[0]"""
    return t in (("call", ("attr", m, "group"), (("const", 0),), ()), ("call", ("attr", m, "group"), (), ()), ("sub", m, ("const", 0)))


def as_format(t):
    """If t is a formatted-string term (f-string, str.format or % — all normalised to ("fstr", parts))
    return (template with {} placeholders, [argument terms]); None if a field has a conversion or spec."""
    if isinstance(t, tuple) and t and t[0] == "binop" and t[1] == "+":
        # "(" + x + ")": concatenation with text constants is the same template as "({})".format(x)
        leaves = []

        def flat(u):
            if u[0] == "binop" and u[1] == "+":
                flat(u[2])
                flat(u[3])
            else:
                leaves.append(u)
        flat(t)
        if any(x[0] == "const" and isinstance(x[1], str) for x in leaves) and not any(x[0] == "const" and not isinstance(x[1], str) for x in leaves):
            tmpl, args = "", []
            for x in leaves:
                if x[0] == "const":
                    tmpl += x[1].replace("{", "{{").replace("}", "}}")
                elif x[0] == "fstr":
                    sub_ = as_format(x)
                    if sub_ is None:
                        return None
                    tmpl += sub_[0]
                    args.extend(sub_[1])
                else:
                    tmpl += "{}"
                    args.append(x)
            return tmpl, args
        return None
    if not (isinstance(t, tuple) and t and t[0] == "fstr"):
        return None
    tmpl, args = "", []
    for x in t[1]:
        if x[0] == "const":
            tmpl += str(x[1]).replace("{", "{{").replace("}", "}}")
        elif x[0] == "fmt" and x[2] is None and x[3] is None:
            tmpl += "{}"
            args.append(x[1])
        else:
            return None
    return tmpl, args


def fstr(*parts):
    """Build the canonical formatted-string term: str parts are literals, tuples are plain {} fields."""
    out = []
    for x in parts:
        if isinstance(x, str):
            if x:
                out.append(("const", x))
        else:
            out.append(("fmt", x, None, None))
    return ("fstr", tuple(out))
