"""C12 (line structure), C15 (feature composition), C16 (files), C19 (command line)."""
import ast

from .flow import show, subterms, strip_mut, walk_effects
from .source import AnalysisError
from .fold import Unfoldable
from .calls import bind_args
from . import match as M
from .secret_flow import W
from .checks_rx import stage_order

SELF = ("param", "self")
STAGE_FIELDS = {"pwd": ("compiled_regexes", "pwd_lookup"), "ip6": ("anonymizer6",), "ip4": ("anonymizer4",), "word": ("anonymizer_sensitive_word",), "as": ("anonymizer_as_num",)}
STAGE_ORDER = ["pwd", "ip6", "ip4", "word", "as"]


class IoModel:
    """anonymize_io: the line loop and, per body path, the chain of stage calls up to the write."""

    def __init__(self, ctx):
        p, A = ctx.p, ctx.A
        self.ctx = ctx
        self.fn = fn = p.find_function("FileAnonymizer.anonymize_io")
        if len(fn.params) < 3:
            raise AnalysisError("anonymize_io signature changed")
        self.inp, self.outp = ("param", fn.mparams[1]), ("param", fn.mparams[2])
        self.fp = A.paths(fn)
        self.loops = []
        for path in self.fp.paths:
            for e in path.effects:
                if e.kind == "loop":
                    self.loops.append((path, e.a))

    def classify_call(self, t):
        nm = M.callee_name(t)
        if nm == "replace_matching_item":
            return "pwd"
        if nm == "anonymize_ip_addr":
            a0 = show(t[2][0]) if t[2] else ""
            return "ip6" if a0.endswith("anonymizer6") else "ip4" if a0.endswith("anonymizer4") else "ip?"
        if nm == "anonymize_as_numbers":
            return "as"
        if nm == "anonymize" and t[1][0] == "attr" and t[1][1] == ("attr", SELF, "anonymizer_sensitive_word"):
            return "word"
        return None

    def line_arg(self, stage, t):
        p = self.ctx.p
        if stage == "pwd":
            b = bind_args(t, p.find_function("replace_matching_item")) or {}
            return b.get("input_line")
        if stage in ("ip6", "ip4", "ip?"):
            b = bind_args(t, p.find_function("anonymize_ip_addr")) or {}
            return b.get("line")
        if stage == "as":
            b = bind_args(t, p.find_function("anonymize_as_numbers")) or {}
            return b.get("line")
        if stage == "word":
            return t[2][0] if t[2] else None
        return None

    def chain(self, term, linevar):
        """Peel stage calls off `term` down to the loop variable: returns (stages outermost-last, ok)."""
        stages = []
        cur = term
        for _ in range(12):
            if cur == linevar:
                return list(reversed(stages)), True
            st = self.classify_call(cur) if M.is_call(cur) else None
            if st is None:
                return list(reversed(stages)), False
            stages.append((st, cur))
            cur = self.line_arg(st, cur)
            if cur is None:
                return list(reversed(stages)), False
        return list(reversed(stages)), False


def enabled_stages(path):
    """Which stage objects do the path conditions say are present (field is not None)?"""
    on = {}
    for t, pol in path.atoms():
        terms = [t]
        if t[0] == "boolop" and t[1] == "and" and pol:
            terms = list(t[2])
        for x in terms:
            if x[0] == "compare" and x[1] == ("is",) and x[2][1] == ("const", None) and x[2][0][0] == "attr" and x[2][0][1] == SELF:
                on[x[2][0][2]] = not pol if x is t else None
            if x[0] == "compare" and x[1] == ("is not",) and x[2][1] == ("const", None) and x[2][0][0] == "attr" and x[2][0][1] == SELF:
                on[x[2][0][2]] = True
    # and-conditions taken false: undecided which conjunct failed
    return on


MUTATORS_ALL = {"update", "add", "discard", "remove", "difference_update", "intersection_update", "symmetric_difference_update", "clear", "pop", "__ior__", "__iand__", "__isub__", "__ixor__"}


def _stage_field_invariant(ctx):
    """Combinations of present / absent stage objects the constructor can produce ({field: bool}), or None when a stage field is also
    written outside the constructor (then there is no invariant to rely on)."""
    cache = ctx.__dict__.setdefault("_stage_inv", {})
    if "v" in cache:
        return cache["v"]
    p, A = ctx.p, ctx.A
    f_fa = p.find_function("FileAnonymizer.__init__")
    fields = [f_ for fs in STAGE_FIELDS.values() for f_ in fs]
    out = None
    ok = True
    for f in p.all_functions():
        if f is f_fa or f.qualname in ctx.helpers:
            continue
        for e, ls, path in A.paths(f).all_effects():
            if e.kind == "store_attr" and e.b in fields:
                ok = False  # written somewhere else (another method, or from outside through an object reference): no invariant to rely on
    if ok:
        out = []
        for path in A.paths(f_fa).paths:
            if path.kind == "raise" or not path.feasible():
                continue
            combo = {}
            for e, ls in path.stores():
                if e.kind == "store_attr" and e.a == SELF and e.b in fields:
                    combo[e.b] = e.c != ("const", None)
            if set(combo) == set(fields) and combo not in out:
                out.append(combo)
        if not out:
            out = None
    cache["v"] = out
    return out


def _eval_stage_atom(t, combo):
    """Truth of a condition over the stage fields under one combination of present objects; None when it mentions anything else."""
    if t[0] == "compare" and len(t[2]) == 2 and t[2][1] == ("const", None) and t[2][0][0] == "attr" and t[2][0][1] == SELF and t[2][0][2] in combo:
        if t[1] == ("is",):
            return not combo[t[2][0][2]]
        if t[1] == ("is not",):
            return combo[t[2][0][2]]
        return None
    if t[0] == "attr" and t[1] == SELF and t[2] in combo:
        return combo[t[2]]  # truthiness of a stage object (package instances are truthy; {} for the lookup is not: left undecided)
    if t[0] == "unop" and t[1] == "not":
        v = _eval_stage_atom(t[2], combo)
        return None if v is None else not v
    if t[0] == "boolop":
        vs = [_eval_stage_atom(x, combo) for x in t[2]]
        if t[1] == "and":
            return False if any(v is False for v in vs) else (True if all(v is True for v in vs) else None)
        return True if any(v is True for v in vs) else (False if all(v is False for v in vs) else None)
    return None


def stage_guard_rules(rep, cl, io, li, f_io):
    """Each stage runs exactly when its own object is present (objects created under the same option count as one)."""
    joint = _stage_field_invariant(io.ctx)
    for bp in li.body_paths:
        if not bp.feasible() or bp.result is not None:
            continue
        on = enabled_stages(bp)
        if joint is not None:
            # the combinations of stage objects the constructor can produce that agree with every decision taken on this path
            cons = [combo for combo in joint if all(_eval_stage_atom(t, combo) in (None, pol) for t, pol in bp.atoms())]
            if not cons:
                continue  # excluded by the class invariant (e.g. patterns present without the lookup)
            on = dict(on)
            for f_ in cons[0]:
                vs = {combo[f_] for combo in cons}
                if len(vs) == 1 and on.get(f_) is None and any(f_ in show(t) for t, pol in bp.atoms()):
                    on[f_] = next(iter(vs))  # decided through a compound test (`a is not None or b is not None`) plus the invariant
        called = {}
        for e in bp.effects:
            if e.kind == "call":
                st = io.classify_call(e.a)
                if st:
                    called[st] = e
        for st, fields in STAGE_FIELDS.items():
            vals = [on.get(f) for f in fields]
            if st in called:
                # the stage runs: its own object (or one created under exactly the same option, e.g. the other address family) was found present
                for f_ in fields:
                    same_opt = [g_ for g_, opts_ in STAGE_OPTIONS.items() if opts_ == STAGE_OPTIONS.get(f_)]
                    tested = any(on.get(g_) is True for g_ in same_opt)
                    rep.ob(cl + ".stage-guard", st, tested, "stage %s runs on a path that never found its own object self.%s present (%s): another feature's object decides, and the call can receive None" % (st, f_, bp.describe()[:120]), W(f_io),
                           key="%s.stage-guard|%s" % (cl, st), nontrivial=False)
            if st not in called:
                # the stage is skipped: impossible when its own object (and everything created under the same option) is present
                assume = {}
                for f_ in fields:
                    for g_, opts_ in STAGE_OPTIONS.items():
                        if opts_ == STAGE_OPTIONS.get(f_):
                            assume[("compare", ("is",), (("attr", SELF, g_), ("const", None)))] = False
                            if g_.startswith("anonymizer"):
                                assume[("attr", SELF, g_)] = True  # an instance of a package class is truthy (no __bool__ / __len__: model-integrity)
                skipped_anyway = bp.possible(assume) is not False
                rep.ob(cl + ".stage-guard", st, not skipped_anyway, "stage %s can be skipped although its own object is present (%s): some other feature's state decides whether it runs" % (st, bp.describe()[:140]), W(f_io),
                       key="%s.stage-guard|%s" % (cl, st), nontrivial=False)
            if any(v is False for v in vals):
                ok = st not in called
                rep.ob(cl + ".stage-guard", st, ok, "stage %s runs although its own object is None (%s)" % (st, bp.describe()[:100]), W(f_io), key="%s.stage-guard|%s" % (cl, st), nontrivial=False)
            elif all(v is True for v in vals):
                ok = st in called
                rep.ob(cl + ".stage-guard", st, ok, "stage %s is skipped although its own object is present — some other feature's state decides (%s)" % (st, bp.describe()[:140]), W(f_io), key="%s.stage-guard|%s" % (cl, st), nontrivial=False)


def line_loop_rules(ctx, rep, cl, require_readlines=False):
    io = IoModel(ctx)
    fn = io.fn
    rep.analysed(fn)
    A = ctx.A
    # several paths are fine when they are the same line loop followed by branches that only decide about DEBUG messages
    same_loop = (len(io.loops) == len(io.fp.paths) >= 1 and len({id(li_.node) for _, li_ in io.loops}) == 1
                 and all(sum(1 for e_ in pth_.effects if e_.kind == "loop") == 1 for pth_ in io.fp.paths)
                 and all(e_.kind != "call" or (e_.a[1][0] == "attr" and e_.a[1][2] in ("debug", "isEnabledFor", "getLogger", "rstrip")) or e_.kind == "loop"
                         for pth_ in io.fp.paths for e_ in pth_.effects[[i_ for i_, x_ in enumerate(pth_.effects) if x_.kind == "loop"][0] + 1:]))
    if not same_loop and (len(io.fp.paths) != 1 or len(io.loops) != 1):
        rep.fail(cl + ".one-line-loop", fn.name, "expected a single path with a single loop over the input lines (paths %d, loops %d)" % (len(io.fp.paths), len(io.loops)), W(fn), key=cl + ".one-line-loop|anonymize_io")
        return io, None
    path, li = io.loops[0]
    w = W(fn, li.node)
    it = li.iter
    readlines = ("call", ("attr", io.inp, "readlines"), (), ())
    ok_iter = it == readlines or (it == io.inp and not require_readlines)
    rep.ob(cl + ".all-lines-in-order", fn.name, ok_iter,
           "the loop iterates %s; expected in_io.readlines()%s — every line, in order, terminators attached" % (show(it), "" if require_readlines else " (or in_io itself)"), w, key=cl + ".all-lines-in-order|anonymize_io")
    outside = [e for e in path.effects if e.kind == "call" and e.a[1][0] == "attr" and e.a[1][1] == io.outp]
    rep.ob(cl + ".no-write-outside-loop", fn.name, not outside, "calls on the output stream outside the line loop: %s" % [show(e.a) for e in outside], w)
    linevar = ("loopvar", li.uid, li.iter, ())
    n = 0
    full = None
    for bp in li.body_paths:
        if not bp.feasible():
            continue
        n += 1
        if bp.result is not None:
            rep.fail(cl + ".no-early-exit", fn.name, "the loop body leaves early (%s) under %s: a line would be dropped or the rest of the file lost" % (bp.kind, bp.describe()[:140]), W(fn, bp.result[2]), key=cl + ".no-early-exit|anonymize_io")
            continue
        writes = [e for e in bp.effects if e.kind == "call" and e.a[1][0] == "attr" and e.a[1][2] in ("write", "writelines") and e.a[1][1] == io.outp]
        other_out = [e for e in bp.effects if e.kind == "call" and e.a[1][0] == "attr" and e.a[1][1] == io.outp and e.a[1][2] not in ("write",)]
        ok = len(writes) == 1 and not other_out and not any(e.maybe for e in writes)
        rep.ob(cl + ".one-write-per-line", fn.name, ok, "writes on this path: %d (conditional: %s) under %s; expected exactly one unconditional out_io.write per input line" % (len(writes), [e.maybe for e in writes], bp.describe()[:120]), w,
               key=cl + ".one-write-per-line|anonymize_io", nontrivial=(n <= 3))
        if not ok:
            continue
        arg = writes[0].a[2][0] if len(writes[0].a[2]) == 1 else None
        stages, okc = io.chain(arg, linevar) if arg is not None else ([], False)
        names = [s for s, _ in stages]
        rep.ob(cl + ".write-is-end-of-chain", fn.name, okc,
               "written text is %s; expected the result of the enabled stages applied one after another to the input line, nothing added or stripped" % show(arg)[:200], W(fn, writes[0].node),
               key=cl + ".write-is-end-of-chain|anonymize_io", nontrivial=(n <= 3))
        called = [io.classify_call(e.a) for e in bp.effects if e.kind == "call" and io.classify_call(e.a)]
        if okc:
            rep.ob(cl + ".no-stage-result-dropped", fn.name, sorted(called) == sorted(names),
                   "stages run on this path: %s, stages whose result reaches the written line: %s (a stage fed with the raw line instead of the previous stage's output discards the earlier stages)" % (called, names), W(fn, writes[0].node),
                   key=cl + ".no-stage-result-dropped|anonymize_io", nontrivial=(n <= 3))
        if okc:
            order_ok = names == [s for s in STAGE_ORDER if s in names]
            rep.ob(cl + ".stage-order", fn.name, order_ok, "stages on this path run in order %s; fixed order is secrets, IPv6, IPv4, words, AS numbers" % names, w, key=cl + ".stage-order|anonymize_io", nontrivial=(n <= 3))
            if len(names) == 5:
                full = stages
    stage_guard_rules(rep, cl, io, li, fn)
    # every branch decision in the loop body is a test of a stage object (or the debug-only comparison of input and output line)
    foreign = set()
    import ast as _ast

    def _debug_only(node):
        """An if statement whose arms only call logging.debug: its condition cannot influence what is written."""
        if not isinstance(node, _ast.If):
            return False
        for st_ in list(node.body) + list(node.orelse):
            if not (isinstance(st_, _ast.Expr) and isinstance(st_.value, _ast.Call) and isinstance(st_.value.func, _ast.Attribute) and st_.value.func.attr == "debug"
                    and isinstance(st_.value.func.value, _ast.Name) and st_.value.func.value.id == "logging"):
                return False
        return True
    stage_fields = {f for fs in STAGE_FIELDS.values() for f in fs}
    for bp in li.body_paths:
        if not bp.feasible():
            continue
        skip_terms = set()
        for t0, pol0, node0 in bp.conds:
            if _debug_only(node0):
                for x in subterms(t0):
                    skip_terms.add(x)
                    skip_terms.add(type(bp)._norm_atom(x)[0])
        for t, pol in bp.atoms():
            if t[0] == "boolop" or t in skip_terms:
                continue
            if t[0] == "attr" and t[1] == SELF and t[2] in stage_fields:
                continue  # `if self.anonymizer4:` - a stage object is never falsy
            if t[0] == "compare" and t[1] == ("is",) and t[2][1] == ("const", None) and t[2][0][0] == "attr" and t[2][0][1] == SELF and t[2][0][2] in stage_fields:
                continue
            if t[0] == "compare" and t[1] in (("==",), ("!=",)) and linevar in t[2]:
                continue  # `if line != output_line: logging.debug(...)`
            foreign.add(show(t)[:100])
    rep.ob(cl + ".stages-guarded-only-by-own-object", fn.name, not foreign,
           "conditions in the line loop other than `<stage object> is not None`: %s — whether a stage is applied to a line must not depend on the line's content or on another feature" % sorted(foreign), w,
           key=cl + ".stages-guarded-only-by-own-object|anonymize_io")
    rep.stat("line_loop_body_paths", n)
    rep.ob(cl + ".body-paths-floor", fn.name, n >= 16, "feasible paths through the loop body: %d (>= 2^4 feature subsets)" % n, w, nontrivial=False)
    # loop-carried dependences: nothing assigned in one iteration is read in the next
    carried_reads = set()
    for bp in li.body_paths:
        for e, ls in walk_effects(bp.effects):
            for t in (e.a, e.b, e.c):
                if isinstance(t, tuple):
                    for s in subterms(t):
                        if s[0] == "carried" and s[2] == li.uid:
                            carried_reads.add(s[1])
        for t, pol, _ in bp.conds:
            for s in subterms(t):
                if s[0] == "carried" and s[2] == li.uid:
                    carried_reads.add(s[1])
    rep.ob(cl + ".line-local", fn.name, not carried_reads, "locals carried from one iteration to the next: %s (each output line may depend only on its own input line)" % sorted(carried_reads), w, key=cl + ".line-local|anonymize_io")
    # who else writes content
    for f in ctx.p.all_functions():
        if f is fn:
            continue
        for e, ls, pth in A.paths(f).all_effects():
            if e.kind == "call" and e.a[1][0] == "attr" and e.a[1][2] in ("write", "writelines"):
                ok = f.name == "dump_to_file"
                rep.ob(cl + ".single-content-writer", f.qualname, ok, "%s writes to a stream: %s (only anonymize_io writes anonymized content; dump_to_file writes the map)" % (f.qualname, show(e.a)[:100]), W(f, e.node))
    return io, (path, li, full)


def split_line_shape(ctx, rep, cl):
    p, A = ctx.p, ctx.A
    f = p.find_function("_split_line")
    rep.analysed(f)
    lp = ("param", f.mparams[0])
    call = lambda m: ("call", ("attr", lp, m), (), ())
    ln = lambda x: ("call", ("builtin", "len"), (x,), ())
    want = ("tuple", (
        ("sub", lp, ("slice", None, ("unop", "-", ln(call("lstrip"))), None)),
        call("split"),
        ("sub", lp, ("slice", ln(call("rstrip")), None, None)),
    ))
    for path in A.paths(f).paths:
        r = path.returned()
        if not path.feasible():
            continue
        if path.conds and r is not None and r[0] == "tuple" and len(r[1]) == 3 and r[1][1:] == want[1][1:]:
            # the all-blank line written out as its own case: line[:-0] is the empty text, so `leading = ""` when line.lstrip() is empty says the same
            tv = path.truth(call("lstrip"))
            others = [t for t, pol in path.atoms() if t != call("lstrip")]
            if not others and ((tv is True and r[1][0] == want[1][0]) or (tv is False and r[1][0] == ("const", ""))):
                rep.ob(cl + ".split-line-shape", f.name, True, "all-blank lines handled as an explicit case with the same result", W(f), nontrivial=False)
                continue
        rep.ob(cl + ".split-line-shape", f.name, r == want and not path.conds,
               "returns %s; expected (line[:-len(line.lstrip())], line.split(), line[len(line.rstrip()):]) — the three use the same (default) whitespace definition, so leading + tokens + trailing loses nothing but inner spacing" % show(r), W(f), key=cl + ".split-line-shape|_split_line")


def c12(ctx, rep):
    rep.explanation = (
        "Loop discipline of anonymize_io: one loop over in_io.readlines(); on every feasible path through the body (all 2^5 guard combinations) exactly one unconditional out_io.write whose argument is the end of the chain of "
        "enabled stage calls starting at the loop variable, nothing added or stripped; no break/continue/return; no loop-carried local; no other writer of content in the package. Stage shape: each stage returns "
        "pattern.sub(callable, line) over its whole line parameter (addresses, AS numbers) or leading + ' '.join(tokens') + trailing with leading/trailing from _split_line (secrets, words); _split_line has the exact three-slice shape; "
        "only matched spans change (callable replacements, match = prefix . secret); skipped addresses return the matched text itself."
    )
    rep.rule = "one obligation per (clause, loop-body path) and per stage function"
    rep.trust("re.sub copies text outside matches verbatim", "file.readlines() returns every line with its terminator; str.split() with no argument splits on whitespace runs and drops empty tokens")
    rep.assume("the slice arithmetic inside _split_line (string identity over all lines) is not decided, only its shape")
    line_loop_rules(ctx, rep, "C12")
    stream_open_rule(ctx, rep, "C12")
    from . import checks_rx as _rx, checks_misc as _misc
    import_clauses(ctx, rep, "C12", "C06", _rx.c06, ("C06.ipv6-match-is-address-text", "C06.ipv6-selected-parseable"))
    import_clauses(ctx, rep, "C12", "C14", _misc.c14, ("C14.K2-",))  # an exception inside the line loop drops the rest of the file
    split_line_shape(ctx, rep, "C12")
    from . import secret_rmi, secret_struct, checks_secret, checks_ip, checks_rx
    from .ipmodel import IpModel
    secret_rmi.check_rmi(ctx, rep, "C12")
    from . import secret_flow as _sf
    _sf.check_anonymize_value(ctx, rep, "C12")  # a reserved (non-secret) token is left alone whatever was seen before
    _pfx, _grps, _parts = secret_struct.check_table(ctx, rep, "C12", want_catchalls=False)
    from . import refpatterns
    refpatterns.check(ctx, rep, "C12", _pfx, _grps, _parts)  # incl. secret-group-not-wider: text after the secret stays in place
    m = IpModel(ctx)
    checks_ip._undo_threading(ctx, m, rep, "C12")
    _word_and_as_shapes(ctx, rep, "C12")
    checks_secret._enclosing_lists(ctx, rep, "C12")
    # "tokens that are not sensitive items are carried over verbatim": masks and listed networks are such tokens (the gate names them exactly),
    # and a $9$-looking token the decoder neither refuses nor decodes takes the rest of the file with it
    checks_ip._gate_content(ctx, m, rep, "C12")
    checks_ip._stage_families(ctx, m, rep, "C12")
    import_clauses(ctx, rep, "C12", "C11", checks_rx.c11, ("C11.pattern-", "C11.map-", "C11.context-", "C11.body-is-the-alternation"))  # the AS stage touches listed numbers standing alone, nothing else
    import_clauses(ctx, rep, "C12", "C19", c19, ("C19.list-options",))  # an empty or re-split list entry becomes a pattern that matches between all characters
    import_clauses(ctx, rep, "C12", "C05", checks_ip.c05, ("C05.preserved-list",))
    import_clauses(ctx, rep, "C12", "C18", _misc.c18, ("C18.valid-alphabet", "C18.valid-min-length", "C18.validated-before-tables", "C18.refusal"), with_k3=False)


def _sub_report(ctx, pid, fnc, **kw):
    """Obligations of another property's check on a scratch report (cached per analysis context).  Nested imports are not
    followed: the clauses adopted from a check are its own, so two checks may adopt from each other."""
    from .report import Report
    cache = ctx.__dict__.setdefault("_import_cache", {})
    key = (pid, tuple(sorted((k, repr(v)) for k, v in kw.items())))
    if key in cache:
        return cache[key]
    depth = getattr(ctx, "_import_depth", 0)
    if depth >= 1:
        return None
    sub = Report(pid, quiet=True)
    ctx._import_depth = depth + 1
    try:
        fnc(ctx, sub, **kw)
    finally:
        ctx._import_depth = depth
    cache[key] = sub.obligations
    return sub.obligations


def import_clauses(ctx, rep, cl, pid, fnc, keep, required=True, **kw):
    """Re-run another property's check on a scratch report and adopt the named clauses (prefix match) under this property's name."""
    obs = _sub_report(ctx, pid, fnc, **kw)
    if obs is None:
        return
    n = 0
    for o in obs:
        if any(o["clause"] == k or o["clause"].startswith(k) for k in keep):
            n += 1
            tail = o["clause"].split(".", 1)[1]
            rep.ob(cl + "." + tail, o["construct"], o["ok"], o["detail"], o["where"], o.get("witness"), key="%s.%s|%s" % (cl, tail, o["construct"]))
    rep.ob(cl + ".imported-" + pid, pid, n >= 1 or not required, "clauses adopted from %s: %d (%s)" % (pid, n, ", ".join(keep)), "", nontrivial=False)


def _word_and_as_shapes(ctx, rep, cl):
    """Word stage and AS stage keep the line's frame (re-uses the C10 / C11 clause functions on a scratch report)."""
    from .report import Report
    from . import checks_secret, checks_rx
    for pid, fnc, keep in (("C10", checks_secret.c10, ("C10.every-token", "C10.fast-path", "C10.reserved-lowercased", "C10.reserved-reach-word-stage", "C10.skip-set-subset-of-reserved", "C10.skip-set-built")), ("C11", checks_rx.c11, ("C11.sub-line", "C11.sub-callable", "C11.sub-plumbing", "C11.context-left", "C11.context-right", "C11.body-is-the-alternation"))):
        obs = _sub_report(ctx, pid, fnc)
        for o in obs or ():
            if o["clause"] in keep or any(o["clause"].startswith(k) for k in keep):
                rep.ob(cl + "." + o["clause"].split(".", 1)[1], o["construct"], o["ok"], o["detail"], o["where"], o.get("witness"), key="%s.%s|%s" % (cl, o["clause"].split(".", 1)[1], o["construct"]))


STAGE_OPTIONS = {
    "compiled_regexes": {("param", "anon_pwd")}, "pwd_lookup": {("param", "anon_pwd")},
    "anonymizer_sensitive_word": {("param", "sensitive_words")},
    "anonymizer4": {("param", "anon_ip"), ("param", "undo_ip_anon")}, "anonymizer6": {("param", "anon_ip"), ("param", "undo_ip_anon")},
    "anonymizer_as_num": {("param", "as_numbers")},
}


def ast_unparse(node):
    import ast as _a
    return _a.unparse(node)


def stream_open_rule(ctx, rep, cl):
    """Text goes in and out unchanged apart from the replacements: the streams handed to anonymize_io are opened with a plain mode ('r' / 'w'),
    without error substitution (errors=), without newline translation overrides (newline=), and with the same encoding on both sides
    (none given = the same default on both).  Any other open() keyword on these streams is reported: it changes which characters or
    line boundaries the stages see, or what is written back."""
    p, A = ctx.p, ctx.A
    n = 0
    for f in (p.find_function("anonymize_files"), p.find_function("FileAnonymizer.anonymize_file")):
        rep.analysed(f)
        seen = set()
        for path in A.paths(f).paths:
            if not path.feasible():
                continue
            for e, ls in walk_effects(path.effects):
                if e.kind != "call" or M.callee_name(e.a) != "anonymize_io":
                    continue
                opens = [a for a in e.a[2] if M.is_call(a) and a[1] == ("builtin", "open")]
                key = tuple(show(a) for a in opens)
                if key in seen or len(opens) != 2:
                    continue
                seen.add(key)
                n += 1
                encs = []
                for a in opens:
                    kws = dict(a[3])
                    mode = open_mode(a)
                    extra = sorted(k for k in kws if k not in ("mode", "encoding"))
                    rep.ob(cl + ".stream-open-plain", "%s:%s" % (f.name, mode), not extra and mode in ("r", "w", "rt", "wt") and len(a[2]) <= 2,
                           "open(%s) uses %s; expected only a path and the mode %s (errors= hides undecodable input, newline= changes what a line is, buffering/opener are not reviewed)" % (show(a)[5:60], extra or "mode %r" % mode, "'r'/'w'"),
                           W(f, e.node), key="%s.stream-open-plain|%s:%s" % (cl, f.name, mode[:1]))
                    encs.append(show(kws["encoding"]) if "encoding" in kws else None)
                    if "encoding" in kws:
                        enc_t = kws["encoding"]
                        enc_v = enc_t[1].lower().replace("_", "-") if enc_t[0] == "const" and isinstance(enc_t[1], str) else None
                        rep.ob(cl + ".stream-encoding-utf8", "%s:%s" % (f.name, mode), enc_v in ("utf-8", "utf8"),
                               "open(..., encoding=%s); a declared encoding other than UTF-8 re-reads configs byte-wise (latin-1 turns the bytes 0x85/0xA0 of multi-byte characters into separators that the line splitting collapses; -sig variants drop a leading BOM on one entry point only)" % show(enc_t),
                               W(f, e.node), key="%s.stream-encoding-utf8|%s:%s" % (cl, f.name, mode[:1]))
                rep.ob(cl + ".stream-encoding-symmetric", f.name, len(set(encs)) == 1, "input is decoded with %s and output encoded with %s; non-ASCII text outside the replaced items must come back as it went in" % (encs[0], encs[-1]), W(f, e.node),
                       key="%s.stream-encoding-symmetric|%s" % (cl, f.name))
    rep.ob(cl + ".stream-opens-found", "entry points", n >= 2, "anonymize_io call sites with two freshly opened streams: %d (anonymize_files, anonymize_file)" % n, "", nontrivial=False)


LIST_OPTIONS = ("sensitive_words", "as_numbers", "reserved_words", "preserve_prefixes", "preserve_networks")


def list_option_consumed_once(ctx, rep, cl):
    """The file layer hands each list-valued option to its feature without looking into it itself: on every path of FileAnonymizer.__init__ and
    anonymize_files the parameter is used at most once (handed on, or merged into the reserved set).  A second use — a warning that lists the
    words, a cross-check against another feature's list — empties a one-shot iterable before the feature sees it, and makes one feature's
    input depend on another feature being enabled."""
    from .hazards import Hazards, _Walk
    p = ctx.p
    hz = Hazards(ctx, rep, cl, set())
    for f in (p.find_function("FileAnonymizer.__init__"), p.find_function("anonymize_files")):
        node = f.gen_orig or f.node
        for name in LIST_OPTIONS:
            if name not in f.params and name not in f.kwonly:
                continue
            w = _Walk(hz, f.module, f.cls.node if f.cls else None, {name: 0}, 3)  # depth 3: a package callee counts as one use (its own uses are its feature's business)
            w.block(node.body)
            n_ = w.peak.get(name, 0)
            rep.ob(cl + ".list-option-consumed-once", "%s:%s" % (f.name, name), n_ <= 1, "%s uses its parameter %s %d times on some path; expected one use (handing it to the feature it belongs to)" % (f.qualname, name, n_), W(f),
                   key="%s.list-option-consumed-once|%s:%s" % (cl, f.name, name))


def independent_wiring(ctx, rep, cl, only=None):
    """Whether a stage object exists is decided by that feature's own option(s) alone (FileAnonymizer.__init__)."""
    p, A = ctx.p, ctx.A
    f_fa = p.find_function("FileAnonymizer.__init__")
    rep.analysed(f_fa)
    paths = [x for x in A.paths(f_fa).paths if x.feasible() and x.kind != "raise"]
    # 1. independent wiring: truth table field-set vs option conditions
    option_of = STAGE_OPTIONS
    params = {("param", x) for x in f_fa.params[1:]}  # the options (not self)
    for field, own in option_of.items():
        if only is not None and field not in only:
            continue
        dep = set()
        seen_set = seen_none = 0
        for path in paths:
            stores = [e for e, ls in path.stores() if e.kind == "store_attr" and e.a == SELF and e.b == field]
            final = stores[-1].c if stores else None
            is_set = final is not None and final != ("const", None)
            seen_set += is_set
            seen_none += (not is_set)
        # which option terms decide whether the field is set? compare paths pairwise on their decisions
        decisions = []
        for path in paths:
            stores = [e for e, ls in path.stores() if e.kind == "store_attr" and e.a == SELF and e.b == field]
            final = stores[-1].c if stores else None
            is_set = final is not None and final != ("const", None)
            d = {}
            for t, pol, _n in path.conds:
                roots = {s for s in subterms(t) if s in params} | {("param", s[2]) for s in subterms(t) if s[0] == "attr" and s[1] == SELF and ("param", s[2]) in params}
                d[show(t)] = (pol, frozenset(roots))
            decisions.append((is_set, d))
        relevant = set()
        for i in range(len(decisions)):
            for j in range(i + 1, len(decisions)):
                a, b = decisions[i], decisions[j]
                if a[0] == b[0]:
                    continue
                # decisions taken on both paths that differ (a decision missing on one path — early return — is a wildcard)
                diff = [k for k in set(a[1]) & set(b[1]) if a[1][k][0] != b[1][k][0]]
                # one differing decision, or several that are all about the same option (a field assigned from a parameter and the
                # parameter itself are tested in two places: the decisions are correlated, the option they read is what decides)
                rootsets = {(a[1].get(k) or b[1].get(k))[1] for k in diff}
                if len(diff) >= 1 and len(rootsets) == 1:
                    relevant |= set(next(iter(rootsets)))
        rep.ob(cl + ".independent-wiring", field, relevant <= own and seen_set >= 1 and seen_none >= 1,
               "whether self.%s is created is decided by %s; expected only its own option(s) %s (set on %d paths, None on %d)" % (field, sorted(x[1] for x in relevant), sorted(x[1] for x in own), seen_set, seen_none), W(f_fa),
               key="%s.independent-wiring|%s" % (cl, field))


# ----------------------------------------------------------------------
def c15(ctx, rep):
    p, A, G = ctx.p, ctx.A, ctx.G
    rep.explanation = (
        "Wiring analysis of FileAnonymizer: each stage object is created under a condition whose roots are only that feature's own option(s), in independent ifs, defaulting to None; every stage constructor and the secret stage "
        "receive the defaulted salt field; constructor arguments are feature-local; in the loop body the stage calls occur in the fixed order, each guarded only by its own stage object, each taking the previous stage's result "
        "(chain from the loop variable to the write, on all 32 guard combinations); stage state is private (lookup only to the secret stage, each anonymizer only to its own stage); user reserved words reach both consumers whatever features are on."
    )
    rep.rule = "one obligation per (clause, constructor path / loop-body path / call site)"
    rep.trust("Python evaluates independent if statements independently; default argument values are bound at definition time")
    f_fa = p.find_function("FileAnonymizer.__init__")
    rep.analysed(f_fa)
    io, loopinfo = line_loop_rules(ctx, rep, "C15")
    fp = A.paths(f_fa)
    paths = [x for x in fp.paths if x.feasible() and x.kind != "raise"]
    rep.stat("constructor_paths", len(paths))
    independent_wiring(ctx, rep, "C15")
    # the reserved-word set is built from the built-in list and the user's reserved words only (no other feature's option shapes it)
    for path in paths:
        for e, ls in walk_effects(path.effects):
            t_ = None
            if e.kind == "store_attr" and e.a == SELF and e.b == "reserved_words":
                t_ = e.c
            elif e.kind == "call" and e.a[1][0] == "attr" and e.a[1][1] == ("attr", SELF, "reserved_words") and e.a[1][2] in MUTATORS_ALL:
                t_ = ("tuple", tuple(e.a[2]) + tuple(v for k, v in e.a[3]))
            if t_ is None:
                continue
            foreign_ = sorted({s_[1] for s_ in subterms(t_) if s_[0] == "param" and s_[1] not in ("self", "reserved_words")} | {"self." + s_[2] for s_ in subterms(t_) if s_[0] == "attr" and s_[1] == SELF and s_[2] != "reserved_words"})
            rep.ob("C15.reserved-set-feature-local", "FileAnonymizer.__init__", not foreign_, "self.reserved_words is shaped by %s (%s): whether the secret stage leaves a value alone would depend on another feature's option" % (foreign_, show(t_)[:80]), W(f_fa, e.node),
                   key="C15.reserved-set-feature-local|FileAnonymizer.__init__", nontrivial=False)
    from . import checks_rx as _rx, checks_secret as _sec
    import_clauses(ctx, rep, "C15", "C11", _rx.c11, ("C11.wiring",))
    import_clauses(ctx, rep, "C15", "C10", _sec.c10, ("C10.wiring",))
    import_clauses(ctx, rep, "C15", "C19", c19, ("C19.binding", "C19.options-not-rewritten"))  # each feature's own options reach it whatever other features are on
    list_option_consumed_once(ctx, rep, "C15")
    # a feature's treatment of its text is decided by its own object: nothing shared between objects (class-level or default-argument memo, module table)
    from .checks_misc import stage_state_rule
    stage_state_rule(ctx, rep, "C15", ["FileAnonymizer"])
    option_of = STAGE_OPTIONS
    params = {("param", x) for x in f_fa.params}
    # default None
    first = {}
    for path in paths[:1]:
        for e, ls in path.stores():
            if e.kind == "store_attr" and e.a == SELF and e.b in option_of and e.b not in first:
                first[e.b] = e.c
    rep.ob("C15.default-none", "FileAnonymizer.__init__", all(first.get(f) == ("const", None) for f in option_of), "every stage field is first set to None: %s" % {k: show(v) for k, v in first.items()}, W(f_fa))
    # 2/3. constructor arguments: salt field + feature-local roots
    allowed_roots = {
        "SensitiveWordAnonymizer": {"sensitive_words", "reserved_words", "self.reserved_words"},
        "IpAnonymizer": {"preserve_prefixes", "preserve_networks", "preserve_suffix_v4"},
        "IpV6Anonymizer": {"preserve_suffix_v6"},
        "AsNumberAnonymizer": {"as_numbers"},
    }
    seen_cls = set()
    for cs in G.by_owner.get(f_fa.qualname, []):
        for c in cs.classes():
            if c.name not in allowed_roots:
                continue
            seen_cls.add(c.name)
            init = c.find_method("__init__")
            b = bind_args(cs.term, init, 1) or {}
            salt_arg = b.get("salt")
            rep.ob("C15.same-salt", c.name, salt_arg == ("attr", SELF, "salt"), "%s receives salt=%s; expected the defaulted field self.salt (the raw parameter may be None)" % (c.name, show(salt_arg)), cs.where, key="C15.same-salt|%s" % c.name)
            roots = set()
            for k, v in b.items():
                if k == "salt" or not isinstance(v, tuple):
                    continue
                for s in subterms(v):
                    if s[0] == "param" and s[1] != "self":
                        roots.add(s[1])
                    if s[0] == "attr" and s[1] == SELF and s[2] != "salt":
                        roots.add("self." + s[2])
            extra = roots - allowed_roots[c.name]
            rep.ob("C15.feature-local-arguments", c.name, not extra, "%s constructor arguments depend on %s; allowed: salt and %s" % (c.name, sorted(roots), sorted(allowed_roots[c.name])), cs.where, key="C15.feature-local-arguments|%s" % c.name)
    from .checks_misc import argument_mutation_rule
    ctors = [c.find_method("__init__") for c in [p.find_class(n) for n in allowed_roots] + [p.find_class("FileAnonymizer")]]
    argument_mutation_rule(ctx, rep, "C15", [f for f in ctors if f is not None])
    rep.ob("C15.stage-constructors", "FileAnonymizer.__init__", seen_cls == set(allowed_roots), "stage constructors found: %s" % sorted(seen_cls), W(f_fa), nontrivial=False)
    # salt field: parameter, random only when None
    from .checks_ip import _salt_defaulting
    _salt_defaulting(ctx, rep, "C15")
    # 4/5. per stage call site: guard only by own object, private state, same salt/undo
    f_io = io.fn
    if loopinfo is not None:
        path, li, full = loopinfo
        rep.ob("C15.all-enabled-path", "anonymize_io", full is not None, "a loop-body path with all five stages enabled exists and chains them", W(f_io), key="C15.all-enabled-path|anonymize_io")
        # arguments at the five call sites (from the all-enabled chain)
        if full is not None:
            f_rmi = p.find_function("replace_matching_item")
            for st, t in full:
                if st == "pwd":
                    b = bind_args(t, f_rmi) or {}
                    want = {f_rmi.mparams[0]: ("attr", SELF, "compiled_regexes"), f_rmi.mparams[2]: ("attr", SELF, "pwd_lookup"), f_rmi.mparams[3]: ("attr", SELF, "salt")}
                    for k, v in want.items():
                        rep.ob("C15.stage-arguments", "pwd:%s" % k, b.get(k) == v, "replace_matching_item(%s=%s); expected %s" % (k, show(b.get(k)), show(v)), W(f_io), key="C15.stage-arguments|pwd:%s" % k)
                elif st in ("ip6", "ip4"):
                    b = bind_args(t, p.find_function("anonymize_ip_addr")) or {}
                    rep.ob("C15.stage-arguments", st, b.get("anonymizer") == ("attr", SELF, "anonymizer" + st[-1]) and b.get("undo_ip_anon") == ("attr", SELF, "undo_ip_anon"),
                           "anonymize_ip_addr(%s)" % {k: show(v)[:40] for k, v in b.items()}, W(f_io), key="C15.stage-arguments|%s" % st)
                elif st == "as":
                    b = bind_args(t, p.find_function("anonymize_as_numbers")) or {}
                    rep.ob("C15.stage-arguments", st, b.get("anonymizer") == ("attr", SELF, "anonymizer_as_num"), "anonymize_as_numbers(%s)" % {k: show(v)[:40] for k, v in b.items()}, W(f_io), key="C15.stage-arguments|as")
            # private state: each stage field used by exactly its own stage call
            for st, t in full:
                la = io.line_arg(st, t)
                own_args = tuple(a for a in t[2] if a is not la) + tuple(v for k, v in t[3] if v is not la)
                used = {s[2] for s in subterms(("tuple", own_args)) if s[0] == "attr" and s[1] == SELF} | ({t[1][1][2]} if t[1][0] == "attr" and t[1][1][0] == "attr" and t[1][1][1] == SELF else set())
                foreign = {f for other, fs in STAGE_FIELDS.items() if other != st for f in fs} & used
                rep.ob("C15.stage-state-private", st, not foreign, "stage %s uses state of another stage: %s" % (st, sorted(foreign)), W(f_io), key="C15.stage-state-private|%s" % st)
    # reserved words reach both consumers independent of features
    from .checks_secret import reserved_flow
    reserved_flow(ctx, rep, "C15")
    # module-level registries / caches of stage objects break independence between anonymizers
    from .checks_ip import _one_anonymizer_per_run
    from .ipmodel import IpModel
    _one_anonymizer_per_run(ctx, IpModel(ctx), rep, "C15")


# ----------------------------------------------------------------------
WRITE_CALLS = {"os.makedirs", "os.mkdir", "os.remove", "os.unlink", "os.rename", "os.replace", "os.rmdir", "os.removedirs", "os.truncate", "os.symlink", "os.link", "os.chmod", "os.utime",
               "shutil.copy", "shutil.copy2", "shutil.copyfile", "shutil.move", "shutil.rmtree", "shutil.copytree", "tempfile.mkstemp", "tempfile.NamedTemporaryFile", "os.open", "io.open", "codecs.open"}


def open_mode(t):
    """Mode string of an open(...) call term ('r' default); None if not constant."""
    mode = None
    if len(t[2]) >= 2:
        mode = t[2][1]
    for k, v in t[3]:
        if k == "mode":
            mode = v
    if mode is None:
        return "r"
    if mode[0] == "const" and isinstance(mode[1], str):
        return mode[1]
    return None


def _shallow(t):
    """subterms, but loop variables are leaves (their iterable is not a root of the value)."""
    if not isinstance(t, tuple) or not t:
        return
    if isinstance(t[0], str):
        yield t
        if t[0] in ("loopvar", "const", "param", "global", "builtin", "carried", "loopout", "bound"):
            return
        for x in t[1:]:
            if isinstance(x, tuple):
                for y in _shallow(x):
                    yield y
    else:
        for x in t:
            for y in _shallow(x):
                yield y


def write_inventory(ctx, rep, cl):
    """Every file-system write effect in the package and the roots of its path argument."""
    p, A, G = ctx.p, ctx.A, ctx.G
    inv = []
    for cs in G.sites:
        names = set(cs.ext_names())
        t = cs.term
        f = cs.owner
        if "builtins.open" in names or (t[1][0] == "attr" and t[1][2] == "open" and not cs.targets):
            mode = open_mode(t)
            path_t = t[2][0] if t[2] else dict(t[3]).get("file")
            writing = mode is None or any(c in mode for c in "wax+")
            inv.append((cs, "open:%s" % mode, path_t, writing))
        elif names & WRITE_CALLS:
            path_t = t[2][0] if t[2] else None
            inv.append((cs, sorted(names & WRITE_CALLS)[0], path_t, True))
        elif t[1][0] == "attr" and t[1][2] in ("write_text", "write_bytes", "unlink", "rename", "mkdir", "touch", "rmdir"):
            inv.append((cs, "path." + t[1][2], t[1][1], True))
    return inv


def c16(ctx, rep):
    p, A, G = ctx.p, ctx.A, ctx.G
    rep.explanation = (
        "File-level structure: the (input, output) pairs built in the walk are (join(input_path, R, f), join(output_path, R, f)) with the same relative root R of the same os.walk triple and the same f, f ranging over all files "
        "with the single filter 'name does not start with a dot'; single-file case pairs (input_path, output_path); write-effect inventory of the whole package (open modes, os/shutil calls): every written path derives from the "
        "output path / dump path, every input-derived open is read-only; content is written only by anonymize_io, which all four entry points reach with the streams they opened, with identical open() arguments; per-file work sits in one try "
        "whose handler catches Exception, logs at ERROR with the input path and neither re-raises nor leaves the loop; the whole input is read (readlines) before the first line is processed; parent directories are created before the output is opened."
    )
    rep.rule = "one obligation per pair term, write effect, entry point and handler"
    rep.trust("os.walk yields (root, dirs, files) for every directory below the top; os.path.join/relpath are pure path algebra", "open(p, 'r') does not modify p; open(p, 'w') creates/truncates p", "os.makedirs creates missing parent directories")
    rep.assume("symlinks, and a user choosing the same path for input and output, are outside the statement")
    f_files = p.find_function("anonymize_files")
    f_file = p.find_function("FileAnonymizer.anonymize_file")
    f_io = p.find_function("FileAnonymizer.anonymize_io")
    f_mk = p.maybe_function("_mkdirs")
    rep.analysed(f_files)
    rep.analysed(f_file)
    fp = A.paths(f_files)
    ip, op = ("param", "input_path"), ("param", "output_path")
    mod = f_files.module.name
    osm = ("global", mod, "os")
    join = lambda *a: ("call", ("attr", ("attr", osm, "path"), "join"), tuple(a), ())
    # 1. pairing
    n_dir = n_single = 0
    for path in fp.paths:
        if path.kind == "raise" or not path.feasible():
            continue
        isfile = path.truth(("call", ("attr", ("attr", osm, "path"), "isfile"), (ip,), ()))
        loops = [e.a for e in path.effects if e.kind == "loop"]
        file_loop = [l for l in loops if any(M.callee_name(x.a) == "anonymize_io" for bp in l.body_paths for x, _ in walk_effects(bp.effects) if x.kind == "call")]
        if len(file_loop) != 1:
            rep.fail("C16.file-loop", "anonymize_files", "expected one loop over the file pairs, found %d" % len(file_loop), W(f_files))
            continue
        fl = file_loop[0]
        lst = fl.iter
        while M.builtin_call(lst, "list", 1) or M.builtin_call(lst, "tuple", 1):
            lst = lst[2][0]  # a copy of the collected pairs has the same pairs in the same order
        if isfile is True:
            n_single += 1
            root = strip_mut(lst)
            ok = lst == ("list", (("tuple", (ip, op)),))
            rep.ob("C16.single-file-pair", "anonymize_files", ok, "single input file: pair list is %s; expected [(input_path, output_path)]" % show(lst)[:120], W(f_files, fl.node), key="C16.single-file-pair|anonymize_files")
        elif isfile is False:
            n_dir += 1
            walks = [l for l in loops if M.is_call(l.iter) and M.callee_name(l.iter) == "walk"]
            if len(walks) != 1:
                rep.fail("C16.walk", "anonymize_files", "expected one os.walk loop, found %d" % len(walks), W(f_files))
                continue
            wl = walks[0]
            rep.ob("C16.walk-root", "anonymize_files", wl.iter[2] == (ip,) and not wl.iter[3], "walk is %s; expected os.walk(input_path) (whole tree, default order)" % show(wl.iter), W(f_files, wl.node), key="C16.walk-root|anonymize_files")
            rootv, filesv = ("loopvar", wl.uid, wl.iter, (0,)), ("loopvar", wl.uid, wl.iter, (2,))
            rel = ("call", ("attr", ("attr", osm, "path"), "relpath"), (rootv, ip), ())
            ext = []
            for bp in wl.body_paths:
                if bp.result is not None or bp.conds:
                    rep.fail("C16.walk-unconditional", "anonymize_files", "walk body is conditional or leaves early: %s %s (directories would be skipped)" % (bp.kind, bp.describe()[:100]), W(f_files, wl.node), key="C16.walk-unconditional|anonymize_files")
                for e in bp.effects:
                    if e.kind == "call" and e.a[1][0] == "attr" and e.a[1][2] in ("extend", "append") and e.a[2]:
                        ext.append(e)
                dirs_mut = [e for e in bp.effects if (e.kind == "store_sub" and strip_mut(e.a) == ("loopvar", wl.uid, wl.iter, (1,))) or (e.kind == "call" and e.a[1][0] == "attr" and strip_mut(e.a[1][1]) == ("loopvar", wl.uid, wl.iter, (1,)) and e.a[1][2] in ("remove", "clear", "pop", "sort"))]
                if dirs_mut:
                    rep.fail("C16.walk-prunes", "anonymize_files", "the walk prunes/reorders sub-directories: %s" % [repr(x)[:60] for x in dirs_mut], W(f_files, wl.node), key="C16.walk-prunes|anonymize_files")
            okp = False
            detail = [show(e.a)[:200] for e in ext]
            if len(ext) == 1:
                c = ext[0].a[2][0]
                if c[0] == "comp" and len(c[4]) == 1:
                    fv, src, conds = c[4][0]
                    pair = c[3]
                    want_pair = ("tuple", (join(ip, rel, fv), join(op, rel, fv)))
                    filt = ("unop", "not", ("call", ("attr", fv, "startswith"), (("const", "."),), ()))
                    okp = src == filesv and pair == want_pair and conds == (filt,)
                    rep.ob("C16.mirror-pair", "anonymize_files", pair == want_pair, "pair is %s; expected (join(input_path, R, f), join(output_path, R, f)) with the same R = relpath(root, input_path) and the same f" % show(pair)[:260], W(f_files, ext[0].node), key="C16.mirror-pair|anonymize_files")
                    rep.ob("C16.all-files", "anonymize_files", src == filesv, "file names come from %s; expected every entry of the walk triple's file list" % show(src), W(f_files, ext[0].node), key="C16.all-files|anonymize_files")
                    rep.ob("C16.dot-file-filter", "anonymize_files", conds == (filt,), "filter is %s; expected exactly `not f.startswith('.')` on the file NAME" % [show(x) for x in conds], W(f_files, ext[0].node), key="C16.dot-file-filter|anonymize_files")
            rep.ob("C16.pair-construction", "anonymize_files", okp, "pairs are collected by %s" % detail, W(f_files, wl.node), key="C16.pair-construction|anonymize_files")
            root_l = strip_mut(lst)
            rep.ob("C16.pair-list-complete", "anonymize_files", root_l in (("list", ()), ("loopout", "file_list", wl.uid)) or lst[0] in ("loopout", "mut"), "the file loop iterates the collected list (%s)" % show(lst)[:80], W(f_files, fl.node), nontrivial=False)
        # per-file body
        lv_in, lv_out = ("loopvar", fl.uid, fl.iter, (0,)), ("loopvar", fl.uid, fl.iter, (1,))
        _per_file_body(ctx, rep, f_files, fl, lv_in, lv_out)
    rep.ob("C16.paths-examined", "anonymize_files", n_dir >= 1 and n_single >= 1, "paths examined: directory input %d, single file %d" % (n_dir, n_single), W(f_files), nontrivial=False)
    # 2. write inventory
    inv = write_inventory(ctx, rep, "C16")
    rep.stat("fs_effects", len(inv))
    n_w = 0
    allowed_roots = {
        "anonymize_files": {"output_path", "dumpfile"}, "anonymize_file": {"out_file"}, "_mkdirs": {"file_path"},
    }
    BASE_OK = {"anonymize_files": {"dumpfile", "pair[1]"}, "anonymize_file": {"out_file"}}

    def _local_roots(term):
        roots = set()
        if term is not None:
            for s in _shallow(term):
                if s[0] == "param":
                    roots.add(s[1])
                if s[0] == "loopvar":
                    roots.add("pair[%s]" % ",".join(map(str, s[3])))
                if s[0] in ("global", "const") and s[0] == "const" and isinstance(s[1], str) and s[1] not in ("", ".", "w", "r"):
                    roots.add("literal:%s" % s[1])
        return roots

    def _resolved(f, roots, depth=0):
        """Roots of a path written inside a helper, followed through its call sites up to the entry points:
        set of 'entry:root' labels, or {'?'} when a root cannot be followed."""
        if f.name in BASE_OK:
            return {"%s:%s" % (f.name, r) for r in roots}
        if depth > 3:
            return {"?"}
        out = set()
        callers = [cs2 for cs2 in G.sites if f in cs2.funcs()]
        if not callers:
            return {"?"}
        for r in roots:
            if r not in f.params:
                out.add("?")
                continue
            for cs2 in callers:
                skip = 1 if (f.cls is not None and not f.is_staticmethod and cs2.term[1][0] == "attr") else 0
                b = bind_args(cs2.term, f, skip) or {}
                a = b.get(r)
                if a is None:
                    out.add("?")
                else:
                    out |= _resolved(cs2.owner, _local_roots(a), depth + 1)
        return out
    for cs, kind, path_t, writing in inv:
        f = cs.owner
        roots = _local_roots(path_t)
        if writing:
            n_w += 1
            okr = False
            if f.name in BASE_OK:
                okr = roots <= BASE_OK[f.name] and bool(roots)
            else:
                res = _resolved(f, roots)
                okr = bool(res) and all(lbl.split(":", 1)[0] in BASE_OK and lbl.split(":", 1)[1] in BASE_OK[lbl.split(":", 1)[0]] for lbl in res)
                roots = res
            rep.ob("C16.writes-only-output", "%s:%s" % (f.name, kind), okr, "write effect %s on path %s (roots %s); only output-side paths may be written" % (kind, show(path_t)[:80], sorted(roots)), cs.where, key="C16.writes-only-output|%s:%s" % (f.name, kind))
        else:
            rep.ob("C16.input-read-only", "%s:%s" % (f.name, kind), True, "read-only open of %s" % show(path_t)[:60], cs.where, nontrivial=False)
    rep.ob("C16.write-effect-floor", "package", n_w >= 4, "write effects found: %d (floor 4: two output opens, dump open, makedirs)" % n_w, "", nontrivial=False)
    # _mkdirs argument is the output path
    for cs in G.by_owner.get(f_files.qualname, []):
        if f_mk is not None and f_mk in cs.funcs():
            a = cs.term[2][0] if cs.term[2] else None
            rep.ob("C16.mkdirs-output", "anonymize_files", a is not None and a[0] == "loopvar" and a[3] == (1,), "_mkdirs(%s); expected the output path of the pair" % show(a), cs.where, key="C16.mkdirs-output|anonymize_files")
    # 3. entry points agree: same open() arguments, streams passed straight through
    sig = {}
    for f in (f_files, f_file):
        for path in A.paths(f).paths:
            for e, ls in walk_effects(path.effects):
                if e.kind == "call" and M.callee_name(e.a) == "anonymize_io":
                    args = e.a[2]
                    opens = [a for a in args if M.is_call(a) and a[1] == ("builtin", "open")]
                    ok = len(args) == 2 and len(opens) == 2
                    rep.ob("C16.streams-straight-through", f.name, ok, "anonymize_io(%s); expected the two streams just opened, unchanged" % ", ".join(show(a)[:50] for a in args), W(f, e.node), key="C16.streams-straight-through|%s" % f.name, nontrivial=False)
                    if ok:
                        sig[f.name] = tuple((open_mode(a), tuple(sorted((k, show(v)) for k, v in a[3] if k != "mode")), len(a[2])) for a in args)
    # command line == directory API: the one transformation main applies to its options (merging the private networks) gives what the API is documented to take
    from .checks_ip import _private_merge
    from .ipmodel import IpModel
    _private_merge(ctx, IpModel(ctx), rep, "C16")
    stream_open_rule(ctx, rep, "C16")
    import_clauses(ctx, rep, "C16", "C19", c19, ("C19.list-options", "C19.binding", "C19.options-not-rewritten", "C19.option-value-as-typed", "C19.option-source"))  # the command line hands the options on as the API takes them
    # nothing on the file path of the work is remembered across runs (a memoised "directory exists" is wrong after the directory was removed)
    from .checks_misc import stage_state_rule
    stage_state_rule(ctx, rep, "C16", ["anonymize_files", "FileAnonymizer", "_mkdirs"])
    # single-file API: reads the named input, writes the named output, refuses only an output that is a directory
    inf, outf = ("param", f_file.mparams[1]), ("param", f_file.mparams[2])
    isdir_out = ("call", ("attr", ("attr", ("global", f_file.module.name, "os"), "path"), "isdir"), (outf,), ())
    n_ok_paths = 0
    for path in A.paths(f_file).paths:
        if not path.feasible():
            continue
        if path.kind == "raise":
            exact = path.entails(isdir_out, True)
            rep.ob("C16.single-file-refusal", "anonymize_file", exact, "anonymize_file raises under %s; expected only when the output path is an existing directory" % path.describe()[:100], W(f_file, path.result[2]), key="C16.single-file-refusal|anonymize_file")
            continue
        n_ok_paths += 1
        io_calls = [e.a for e, ls in path.calls() if M.callee_name(e.a) == "anonymize_io"]
        okio = len(io_calls) == 1
        if okio:
            a = io_calls[0][2]
            okio = len(a) == 2 and all(M.is_call(x) and x[1] == ("builtin", "open") for x in a) and a[0][2][:1] == (inf,) and a[1][2][:1] == (outf,) and open_mode(a[0]) in ("r", "rt") and open_mode(a[1]) in ("w", "wt")
        rep.ob("C16.single-file-streams", "anonymize_file", okio, "anonymize_file processes %s; expected anonymize_io(open(in_file, 'r'), open(out_file, 'w'))" % [show(x)[:90] for x in io_calls], W(f_file), key="C16.single-file-streams|anonymize_file")
    rep.ob("C16.single-file-works", "anonymize_file", n_ok_paths >= 1, "non-raising paths of anonymize_file: %d" % n_ok_paths, W(f_file), key="C16.single-file-works|anonymize_file")
    # parent directories: created exactly when the output path has a directory part
    if f_mk is not None:
        rep.analysed(f_mk)
        fpar = ("param", f_mk.mparams[0])
        dterm = ("call", ("attr", ("attr", ("global", f_mk.module.name, "os"), "path"), "dirname"), (fpar,), ())

        def _nonempty(t):
            """Truth value the condition gives to 'the directory part is non-empty' (None: not such a test)."""
            ln_ = ("call", ("builtin", "len"), (dterm,), ())
            if t == dterm:
                return True
            if t == ("compare", (">",), (ln_, ("const", 0))) or t == ("compare", (">=",), (ln_, ("const", 1))) or t == ("compare", ("!=",), (dterm, ("const", ""))) or t == ("compare", ("!=",), (ln_, ("const", 0))):
                return True
            if t == ("compare", ("==",), (ln_, ("const", 0))) or t == ("compare", ("==",), (dterm, ("const", ""))) or t == ("compare", ("<",), (ln_, ("const", 1))) or (t[0] == "unop" and t[1] == "not" and t[2] == dterm):
                return False
            return None
        n_mk = 0
        for path in A.paths(f_mk).paths:
            if not path.feasible():
                continue
            made = any(M.callee_name(e.a) == "makedirs" for e, ls in path.calls()) or any(isinstance(t, tuple) and t[0] == "except" and pol for t, pol, _ in path.conds)  # attempted (and refused)
            verdicts = [(_nonempty(t) == pol) for t, pol, _ in path.conds if _nonempty(t) is not None]
            okg = bool(verdicts) and all(v == made for v in verdicts)
            n_mk += made
            if made or path.kind != "raise":
                rep.ob("C16.mkdirs-guard", "_mkdirs[%s]" % ("creates" if made else "skips"), okg, "os.makedirs is %s under %s; expected: called exactly when dirname(path) is non-empty (a bare file name has nothing to create, a one-letter directory has)" % ("called" if made else "not called", path.describe()[:100]), W(f_mk),
                       key="C16.mkdirs-guard|%s" % ("creates" if made else "skips"))
        rep.ob("C16.mkdirs-called", "_mkdirs", n_mk >= 1, "paths of _mkdirs that create the directory: %d" % n_mk, W(f_mk), nontrivial=False)
    rep.ob("C16.entry-points-agree", "open() arguments", len(sig) == 2 and len(set(sig.values())) == 1, "open() modes/options used by the entry points: %s; they must be identical (encoding, newline handling)" % sig, W(f_file), key="C16.entry-points-agree|open-arguments")
    if sig:
        rep.ob("C16.open-modes", "open() arguments", all(v[0][0] == "r" and v[1][0] == "w" for v in sig.values()), "input opened 'r', output opened 'w': %s" % sig, W(f_file))
    # main funnels into anonymize_files only
    f_main = p.find_function("netconan.main")
    callees = G.callees_of(f_main.qualname)
    rep.ob("C16.cli-funnels", "main", f_files.qualname in callees and not any(q.endswith("anonymize_io") or q.endswith("anonymize_file") or "FileAnonymizer" in q for q in callees), "main reaches content only through anonymize_files (callees: %s)" % sorted(x.split(".")[-1] for x in callees), W(f_main))
    # 4. readlines before processing
    line_loop_rules(ctx, rep, "C16", require_readlines=True)
    # anonymize_file: refuses a directory, otherwise same funnel
    for path in A.paths(f_file).paths:
        pass


def _per_file_body(ctx, rep, f_files, fl, lv_in, lv_out):
    G = ctx.G
    import ast as _ast
    # locate the Try statement inside the file loop
    loop_node = fl.node
    tries = [n for n in loop_node.body if isinstance(n, _ast.Try)]
    w = W(f_files, loop_node)
    if len(tries) != 1:
        rep.fail("C16.failure-contained", "anonymize_files", "the per-file loop body has %d try statements; expected the per-file work inside one try" % len(tries), w, key="C16.failure-contained|anonymize_files")
        return
    tr = tries[0]
    def _logging_call(x):
        """logging.debug(...) or <module-level logger>.debug(...) where the logger is `logging.getLogger(...)`."""
        if not (isinstance(x.func, _ast.Attribute) and isinstance(x.func.value, _ast.Name)):
            return False
        if x.func.value.id == "logging":
            return True
        if x.func.attr not in ("debug", "info", "warning", "error", "exception", "critical", "log", "isEnabledFor"):
            return False
        exprs = f_files.module.assigns.get(x.func.value.id, ())
        return len(exprs) == 1 and isinstance(exprs[0], _ast.Call) and _ast.unparse(exprs[0].func) in ("logging.getLogger", "getLogger")
    outside = [n for n in loop_node.body if n is not tr and any(isinstance(x, _ast.Call) and not _logging_call(x) for x in _ast.walk(n))]
    rep.ob("C16.work-inside-try", "anonymize_files", not outside, "calls in the file loop outside the try: %s" % [_ast.unparse(n)[:60] for n in outside], w, key="C16.work-inside-try|anonymize_files")
    names = [(_ast.unparse(h.type) if h.type is not None else "bare") for h in tr.handlers]
    catch_all = any(nm in ("Exception", "BaseException", "bare") for nm in names)
    rep.ob("C16.failure-contained", "anonymize_files", catch_all, "handlers catch %s; expected Exception (any failure of one file is contained)" % names, W(f_files, tr), key="C16.failure-contained|anonymize_files")
    for h in tr.handlers:
        bad = [x for s in h.body for x in _ast.walk(s) if isinstance(x, (_ast.Raise, _ast.Break, _ast.Return))]
        rep.ob("C16.handler-continues", "anonymize_files", not bad, "the handler re-raises / leaves the loop (%s): later files would not be processed" % [type(x).__name__ for x in bad], W(f_files, h), key="C16.handler-continues|anonymize_files")
        logs = [x for s in h.body for x in _ast.walk(s) if isinstance(x, _ast.Call) and isinstance(x.func, _ast.Attribute) and x.func.attr in ("error", "exception", "critical") and _ast.unparse(x.func.value) == "logging"]
        tnames = {x.id for x in _ast.walk(loop_node.target) if isinstance(x, _ast.Name)}
        for _round in range(3):  # locals computed from the loop target (in_path = pair.in_path)
            for st_ in _ast.walk(loop_node):
                if isinstance(st_, _ast.Assign) and tnames & {x.id for x in _ast.walk(st_.value) if isinstance(x, _ast.Name)}:
                    tnames |= {x.id for t_ in st_.targets for x in _ast.walk(t_) if isinstance(x, _ast.Name)}
        okl = bool(logs) and any(any(tnames & {x.id for x in _ast.walk(a) if isinstance(x, _ast.Name)} for a in c.args[1:]) for c in logs)  # names the current pair / its input path
        rep.ob("C16.failure-reported", "anonymize_files", okl, "the handler reports the failing input file at ERROR level", W(f_files, h), key="C16.failure-reported|anonymize_files")
        stateful = [x for s in h.body for x in _ast.walk(s) if isinstance(x, (_ast.Assign, _ast.AugAssign, _ast.Delete))]
        rep.ob("C16.handler-stateless", "anonymize_files", not stateful, "the handler changes no state", W(f_files, h), nontrivial=False)
    if tr.finalbody:
        bad = [x for s in tr.finalbody for x in _ast.walk(s) if isinstance(x, (_ast.Raise, _ast.Break, _ast.Return, _ast.Continue))]
        rep.ob("C16.finally-benign", "anonymize_files", not bad, "finally block does not alter control flow", W(f_files, tr), nontrivial=False)
    # order inside the try: mkdirs before the output open; both opens on the pair
    for bp in fl.body_paths:
        if any(t[0] == "except" for t, pol in bp.atoms()):
            continue
        if bp.kind == "raise":
            continue
        idx_mk = [i for i, e in enumerate(bp.effects) if e.kind == "call" and M.callee_name(e.a) in ("_mkdirs", "makedirs")]
        opens = [(i, e) for i, e in enumerate(bp.effects) if e.kind == "call" and e.a[1] == ("builtin", "open")]
        wopens = [(i, e) for i, e in opens if any(c in (open_mode(e.a) or "w") for c in "wax+")]
        ropens = [(i, e) for i, e in opens if (i, e) not in wopens]
        ok = bool(idx_mk) and bool(wopens) and min(idx_mk) < min(i for i, e in wopens)
        if not idx_mk and wopens:
            # no directory to create: the path established that the output path has no directory part
            for t, pol in bp.atoms():
                sx = show(t)
                if "dirname" in sx and ((t[0] == "call" and not pol) or (t[0] == "compare" and "len(" in sx and not pol) or (t[0] == "compare" and t[1] == ("==",) and pol)):
                    ok = True
        rep.ob("C16.parents-created-first", "anonymize_files", ok, "parent directories are created before the output file is opened (mkdirs at %s, output open at %s)" % (idx_mk, [i for i, e in wopens]), w, key="C16.parents-created-first|anonymize_files")
        okp = len(wopens) == 1 and wopens[0][1].a[2][0] == lv_out and len(ropens) == 1 and ropens[0][1].a[2][0] == lv_in
        rep.ob("C16.opens-the-pair", "anonymize_files", okp, "opens: read %s, write %s; expected exactly open(in_path,'r') and open(out_path,'w') of the current pair" % ([show(e.a)[:40] for i, e in ropens], [show(e.a)[:40] for i, e in wopens]), w, key="C16.opens-the-pair|anonymize_files")
        ios = [e for e in bp.effects if e.kind == "call" and M.callee_name(e.a) == "anonymize_io"]
        rep.ob("C16.one-io-per-file", "anonymize_files", len(ios) == 1, "anonymize_io calls per file: %d" % len(ios), w, nontrivial=False)
    # _mkdirs tolerates only an existing directory
    f_mk = ctx.p.maybe_function("_mkdirs")
    if f_mk is not None:
        rep.analysed(f_mk)
        oks = False
        for path in ctx.A.paths(f_mk).paths:
            if path.kind in ("fall", "return") and any(t[0] == "except" for t, pol in path.atoms()):
                conds = path.describe()
                oks = "EEXIST" in conds and "isdir" in conds
                rep.ob("C16.mkdirs-tolerance", "_mkdirs", oks, "an OSError from makedirs is swallowed only under %s; expected errno == EEXIST and the path being a directory" % conds[:160], W(f_mk), key="C16.mkdirs-tolerance|_mkdirs")


# ----------------------------------------------------------------------
def c19(ctx, rep):
    p, A, G, folder = ctx.p, ctx.A, ctx.G, ctx.folder
    from .checks_ip import cli_options, _cli_defaults, _private_merge, _dump_requires_ips
    from .ipmodel import IpModel
    rep.explanation = (
        "Command-line contract from the structure of main/_parse_args/host_bits: on every feasible path of main that reaches anonymize_files (the only effectful callee) the three validation guards were passed (undo without anonymize; "
        "undo with a salt; dump only with --anonymize-ips) and nothing with a write effect precedes them; the call sits in the negative branch of a test over exactly the five feature terms; host_bits accepts exactly [0, 32] "
        "(interval rule on its comparisons); --input/--output required; every option has a --long spelling and exactly one is_config_file option exists; folded defaults (host bits 8, preserve-prefixes = the default list, rest None/False, log level INFO); "
        "comma-list options split on ',' iff given; every actual argument of main -> anonymize_files -> FileAnonymizer -> stage constructors binds to the formal parameter the role table demands; --preserve-private-addresses merges RFC 1918 on both branches."
    )
    rep.rule = "one obligation per (clause, path of main / option / binding)"
    rep.trust("configargparse: options with a --long spelling can be set in the config file; command line overrides config file overrides defaults; required=True options must be present (configargparse docs)",
              "argparse converts ArgumentTypeError/ValueError/ArgumentError raised by a type function into a usage error before main continues")
    rep.assume("configargparse's own precedence logic is third-party; only that _parse_args does not post-process or re-parse is checked")
    # "options behave identically" however and whenever they are given: nothing a run leaves behind in the process decides what the next run writes,
    # and every accepted host-bit count is usable in both directions
    from .checks_misc import stage_state_rule
    stage_state_rule(ctx, rep, "C19", ["netconan.main"])
    import_clauses(ctx, rep, "C19", "C16", c16, ("C16.mkdirs-guard",), required=False)
    from . import checks_ip as _ip
    import_clauses(ctx, rep, "C19", "C02", _ip.c02, ("C02.result-int", "C02.undo."))
    from .ipmodel import IpModel as _IpModel19
    _ip._gate_content(ctx, _IpModel19(ctx), rep, "C19")  # "--preserve-private-addresses equals listing the three RFC 1918 networks": the gate knows listed networks and masks, nothing else
    _ip._salt_defaulting(ctx, rep, "C19")  # "undo without salt is rejected" means a given salt — the empty string too — is the salt used
    # "documented defaults apply": the default tables are what the source says for the whole life of the process (no constructor adds to them)
    from .checks_misc import argument_mutation_rule
    argument_mutation_rule(ctx, rep, "C19", [f for f in p.all_functions() if (f.cls is not None and f.name == "__init__") or (f.cls is None and f.name == "anonymize_files")])
    f_main = p.find_function("netconan.main")
    f_files = p.find_function("anonymize_files")
    f_parse = p.find_function("_parse_args")
    rep.analysed(f_main)
    rep.analysed(f_parse)
    fp = A.paths(f_main)
    args_t = None
    for path in fp.paths[:1]:
        for e, ls in path.calls():
            if f_parse in [t[1] for t in G.resolve_callee(e.a[1], f_main) if t[0] == "func"]:
                args_t = e.a
    if args_t is None:
        # main obtains the parser itself and calls parse_args(argv) on it: the parsed options are that call's result
        from .checks_ip import parser_function
        if parser_function(ctx) is f_main:
            for path in fp.paths[:1]:
                for e, ls in path.calls():
                    if M.callee_name(e.a) == "parse_args":
                        args_t = e.a
            f_parse = f_main
    if args_t is None:
        raise AnalysisError("main does not call _parse_args")
    A_ = lambda n: ("attr", args_t, n)
    isnone = lambda t: ("compare", ("is",), (t, ("const", None)))
    reach = []
    effects_before = 0
    for path in fp.paths:
        if not path.feasible() or path.kind == "raise":
            continue
        calls = [e for e, ls in path.calls() if f_files in [t[1] for t in G.resolve_callee(e.a[1], f_main) if t[0] == "func"]]
        if calls:
            reach.append((path, calls[0]))
    rep.stat("main_paths_reaching_anonymize_files", len(reach))
    rep.ob("C19.call-reached", "main", len(reach) >= 8, "feasible paths of main reaching anonymize_files: %d" % len(reach), W(f_main), nontrivial=False)
    bad = {"undo-and-anonymize": 0, "undo-without-salt": 0, "dump-without-ips": 0}
    for path, call in reach:
        if path.possible({A_("undo"): True, A_("anonymize_ips"): True}) is not False:
            bad["undo-and-anonymize"] += 1
        if path.possible({A_("undo"): True, isnone(A_("salt")): True}) is not False:
            bad["undo-without-salt"] += 1
        if path.possible({isnone(A_("dump_ip_map")): False, A_("anonymize_ips"): False}) is not False:
            bad["dump-without-ips"] += 1
    eqs = lambda t, k: ("compare", ("==",), (t, ("const", k)))
    for opt in ("input", "output"):
        n = 0
        for path, call in reach:
            if path.possible({isnone(A_(opt)): True}) is not False or path.possible({eqs(A_(opt), ""): True}) is not False:
                n += 1
        bad["missing-%s (absent or empty)" % opt] = n
    for k, v in bad.items():
        rep.ob("C19.validation-dominates", k, v == 0, "paths reaching anonymize_files on which the combination '%s' was not excluded by an earlier raising guard: %d of %d" % (k, v, len(reach)), W(f_main), key="C19.validation-dominates|%s" % k)
    # ... and nothing else is rejected: every raising path of main has established one of the contradictory / unusable combinations
    combos = [("undo together with anonymize", {A_("undo"): True, A_("anonymize_ips"): True}), ("undo without salt", {A_("undo"): True, isnone(A_("salt")): True}),
              ("map dump without IP anonymization", {isnone(A_("dump_ip_map")): False, A_("anonymize_ips"): False}), ("missing input", {A_("input"): False}), ("missing output", {A_("output"): False})]
    for path in fp.paths:
        if not path.feasible() or path.kind != "raise":
            continue
        hit = [nm for nm, lits in combos if all(path.entails(t, v) for t, v in lits.items())]
        rep.ob("C19.only-contradictions-rejected", "main", bool(hit), "main raises %s under %s; this is %s" % (show(path.result[1])[:60], path.describe()[:140], hit[0] if hit else "none of the contradictory or unusable combinations: a valid command line is refused"),
               W(f_main, path.result[2]), key="C19.only-contradictions-rejected|%s" % show(path.result[1])[:50])
    # no write effect in main itself before/other than the call; guards raise
    from .checks_pipe import write_inventory as _wi
    for cs, kind, path_t, writing in _wi(ctx, rep, "C19"):
        if cs.owner in (f_main, f_parse) and writing:
            rep.fail("C19.no-effect-before-validation", cs.owner.name, "write effect %s in %s" % (kind, cs.owner.name), cs.where)
    # the validation must also precede effects inside anonymize_files: checks of option combinations may not live there
    # (a guard that raises only after the outputs were written is too late)
    late = []
    for path in A.paths(f_files).paths:
        if path.kind == "raise":
            has_effect = any(e.kind == "loop" or (e.kind == "call" and (e.a[1] == ("builtin", "open") or M.callee_name(e.a) in ("makedirs", "_mkdirs"))) for e in path.effects)
            if has_effect:
                late.append(path.describe()[-100:])
    rep.ob("C19.no-late-rejection", "anonymize_files", not late, "anonymize_files raises after it has started writing: %s" % late[:2], W(f_files), key="C19.no-late-rejection|anonymize_files")
    # 2. nothing enabled => nothing written, and every single feature is enough to run
    flag_feats = {"anonymize_passwords": "anon_pwd", "anonymize_ips": "anon_ip", "undo": "undo_ip_anon"}
    list_feats = {"as_numbers": "as_numbers", "sensitive_words": "sensitive_words"}
    gated = True
    detail = []
    for path, call in reach:
        b = bind_args(call.a, f_files) or {}
        terms = [b.get(r) for r in list(flag_feats.values()) + list(list_feats.values())]
        if any(t is None for t in terms):
            gated = False
            detail.append("call without the five feature arguments")
            continue
        if path.possible({t: False for t in terms if t[0] != "const" or t[1]}) is not False and not any(t[0] == "const" and t[1] for t in terms):
            gated = False
            detail.append("reached with every feature off: %s" % path.describe()[:120])
    ungated = []
    for pth in fp.paths:
        if not pth.feasible() or pth.kind == "raise" or any(pth is r[0] for r in reach):
            continue
        for opt in flag_feats:
            if pth.possible({A_(opt): True}) is not False:
                ungated.append(opt)
        for opt in list_feats:
            if pth.possible({isnone(A_(opt)): False}) is not False:
                ungated.append(opt)
    rep.ob("C19.nothing-enabled-nothing-written", "main", gated and not ungated,
           "anonymize_files is reached only with some feature on (%s), and main returns without it only when all five feature options are off (features that do not suffice on their own: %s)" % (detail[:2] or "ok", sorted(set(ungated)) or "none"),
           W(f_main), key="C19.nothing-enabled-nothing-written|main")
    no_call = [pth for pth in fp.paths if pth.feasible() and pth.kind != "raise" and not any(pth is r[0] for r in reach)]
    rep.ob("C19.no-feature-path", "main", len(no_call) >= 1 and all(not any(e.a[1] == ("builtin", "open") for e, ls in pth.calls()) for pth in no_call), "paths on which no feature is enabled: %d, none writes" % len(no_call), W(f_main), nontrivial=False)
    # 3. host bits
    f_hb = p.find_function("host_bits")
    rep.analysed(f_hb)
    xp = ("param", f_hb.mparams[0])
    val = ("call", ("builtin", "int"), (xp,), ())
    ok_ret = ok_guard = False
    rets = [path for path in A.paths(f_hb).paths if path.kind == "return" and path.feasible()]
    # EVERY accepted value is int(x) and went through the range test (a second way out that converts first is a second accepted set)
    all_ret = bool(rets) and all(path.returned() == val and any((t[0] == "boolop" and t[1] == "or" and not pol) or (t[0] == "compare" and len(t[1]) == 2 and pol) for t, pol in path.atoms()) for path in rets)
    rep.ob("C19.host-bits-every-return", "host_bits", all_ret, "every returning path of host_bits returns int(x) after the range test (returning paths: %s)" % [show(path.returned())[:40] for path in rets], W(f_hb), key="C19.host-bits-every-return|host_bits")
    for path in A.paths(f_hb).paths:
        if path.kind == "return":
            ok_ret = path.returned() == val
            g = [t for t, pol in path.atoms() if t[0] == "boolop"]
        if path.kind == "raise":
            for t, pol in path.atoms():
                if t[0] == "boolop" and t[1] == "or" and pol:
                    lo = any(x in (("compare", ("<",), (val, ("const", 0))), ("compare", ("<=",), (val, ("const", -1))), ("compare", (">",), (("const", 0), val))) for x in t[2])
                    hi = any(x in (("compare", (">",), (val, ("const", 32))), ("compare", (">=",), (val, ("const", 33))), ("compare", ("<",), (("const", 32), val))) for x in t[2])
                    ok_guard = lo and hi and len(t[2]) == 2
                if t[0] == "unop":
                    pass
                if t[0] == "compare" and len(t[1]) == 2 and not pol:
                    ok_guard = ok_guard or (t[1] == ("<=", "<=") and t[2] == (("const", 0), val, ("const", 32)))
    rep.ob("C19.host-bits-range", "host_bits", ok_guard, "host_bits raises exactly when the value is < 0 or > 32 (accepted set [0, 32])", W(f_hb), key="C19.host-bits-range|host_bits")
    rep.ob("C19.host-bits-value", "host_bits", ok_ret, "host_bits returns int(x)", W(f_hb))
    opts = cli_options(ctx)
    rep.stat("cli_options", len(opts))
    rep.ob("C19.options-floor", "_parse_args", len(opts) >= 17, "options found: %d (floor 17)" % len(opts), W(f_parse), nontrivial=False)
    hb = opts.get("--preserve-host-bits")
    rep.ob("C19.host-bits-type", "--preserve-host-bits", hb is not None and hb["type"] is not None and hb["type"][0] == "node" and hb["type"][1] == "host_bits", "--preserve-host-bits uses type=%s; expected host_bits" % (hb["type"] if hb else None,), hb["where"] if hb else "", key="C19.host-bits-type|--preserve-host-bits")
    # 4. required / long spellings / config file
    for name in ("--input", "--output"):
        o = opts.get(name)
        guarded = bad.get("missing-%s (absent or empty)" % name[2:], 1) == 0
        rep.ob("C19.required", name, o is not None and (o["required"] == ("ok", True) or guarded), "%s required=%s, guard in main excludes an absent/empty value: %s (either rejects a missing %s before anything is written)" % (name, o["required"] if o else None, guarded, name[2:]),
               o["where"] if o else "", key="C19.required|%s" % name)
    cfg = [n for n, o in opts.items() if o["is_config_file"] == ("ok", True)]
    rep.ob("C19.config-file-option", "_parse_args", len(cfg) == 1, "is_config_file options: %s" % cfg, W(f_parse), key="C19.config-file-option|_parse_args")
    for n, o in opts.items():
        rep.ob("C19.long-spelling", n, bool(o["longs"]), "option %s has a --long spelling (settable from a config file)" % o["flags"], o["where"], nontrivial=False)
    # parser class is configargparse
    parser_ok = any(cs.ext_names() and cs.ext_names()[0] in ("configargparse.ArgParser", "configargparse.ArgumentParser") for cs in G.by_owner.get(f_parse.qualname, []))
    rep.ob("C19.config-parser", "_parse_args", parser_ok, "the parser is a configargparse parser", W(f_parse), key="C19.config-parser|_parse_args")
    for path in (A.paths(f_parse).paths if f_parse is not f_main else fp.paths[:1]):
        r = path.returned() if f_parse is not f_main else args_t
        argv_t = ("param", f_parse.mparams[0])
        ok = M.is_call(r) and M.callee_name(r) == "parse_args" and (r[2] == (argv_t,) and not r[3] or (not r[2] and tuple(r[3]) == (("args", argv_t),)))  # parse_args(argv) / parse_args(args=argv)
        rep.ob("C19.no-post-processing", "_parse_args", ok, "_parse_args returns %s; expected parser.parse_args(argv) unmodified" % show(r)[:80], W(f_parse), key="C19.no-post-processing|_parse_args")
    # 5. defaults
    want_defaults = {"--anonymize-ips": False, "--dump-ip-map": None, "--log-level": "INFO", "--as-numbers": None, "--anonymize-passwords": False, "--reserved-words": None, "--salt": None, "--undo": False,
                     "--sensitive-words": None, "--preserve-addresses": None, "--preserve-private-addresses": False, "--preserve-host-bits": 8}
    for n, v in want_defaults.items():
        o = opts.get(n)
        got_d = o["default"] if o else None
        ok = o is not None and (got_d == ("ok", v) or (got_d[0] == "absent" and v is None) or (got_d[0] == "absent" and v is False and o.get("action") == ("ok", "store_true")))  # store_true defaults to False
        rep.ob("C19.default", n, ok, "default of %s folds to %r; documented default %r" % (n, got_d, v), o["where"] if o else W(f_parse), key="C19.default|%s" % n)
    for n in ("--anonymize-ips", "--anonymize-passwords", "--undo", "--preserve-private-addresses"):
        o = opts.get(n)
        rep.ob("C19.flag-action", n, o is not None and o["action"] == ("ok", "store_true"), "%s action=%s" % (n, o["action"] if o else None), o["where"] if o else "", nontrivial=False)
    _cli_defaults(ctx, rep, "C19")
    # 6. list options split on ',' iff given
    call = reach[0][1] if reach else None
    lists = {"as_numbers": "as_numbers", "reserved_words": "reserved_words", "sensitive_words": "sensitive_words", "preserve_prefixes": "preserve_prefixes"}
    for path, c in reach:
        b = bind_args(c.a, f_files) or {}
        for prm, opt in lists.items():
            v = b.get(prm)
            given = path.truth(isnone(A_(opt)))
            split = ("call", ("attr", A_(opt), "split"), (("const", ","),), ())
            if given is False:
                ok = v == split
            elif given is True:
                ok = v == ("const", None)
            else:
                ok = False
            if not ok:
                rep.fail("C19.list-options", prm, "%s = %s when --%s is %s; expected the value split on ',' iff given" % (prm, show(v), opt.replace("_", "-"), "given" if given is False else "absent"), W(f_main, c.node), key="C19.list-options|%s" % prm)
    for prm in lists:
        rep.ob("C19.list-options", prm, True, "checked on %d paths" % len(reach), W(f_main), nontrivial=False)
    # 7. role table for main -> anonymize_files
    roles = {"input_path": "input", "output_path": "output", "anon_pwd": "anonymize_passwords", "anon_ip": "anonymize_ips", "salt": "salt", "dumpfile": "dump_ip_map", "undo_ip_anon": "undo",
             "preserve_suffix_v4": "preserve_host_bits", "preserve_suffix_v6": "preserve_host_bits"}
    if call is not None:
        b = bind_args(call.a, f_files) or {}
        for prm, opt in roles.items():
            rep.ob("C19.binding", "main:%s" % prm, b.get(prm) == A_(opt), "anonymize_files(%s=%s); expected args.%s" % (prm, show(b.get(prm)), opt), W(f_main, call.node), key="C19.binding|main:%s" % prm)
        for prm in ("sensitive_words", "as_numbers", "reserved_words", "preserve_prefixes"):
            v = b.get(prm)
            ok = v is not None and any(s == A_(prm) for s in subterms(v)) or v == ("const", None)
            rep.ob("C19.binding", "main:%s" % prm, ok, "anonymize_files(%s=%s)" % (prm, show(v)), W(f_main, call.node), key="C19.binding|main:%s" % prm)
        # ... and what was parsed is not edited on the way: no attribute of the option namespace is assigned in main
        rew = sorted({e.b for pth in fp.paths if pth.feasible() for e, ls in walk_effects(pth.effects) if e.kind == "store_attr" and e.a == args_t})
        rep.ob("C19.options-not-rewritten", "main", not rew, "main assigns option(s) %s of the parsed namespace before handing them on: the command line then no longer means what the API call with the same values means" % rew, W(f_main),
               key="C19.options-not-rewritten|main")
        extra = [k for k in b if k.startswith("*")]
        rep.ob("C19.binding-arity", "main", not extra, "unbound extra arguments: %s" % extra, W(f_main, call.node), nontrivial=False)
    f_fa = p.find_function("FileAnonymizer.__init__")
    for cs in G.by_owner.get(f_files.qualname, []):
        if any(c.name == "FileAnonymizer" for c in cs.classes()):
            b = bind_args(cs.term, f_fa, 1) or {}
            for prm in f_fa.params[1:]:
                rep.ob("C19.binding", "anonymize_files:%s" % prm, b.get(prm) == ("param", prm), "FileAnonymizer(%s=%s); expected the parameter of the same role" % (prm, show(b.get(prm))), cs.where, key="C19.binding|anonymize_files:%s" % prm)
    # the console script calls main() without arguments: its default is the command line without the program name
    dflt = f_main.defaults.get(f_main.params[0]) if f_main.params else None
    ok_argv = False
    if dflt is not None:
        import ast as _a
        txt = _a.unparse(dflt).replace(" ", "")
        ok_argv = txt == "sys.argv[1:]"
        if isinstance(dflt, _a.Constant) and dflt.value is None:
            # argv=None with `if argv is None: argv = sys.argv[1:]`
            for path in fp.paths:
                if path.truth(isnone(("param", f_main.params[0]))) is True:
                    for e, ls in path.calls():
                        if f_parse in [t[1] for t in G.resolve_callee(e.a[1], f_main) if t[0] == "func"]:
                            a0 = e.a[2][0] if e.a[2] else None
                            ok_argv = a0 == ("sub", ("attr", ("global", f_main.module.name, "sys"), "argv"), ("slice", ("const", 1), None, None))
    rep.ob("C19.argv-default", "main", ok_argv, "main's default argument list is %s; expected sys.argv[1:] (everything the user typed, nothing else)" % (ast_unparse(dflt) if dflt is not None else None), W(f_main), key="C19.argv-default|main")
    # 8. private addresses
    _private_merge(ctx, IpModel(ctx), rep, "C19")
    from .checks_ip import option_spec_rule
    option_spec_rule(ctx, rep, "C19")
    independent_wiring(ctx, rep, "C19")  # an option switches its own feature on and nothing else (e.g. host bits never switch address anonymization off)
    # log level wiring
    lvl = opts.get("--log-level")
    rep.ob("C19.log-level-choices", "--log-level", True, "log level choices %s (informational: the property does not speak about log levels)" % (lvl["choices"] if lvl else None,), lvl["where"] if lvl else "", nontrivial=False)


CHECKS = {"C12": c12, "C15": c15, "C16": c16, "C19": c19}
