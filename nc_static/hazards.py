"""Language-level hazards: places where Python's evaluation model differs from the value model of the term builder.

The term builder treats the value of an expression as *a value*: a name bound to a generator expression stands for its
elements wherever it is used, a lambda stands for its body with the variables it mentions as they are where it is written,
and `self.x` is the instance's own field.  Python differs in three well-known ways, each of which changes behaviour without
touching any statement the property rules look at:

* one-shot iterators — a generator / `map` / `filter` / `zip` / `itertools` object yields its elements ONCE; a second
  consumer (a debug listing, a `len(list(it))`, a second loop, a callee that iterates its parameter twice) sees nothing;
* late binding — a lambda / nested function created in a loop (or comprehension) reads the loop's variables when it is
  CALLED; when it outlives the iteration (collected in a list, wrapped in a lazy `filter`/`map`, returned) every copy sees
  the last value;
* class-level mutable attributes — `x = set()` in the class body is one object shared by all instances; `self.x |= …`,
  `self.x.update(…)`, `self.x[k] = v` mutate that shared object unless the constructor always gives the instance its own.

Each finding is an undischarged obligation `<property>.language-hazard` naming function and line.  Scope: the function
groups the property's argument rests on (location-based partition of the package, see GROUPS_OF); code outside every known
group (a new module) counts for all properties.
"""
import ast

LAZY_BUILTINS = {"map", "filter", "zip", "reversed", "enumerate"}  # iter() is left out: an explicit iterator is advanced on purpose (next(it), then a loop)
LAZY_EXT_PREFIXES = ("itertools.",)
LAZY_EXT = {"re.finditer", "os.walk", "os.scandir", "functools.partial"}
STORING_METHODS = {"append", "add", "insert", "extend", "setdefault", "update", "appendleft", "put", "register", "__setitem__"}
MUTATORS = {"append", "extend", "add", "update", "insert", "remove", "discard", "pop", "clear", "setdefault", "popitem", "sort", "reverse", "forceput", "put",
            "intersection_update", "difference_update", "symmetric_difference_update", "appendleft", "popleft"}
MUTABLE_CTORS = {"list", "dict", "set", "bidict", "defaultdict", "OrderedDict", "deque", "Counter", "bytearray"}

GROUPS_OF = {
    "C01": {"ip", "pipe"}, "C02": {"ip", "pipe", "cli"}, "C03": {"ip", "pipe"}, "C04": {"ip", "pipe", "cli"}, "C05": {"ip", "secret", "pipe", "cli"},
    "C06": {"ip", "pipe"}, "C07": {"secret", "codec", "pipe", "cli"}, "C08": {"secret", "codec", "as", "pipe"}, "C09": {"secret", "codec", "pipe"},
    "C10": {"word", "secret", "pipe", "cli"}, "C11": {"as", "pipe", "cli"}, "C17": {"ip", "pipe", "cli"}, "C18": {"codec"},
}
ALL = {"ip", "codec", "word", "as", "secret", "pipe", "cli"}


def group_of(relpath, class_name, func_name):
    r = relpath.replace("\\", "/")
    if r.endswith("ip_anonymization.py"):
        return "ip"
    if r.endswith("utils/juniper_secrets.py"):
        return "codec"
    if r.endswith("anonymize_files.py"):
        return "pipe"
    if r.endswith("netconan/netconan.py"):
        return "cli"
    if r.endswith("sensitive_item_removal.py"):
        if func_name == "_split_line" and class_name is None:
            return None  # serves both the word and the secret stage
        if class_name == "SensitiveWordAnonymizer":
            return "word"
        if class_name == "AsNumberAnonymizer" or func_name == "anonymize_as_numbers":
            return "as"
        return "secret"
    if r.endswith("default_pwd_regexes.py") or r.endswith("default_reserved_words.py"):
        return "secret"
    return None  # unknown location: relevant to every property


def _parents(root):
    par = {}
    for n in ast.walk(root):
        for c in ast.iter_child_nodes(n):
            par[c] = n
    return par


def _dotted(node):
    parts = []
    while isinstance(node, ast.Attribute):
        parts.append(node.attr)
        node = node.value
    if isinstance(node, ast.Name):
        parts.append(node.id)
        return list(reversed(parts))
    return None


class _Fn:
    """One function (or lambda-free nested def) with its own scope."""

    def __init__(self, node, module, cls, outer):
        self.node, self.module, self.cls, self.outer = node, module, cls, outer
        self.name = node.name


class Hazards:
    def __init__(self, ctx, rep, cl, groups):
        self.ctx, self.p, self.rep, self.cl, self.groups = ctx, ctx.p, rep, cl, groups
        self.n_fn = 0
        self.n_sites = 0
        self.found = 0
        self._ret_lazy = None

    def flag(self, m, node, kind, construct, detail):
        self.found += 1
        self.rep.fail(self.cl + ".language-hazard", "%s:%s" % (kind, construct), detail, "%s:%d" % (m.relpath, getattr(node, "lineno", 0)), key="%s.language-hazard|%s:%s" % (self.cl, kind, construct))

    # ---- resolution ------------------------------------------------------------------------------------------------
    def ext_name(self, m, func):
        dn = _dotted(func)
        if not dn:
            return None
        try:
            r = self.p.resolve_module_name(m, dn[0])
        except Exception:
            r = None
        if r is None:
            return dn[0] if len(dn) == 1 else None
        if r[0] == "ext":
            return ".".join([r[1]] + dn[1:])
        if r[0] == "module" and not hasattr(r[1], "relpath"):
            return ".".join([str(r[1])] + dn[1:])
        return None

    def package_function(self, m, func, cls=None):
        """FunctionInfo for a call's callee when it is a package function / method of the same class (self.m / cls.m) / class constructor."""
        dn = _dotted(func)
        if not dn:
            return None
        if dn[0] in ("self", "cls") and len(dn) == 2 and cls is not None:
            c = self.p.classes.get(m.name + "." + cls.name)
            return c.find_method(dn[1]) if c is not None else None
        try:
            r = self.p.resolve_module_name(m, dn[0])
        except Exception:
            return None
        for a in dn[1:]:
            if r is None:
                return None
            if r[0] == "module" and hasattr(r[1], "relpath"):
                try:
                    r = self.p.resolve_module_name(r[1], a)
                except Exception:
                    return None
            elif r[0] == "class":
                f = r[1].find_method(a)
                r = ("func", f) if f else None
            else:
                return None
        if r is None:
            return None
        if r[0] == "func":
            return r[1]
        if r[0] == "class":
            return r[1].find_method("__init__")
        return None

    def is_lazy_call(self, m, call, shadow=()):
        f = call.func
        if isinstance(f, ast.Name) and f.id in LAZY_BUILTINS and f.id not in shadow:
            try:
                if self.p.resolve_module_name(m, f.id) is None:
                    return True
            except Exception:
                return True
        en = self.ext_name(m, f)
        if en and (en.startswith(LAZY_EXT_PREFIXES) or en in LAZY_EXT) and en != "functools.partial":
            return True
        return False

    def returns_lazy(self):
        """Package functions some return of which is a one-shot iterator (generator functions included)."""
        if self._ret_lazy is not None:
            return self._ret_lazy
        out = set()
        from .source import is_generator_def
        for q, f in self.p.functions.items():
            node = f.gen_orig or f.node
            if f.gen_orig is not None or is_generator_def(node):
                out.add(q)
        changed = True
        while changed:
            changed = False
            for q, f in self.p.functions.items():
                if q in out:
                    continue
                node = f.node
                lazy_names = set()
                for n in ast.walk(node):
                    if isinstance(n, ast.Assign) and len(n.targets) == 1 and isinstance(n.targets[0], ast.Name) and self.producer(f.module, n.value, f.cls.node if f.cls else None, out):
                        lazy_names.add(n.targets[0].id)
                for n in ast.walk(node):
                    if isinstance(n, ast.Return) and n.value is not None:
                        if self.producer(f.module, n.value, f.cls.node if f.cls else None, out) or (isinstance(n.value, ast.Name) and n.value.id in lazy_names):
                            out.add(q)
                            changed = True
                            break
        self._ret_lazy = out
        return out

    def producer(self, m, v, cls, ret_lazy=None):
        """Is expression v definitely a one-shot iterator?"""
        if isinstance(v, ast.GeneratorExp):
            return True
        if isinstance(v, ast.Call):
            if self.is_lazy_call(m, v):
                return True
            pf = self.package_function(m, v.func, cls)
            if pf is not None and pf.name != "__init__":
                rl = ret_lazy if ret_lazy is not None else self.returns_lazy()
                return pf.qualname in rl
        return False

    # ---- 1. one-shot iterators ---------------------------------------------------------------------------------------
    def param_consumption(self, f, depth=0):
        """{param: times an argument bound to it is consumed along the worst path of f} (a field/collection store counts as 2)."""
        key = f.qualname
        cache = self.__dict__.setdefault("_pc", {})
        if key in cache:
            return cache[key]
        cache[key] = {}  # recursion guard
        params = [p_ for p_ in f.params if p_ not in ("self", "cls")] + list(f.kwonly)
        res = {}
        node = f.gen_orig or f.node
        for p_ in params:
            st = _Walk(self, f.module, f.cls.node if f.cls else None, {p_: 0}, depth)
            st.block(node.body)
            res[p_] = max([st.peak.get(p_, 0)] + [0])
        cache[key] = res
        return res

    def one_shot(self, m, fn, cls):
        tracked = {}
        w = _Walk(self, m, cls, tracked, 0, report=True, fname=fn.name)
        w.block(fn.body)

    # ---- 2. late binding -----------------------------------------------------------------------------------------------
    def late_binding(self, m, fn):
        par = _parents(fn)

        def enclosing_iterations(n):
            out = []
            x = n
            while x in par and x is not fn:
                px = par[x]
                if isinstance(px, (ast.For, ast.While, ast.AsyncFor)) and x in px.body:
                    out.append(px)
                elif isinstance(px, (ast.ListComp, ast.SetComp, ast.GeneratorExp, ast.DictComp)):
                    if not any(x is g.iter and i == 0 for i, g in enumerate(px.generators)):
                        out.append(px)
                elif isinstance(px, (ast.FunctionDef, ast.AsyncFunctionDef, ast.Lambda)) and px is not fn:
                    break  # a closure nested in another closure: the outer one is judged
                x = px
            return out

        def varying(it):
            names = set()
            if isinstance(it, (ast.For, ast.AsyncFor)):
                for n in ast.walk(it.target):
                    if isinstance(n, ast.Name):
                        names.add(n.id)
            if isinstance(it, (ast.For, ast.While, ast.AsyncFor)):
                for st in it.body:
                    for n in ast.walk(st):
                        if isinstance(n, ast.Name) and isinstance(n.ctx, ast.Store):
                            names.add(n.id)
            else:
                for g in it.generators:
                    for n in ast.walk(g.target):
                        if isinstance(n, ast.Name):
                            names.add(n.id)
            return names

        def free_names(L):
            bound = set()
            a = L.args
            for x in a.posonlyargs + a.args + a.kwonlyargs + ([a.vararg] if a.vararg else []) + ([a.kwarg] if a.kwarg else []):
                bound.add(x.arg)
            body = [L.body] if isinstance(L, ast.Lambda) else L.body
            loads = set()
            for b in body:
                for n in ast.walk(b):
                    if isinstance(n, ast.Name):
                        if isinstance(n.ctx, ast.Store):
                            bound.add(n.id)
                        else:
                            loads.add(n.id)
            return loads - bound

        def consumed_within(carrier, it):
            """Is the closure (or the lazy object carrying it) used up before the iteration `it` ends?"""
            x = carrier
            while True:
                px = par.get(x)
                if px is None:
                    return False
                if isinstance(px, ast.Call):
                    if x is px.func:
                        return True  # called on the spot
                    if isinstance(px.func, ast.Attribute) and px.func.attr in STORING_METHODS and not (isinstance(px.func.value, ast.Name) and False):
                        return False  # stored in a collection
                    if self.is_lazy_call(m, px) or self.ext_name(m, px.func) == "functools.partial":
                        x = px  # carried by a lazy object: follow that
                        continue
                    return True  # handed to an ordinary (eager) call
                if isinstance(px, ast.keyword):
                    x = px
                    continue
                if isinstance(px, ast.Starred):
                    x = px
                    continue
                if isinstance(px, (ast.For, ast.AsyncFor)) and x is px.iter:
                    return True
                if isinstance(px, ast.comprehension) and x is px.iter:
                    return True
                if isinstance(px, ast.Assign) and len(px.targets) == 1 and isinstance(px.targets[0], ast.Name):
                    # bound to a local name: every use of that name must lie inside the same iteration and be consumed there
                    nm = px.targets[0].id
                    uses = [n for n in ast.walk(fn) if isinstance(n, ast.Name) and n.id == nm and isinstance(n.ctx, ast.Load)]
                    inside = [n for n in ast.walk(it) if isinstance(n, ast.Name) and n.id == nm and isinstance(n.ctx, ast.Load)]
                    if len(uses) != len(inside) or not uses:
                        return False
                    return all(consumed_within(u, it) for u in uses)
                return False

        for L in ast.walk(fn):
            if L is fn or not isinstance(L, (ast.Lambda, ast.FunctionDef, ast.AsyncFunctionDef)):
                continue
            its = enclosing_iterations(L)
            if not its:
                continue
            self.n_sites += 1
            fv = free_names(L)
            for it in its:
                cap = fv & varying(it)
                if not cap:
                    continue
                if isinstance(L, ast.Lambda):
                    ok = consumed_within(L, it)
                else:
                    uses = [n for n in ast.walk(fn) if isinstance(n, ast.Name) and n.id == L.name and isinstance(n.ctx, ast.Load)]
                    inside = [n for n in ast.walk(it) if isinstance(n, ast.Name) and n.id == L.name and isinstance(n.ctx, ast.Load)]
                    ok = bool(uses) and len(uses) == len(inside) and all(consumed_within(u, it) for u in uses)
                if not ok:
                    what = "lambda" if isinstance(L, ast.Lambda) else "nested function %s" % L.name
                    self.flag(m, L, "late-binding", "%s:%s" % (fn.name, ",".join(sorted(cap))), "%s in %s reads %s, which the enclosing %s re-binds on every round, and it outlives the round (stored, returned or wrapped in a lazy map/filter): every copy will see the last value" % (what, fn.name, sorted(cap), "loop" if isinstance(it, (ast.For, ast.While, ast.AsyncFor)) else "comprehension"))
                    break

    # ---- 3. class-level mutable attributes -----------------------------------------------------------------------------
    def class_mutables(self, m, c):
        mut = {}
        for st in c.body:
            if isinstance(st, (ast.Assign, ast.AnnAssign)):
                v = st.value
                if v is None:
                    continue
                is_mut = isinstance(v, (ast.List, ast.Dict, ast.Set, ast.ListComp, ast.DictComp, ast.SetComp))
                if isinstance(v, ast.Call):
                    dn = _dotted(v.func)
                    is_mut = bool(dn) and dn[-1] in MUTABLE_CTORS
                if is_mut:
                    for t in (st.targets if isinstance(st, ast.Assign) else [st.target]):
                        if isinstance(t, ast.Name):
                            mut[t.id] = st
        if not mut:
            return
        self.n_sites += len(mut)
        init = next((s for s in c.body if isinstance(s, ast.FunctionDef) and s.name == "__init__"), None)
        own = set()  # attributes the constructor unconditionally gives the instance
        if init is not None:
            for st in init.body:
                if isinstance(st, (ast.Assign, ast.AnnAssign)):
                    for t in (st.targets if isinstance(st, ast.Assign) else [st.target]):
                        if isinstance(t, ast.Attribute) and isinstance(t.value, ast.Name) and t.value.id == "self":
                            own.add(t.attr)
                else:
                    # anything that may mutate before the assignment is examined below in order; stop at the first compound statement
                    if isinstance(st, (ast.If, ast.For, ast.While, ast.Try, ast.With)):
                        break

        def is_ref(n, name):
            if isinstance(n, ast.Attribute) and n.attr == name:
                b = n.value
                if isinstance(b, ast.Name) and b.id in ("self", "cls", c.name):
                    return True
                if isinstance(b, ast.Call) and isinstance(b.func, ast.Name) and b.func.id == "type":
                    return True
                if isinstance(b, ast.Attribute) and b.attr == "__class__":
                    return True
            return False

        for name, decl in mut.items():
            for meth in [s for s in c.body if isinstance(s, (ast.FunctionDef, ast.AsyncFunctionDef))]:
                for n in ast.walk(meth):
                    site = None
                    if isinstance(n, ast.Call) and isinstance(n.func, ast.Attribute) and n.func.attr in MUTATORS and is_ref(n.func.value, name):
                        site = "%s.%s(...)" % (name, n.func.attr)
                    elif isinstance(n, ast.AugAssign) and is_ref(n.target, name):
                        site = "%s %s= ..." % (name, type(n.op).__name__)
                    elif isinstance(n, (ast.Assign, ast.AugAssign, ast.Delete)):
                        tg = n.targets if isinstance(n, (ast.Assign, ast.Delete)) else [n.target]
                        for t in tg:
                            if isinstance(t, ast.Subscript) and is_ref(t.value, name):
                                site = "%s[...] store" % name
                    if site is None:
                        continue
                    via_self_only = True
                    if name in own and meth.name != "__init__":
                        continue  # the instance always has its own object
                    if name in own and meth.name == "__init__":
                        # inside the constructor: fine when the instance assignment comes first
                        first_own = next((s.lineno for s in init.body if isinstance(s, (ast.Assign, ast.AnnAssign)) and any(isinstance(t, ast.Attribute) and t.attr == name for t in (s.targets if isinstance(s, ast.Assign) else [s.target]))), None)
                        if first_own is not None and first_own < n.lineno:
                            continue
                    self.flag(m, n, "class-level-mutable", "%s.%s" % (c.name, name), "%s.%s is created once in the class body (line %d) and %s.%s mutates it in place (%s): all instances — and all runs in the process — share that object" % (c.name, name, decl.lineno, c.name, meth.name, site))

    # ---- driver -----------------------------------------------------------------------------------------------------------
    def run(self):
        for mn, m in sorted(self.p.modules.items()):
            for st in m.tree.body:
                if isinstance(st, (ast.FunctionDef, ast.AsyncFunctionDef)):
                    self.visit_fn(m, st, None)
                elif isinstance(st, ast.ClassDef):
                    g = group_of(m.relpath, st.name, None)
                    if g is None or g in self.groups:
                        self.class_mutables(m, st)
                    for s2 in st.body:
                        if isinstance(s2, (ast.FunctionDef, ast.AsyncFunctionDef)):
                            self.visit_fn(m, s2, st)

    def visit_fn(self, m, fn, cls):
        g = group_of(m.relpath, cls.name if cls else None, fn.name)
        if g is not None and g not in self.groups:
            return
        self.n_fn += 1
        self.one_shot(m, fn, cls)
        self.late_binding(m, fn)
        for n in ast.walk(fn):
            if n is not fn and isinstance(n, (ast.FunctionDef, ast.AsyncFunctionDef)):
                self.one_shot(m, n, cls)


class _Walk:
    """Worst-case number of consumptions of tracked one-shot iterators along the paths of a statement list."""

    def __init__(self, hz, m, cls, tracked, depth, report=False, fname=""):
        self.hz, self.m, self.cls, self.depth, self.report, self.fname = hz, m, cls, depth, report, fname
        self.count = dict(tracked)  # name -> consumptions so far on the current path
        self.peak = dict(tracked)
        self.discover = report  # in report mode, names bound to producers become tracked
        self.flagged = set()
        self.loop_depth = 0
        self.bound_depth = {k: 0 for k in tracked}  # loop nesting at which the iterator was created

    # -- expression: count consuming loads
    def use(self, name, node, times=1, why="used"):
        if name not in self.count:
            return
        self.count[name] += times
        self.peak[name] = max(self.peak.get(name, 0), self.count[name])
        if self.report and self.count[name] >= 2 and name not in self.flagged:
            self.flagged.add(name)
            self.hz.flag(self.m, node, "one-shot-iterator", "%s:%s" % (self.fname, name), "%s in %s is a one-shot iterator (generator / map / filter / zip / itertools object) and is %s a second time here: the second consumer sees it empty" % (name, self.fname, why))

    def expr(self, e, in_loop=False):
        if e is None:
            return
        hz = self.hz
        for n in self._walk_expr(e):
            if isinstance(n, ast.Name) and isinstance(n.ctx, ast.Load) and n.id in self.count:
                par = self._par.get(n)
                times, why = 1, "consumed"
                if isinstance(par, ast.Compare) and len(par.ops) == 1 and isinstance(par.ops[0], (ast.Is, ast.IsNot)):
                    continue  # identity test does not consume
                if isinstance(par, ast.Call) and isinstance(par.func, ast.Name) and par.func.id in ("len", "bool", "isinstance", "type", "id", "repr", "callable") and n in par.args:
                    continue  # asks about the object, does not iterate it (len() of a one-shot iterator is a TypeError, not a silent second pass)
                if isinstance(par, (ast.If, ast.While, ast.IfExp)) and par.test is n:
                    continue  # truth test
                if isinstance(par, ast.BoolOp) or (isinstance(par, ast.UnaryOp) and isinstance(par.op, ast.Not)):
                    continue  # truth test
                if isinstance(par, ast.Call) and n in par.args or (isinstance(par, ast.keyword)):
                    call = par if isinstance(par, ast.Call) else self._par.get(par)
                    if isinstance(call, ast.Call):
                        pf = hz.package_function(self.m, call.func, self.cls)
                        if pf is not None and self.depth < 3:
                            pc = hz.param_consumption(pf, self.depth + 1)
                            # which parameter?
                            pname = None
                            if isinstance(par, ast.keyword):
                                pname = par.arg
                            else:
                                idx = call.args.index(n)
                                ps = [p_ for p_ in pf.params if p_ not in ("self", "cls")] if (pf.cls is not None or pf.name == "__init__") else list(pf.params)
                                if pf.cls is not None and pf.params and pf.params[0] in ("self", "cls"):
                                    ps = pf.params[1:]
                                if idx < len(ps):
                                    pname = ps[idx]
                            if pname is not None and pname in pc:
                                times = max(1, pc[pname])
                                why = "handed to %s, which consumes its parameter %s %d times, and so used" % (pf.qualname.split(".")[-1], pname, pc[pname]) if pc[pname] > 1 else "consumed"
                if (in_loop and self.loop_depth > self.bound_depth.get(n.id, 0)) or self._repeated_in_comprehension(n):
                    times = max(times, 2)
                    why = "consumed inside a loop (once per round), that is"
                if isinstance(par, ast.Call) and isinstance(par.func, ast.Name) and par.func.id == "next":
                    continue  # advancing by one element is not using the iterator up
                self.use(n.id, n, times, why)

    def _repeated_in_comprehension(self, n):
        x = n
        while x in self._par:
            px = self._par[x]
            if isinstance(px, (ast.ListComp, ast.SetComp, ast.GeneratorExp, ast.DictComp)):
                if not (px.generators and self._inside(px.generators[0].iter, n)):
                    return True
            x = px
        return False

    @staticmethod
    def _inside(root, n):
        return any(c is n for c in ast.walk(root))

    def _walk_expr(self, e):
        self._par = getattr(self, "_par", {})
        out = []
        stack = [e]
        while stack:
            n = stack.pop()
            out.append(n)
            if isinstance(n, (ast.Lambda, ast.FunctionDef, ast.AsyncFunctionDef)):
                # a closure mentioning the iterator: count as a use of everything it loads
                for c in ast.walk(n):
                    if c is not n:
                        self._par.setdefault(c, n)
                        if isinstance(c, ast.Name):
                            out.append(c)
                continue
            for c in ast.iter_child_nodes(n):
                self._par[c] = n
                stack.append(c)
        return out

    # -- statements
    def block(self, stmts, in_loop=False):
        for st in stmts:
            if self.stmt(st, in_loop) == "dead":
                return "dead"
        return None

    def bind(self, target, value):
        """Assignment: a tracked name re-bound stops being tracked (or starts, when the value is a producer)."""
        if isinstance(target, ast.Name):
            if self.discover and value is not None and self.hz.producer(self.m, value, self.cls):
                self.count[target.id] = 0
                self.bound_depth[target.id] = self.loop_depth
                self.peak.setdefault(target.id, 0)
                self.flagged.discard(target.id)
                self.hz.n_sites += 1
            elif target.id in self.count and not (isinstance(value, ast.Name) and value.id == target.id):
                if self.report:
                    del self.count[target.id]
                else:
                    del self.count[target.id]
        elif isinstance(target, (ast.Attribute, ast.Subscript)) and value is not None:
            # stored in a field / collection: whoever reads the field later consumes it again
            if isinstance(value, ast.Name) and value.id in self.count:
                self.use(value.id, value, 1, "stored in %s (every later reader consumes it), that is, used" % ast.unparse(target)[:40])
            elif self.discover and self.hz.producer(self.m, value, self.cls) and isinstance(target, ast.Attribute):
                self.hz.flag(self.m, target, "one-shot-iterator", "%s:%s" % (self.fname, ast.unparse(target)[:40]), "%s is given a one-shot iterator (%s): the first reader uses it up" % (ast.unparse(target)[:40], ast.unparse(value)[:60]))

    def stmt(self, st, in_loop=False):
        if isinstance(st, (ast.FunctionDef, ast.AsyncFunctionDef, ast.ClassDef)):
            # a nested function that mentions a tracked iterator: one use
            for n in ast.walk(st):
                if isinstance(n, ast.Name) and isinstance(n.ctx, ast.Load) and n.id in self.count:
                    self.use(n.id, n, 1, "captured by the nested function %s and so used" % st.name)
                    break
            return None
        if isinstance(st, ast.Assign):
            self.expr(st.value, in_loop)
            for t in st.targets:
                if isinstance(t, (ast.Tuple, ast.List)):
                    for e in t.elts:
                        self.bind(e, None)
                else:
                    self.bind(t, st.value)
            return None
        if isinstance(st, ast.AnnAssign):
            self.expr(st.value, in_loop)
            self.bind(st.target, st.value)
            return None
        if isinstance(st, ast.AugAssign):
            self.expr(st.value, in_loop)
            return None
        if isinstance(st, ast.Expr):
            self.expr(st.value, in_loop)
            return None
        if isinstance(st, ast.Return):
            self.expr(st.value, in_loop)
            return "dead"
        if isinstance(st, ast.Raise):
            self.expr(st.exc, in_loop)
            return "dead"
        if isinstance(st, (ast.Continue, ast.Break)):
            return "dead" if not in_loop else None
        if isinstance(st, ast.If):
            if not (isinstance(st.test, ast.Name) or (isinstance(st.test, ast.UnaryOp) and isinstance(st.test.op, ast.Not) and isinstance(st.test.operand, ast.Name))):
                self.expr(st.test, in_loop)  # (`if xs:` / `if not xs:` asks whether there is anything, it does not iterate)
            before = dict(self.count)
            d1 = self.block(st.body, in_loop)
            after1 = dict(self.count)
            self.count = dict(before)
            d2 = self.block(st.orelse, in_loop)
            after2 = dict(self.count)
            if d1 == "dead" and d2 == "dead":
                return "dead"
            if d1 == "dead":
                self.count = after2
            elif d2 == "dead":
                self.count = after1
            else:
                self.count = {k: max(after1.get(k, 0), after2.get(k, 0)) for k in set(after1) & set(after2)}
            return None
        if isinstance(st, (ast.For, ast.AsyncFor)):
            self.expr(st.iter, in_loop)
            self.loop_depth += 1
            self.block(st.body, True)
            self.loop_depth -= 1
            self.block(st.orelse, in_loop)
            return None
        if isinstance(st, ast.While):
            self.loop_depth += 1
            self.expr(st.test, True)
            self.block(st.body, True)
            self.loop_depth -= 1
            self.block(st.orelse, in_loop)
            return None
        if isinstance(st, (ast.With, ast.AsyncWith)):
            for it in st.items:
                self.expr(it.context_expr, in_loop)
            return self.block(st.body, in_loop)
        if isinstance(st, ast.Try):
            before = dict(self.count)
            self.block(st.body, in_loop)
            after = dict(self.count)
            for h in st.handlers:
                self.count = dict(after)
                self.block(h.body, in_loop)
                after = {k: max(after.get(k, 0), self.count.get(k, 0)) for k in set(after) | set(self.count)}
            self.count = after
            self.block(st.orelse, in_loop)
            self.block(st.finalbody, in_loop)
            return None
        if isinstance(st, ast.Delete):
            return None
        for n in ast.iter_child_nodes(st):
            if isinstance(n, ast.expr):
                self.expr(n, in_loop)
        return None


def check(ctx, rep, cl):
    groups = GROUPS_OF.get(cl, ALL)
    hz = Hazards(ctx, rep, cl, groups)
    hz.run()
    rep.ob(cl + ".language-hazard-scan", "package", hz.n_fn >= 1, "functions scanned (groups %s): %d; iterator bindings, closures in loops and class-level mutables examined: %d; hazards: %d" % (sorted(groups), hz.n_fn, hz.n_sites, hz.found), "", nontrivial=False)
    rep.stat("language_hazard_functions", hz.n_fn)
    return hz.found
