"""Rules over replace_matching_item (the per-line secret stage) and the logging sinks."""
import ast

from .flow import show, subterms, strip_mut, walk_effects
from .source import AnalysisError
from .fold import Unfoldable
from .calls import bind_args
from . import match as M
from .secret_flow import W

LOG_LEVELS = {"debug": 10, "info": 20, "warning": 30, "warn": 30, "error": 40, "exception": 40, "critical": 50, "fatal": 50}


class RMI:
    def __init__(self, ctx):
        p = ctx.p
        self.ctx = ctx
        self.fn = fn = p.find_function("replace_matching_item")
        if len(fn.params) < 5:
            raise AnalysisError("replace_matching_item signature changed: %s" % fn.params)
        self.regexes, self.line, self.lookup, self.salt, self.reserved = [("param", x) for x in fn.params[:5]]
        # the helpers are referred to through the module that defines them (they may live in another module of the package and be imported)
        f_sp, f_ex = p.find_function("_split_line"), p.find_function("_extract_enclosing_text")
        self.SPLIT = ("call", ("global", f_sp.module.name, f_sp.name), (self.line,), ())
        joined = ("call", ("attr", ("const", " "), "join"), (("sub", self.SPLIT, ("const", 1)),), ())
        self.EXT = ("call", ("global", f_ex.module.name, f_ex.name), (joined, ("sub", self.SPLIT, ("const", 0)), ("sub", self.SPLIT, ("const", 2))), ())
        self.fp = ctx.A.paths(fn)


def check_rmi(ctx, rep, cl):
    r = RMI(ctx)
    fn, fp = r.fn, r.fp
    rep.analysed(fn)
    p = ctx.p
    f_av = p.find_function("_anonymize_value")
    out = {"template_sub": [], "identity_stop": False}
    for path in fp.paths:
        w = W(fn, path.result[2] if path.result else fn.node)
        if path.kind != "return" or path.conds:
            rep.fail(cl + ".line-shape", fn.name, "unrecognised control flow at function level: %s %s" % (path.kind, path.describe()[:120]), w)
            continue
        ret = path.returned()
        parts = M.concat_parts(ret)
        loops = [e.a for e in path.effects if e.kind == "loop"]
        ok = len(parts) == 3 and parts[0] == ("sub", r.EXT, ("const", 0)) and parts[2] == ("sub", r.EXT, ("const", 2)) and len(loops) == 1 and parts[1] == ("loopout", "output_line", loops[0].uid) or False
        if not ok and len(parts) == 3 and len(loops) == 1 and parts[1][0] == "loopout" and parts[1][2] == loops[0].uid:
            ok = parts[0] == ("sub", r.EXT, ("const", 0)) and parts[2] == ("sub", r.EXT, ("const", 2))
        rep.ob(cl + ".line-reassembled", fn.name, ok,
               "returns %s; expected leading + <substituted collapsed line> + trailing with leading/trailing = outer whitespace plus enclosing text, from _extract_enclosing_text(' '.join(words), leading, trailing) of _split_line(input)" % show(ret)[:260], w,
               key=cl + ".line-reassembled|replace_matching_item")
        if len(loops) != 1:
            rep.fail(cl + ".group-loop", fn.name, "expected one loop over the pattern groups, found %d" % len(loops), w)
            continue
        outer = loops[0]
        rep.ob(cl + ".group-loop", fn.name, outer.iter == r.regexes, "outer loop iterates %s; expected every pattern group, in order" % show(outer.iter), W(fn, outer.node))
        linevar = None
        for n, (pre, posts) in outer.carried.items():
            if pre == ("sub", r.EXT, ("const", 1)):
                linevar = n
        rep.ob(cl + ".working-line", fn.name, linevar is not None, "the working line starts as the stripped, collapsed input (%s)" % {n: show(v[0])[:80] for n, v in outer.carried.items()}, W(fn, outer.node))
        inner_loops = set()
        for bp in outer.body_paths:
            for e in bp.effects:
                if e.kind == "loop":
                    inner_loops.add(e.a)
        if len({l.uid for l in inner_loops}) != 1:
            rep.fail(cl + ".pattern-loop", fn.name, "expected one inner loop over the patterns of a group", W(fn, outer.node))
            continue
        inner = list(inner_loops)[0]
        gvar = ("loopvar", outer.uid, outer.iter, ())
        rep.ob(cl + ".pattern-loop", fn.name, inner.iter == gvar, "inner loop iterates %s; expected every pattern of the group" % show(inner.iter), W(fn, inner.node))
        rx_t = ("loopvar", inner.uid, inner.iter, (0,))
        idx_t = ("loopvar", inner.uid, inner.iter, (1,))
        # the working line inside the pattern loop: the carried variable that starts as the outer loop's working line
        inner_line = None
        for n2, (pre2, posts2) in inner.carried.items():
            if linevar and pre2 == ("carried", linevar, outer.uid):
                inner_line = n2
        cur = ("carried", inner_line, inner.uid) if inner_line else None
        rep.ob(cl + ".inner-working-line", fn.name, inner_line is not None, "the pattern loop works on the outer loop's current line (%s)" % {n2: show(v[0])[:50] for n2, v in inner.carried.items()}, W(fn, inner.node), nontrivial=False)
        search = ("call", ("attr", rx_t, "search"), (cur,), ())
        kinds = {"skip": 0, "scrub": 0, "replace": 0}
        flagvar = None
        for bp in inner.body_paths:
            wb = W(fn, inner.node)
            subs = [e for e in bp.effects if e.kind == "call" and e.a[1][0] == "attr" and e.a[1][2] in ("sub", "subn")]
            isnone = bp.truth(("compare", ("is",), (search, ("const", None))))
            if isnone is True:
                kinds["skip"] += 1
                rep.ob(cl + ".no-match-no-change", fn.name, not subs and bp.env.get(inner_line) == cur, "a pattern that does not match leaves the line unchanged", wb, nontrivial=False)
                continue
            if isnone is None:
                rep.fail(cl + ".match-test", fn.name, "inner path does not test `pattern.search(line) is None`: %s" % bp.describe()[:160], wb)
                continue
            scrub = bp.truth(("compare", ("is",), (idx_t, ("const", None))))
            if scrub is None and bp.truth(idx_t) is not None:
                # `if not index:` - the same test as long as no pattern uses group 0 (folded table)
                try:
                    from . import pwdtable as _pt
                    from .report import Report as _R
                    _pfx, _grps = _pt.load(ctx, _R("scratch", quiet=True), "scratch")
                    if all(pt.idx is None or pt.idx >= 1 for g_ in _grps for pt in g_):
                        scrub = not bp.truth(idx_t)
                except AnalysisError:
                    pass
            if len(subs) != 1:
                rep.fail(cl + ".one-substitution", fn.name, "matching path performs %d substitutions" % len(subs), wb)
                continue
            s = subs[0]
            wb = W(fn, s.node)
            ns = M.norm_sub(s.a)
            ok_recv = ns is not None and ns[0] == rx_t and ns[2] == cur and ns[3] is None
            rep.ob(cl + ".substitution-target", fn.name, ok_recv, "substitution %s; expected <the pattern that matched>.sub(<replacement>, <current line>) over all matches (no count)" % show(s.a)[:200], wb, key=cl + ".substitution-target|replace_matching_item")
            rep.ob(cl + ".substitution-assigned", fn.name, bp.env.get(inner_line) == s.a, "the substituted text becomes the working line", wb, nontrivial=False)
            repl = ns[1] if ns is not None else (s.a[2][0] if s.a[2] else None)
            if scrub is True:
                kinds["scrub"] += 1
                okc = False
                val = None
                if repl is not None and repl[0] == "global":
                    try:
                        val = ctx.folder.module_const(repl[1], repl[2])
                    except Unfoldable:
                        val = None
                elif repl is not None and repl[0] == "const":
                    val = repl[1]
                elif repl is not None and repl[0] == "lambda" and len(repl[2]) == 1 and repl[3][0] == "const" and isinstance(repl[3][1], str):
                    val = repl[3][1].replace("\\", "")  # a function returning a constant: inserted verbatim, nothing matched is copied
                okc = isinstance(val, str) and "\\" not in val
                rep.ob(cl + ".scrub-constant", fn.name, okc, "index-less patterns are replaced by %r; must be a constant without backslash / group reference (nothing matched is copied)" % (val if val is not None else show(repl),), wb, key=cl + ".scrub-constant|replace_matching_item")
                rep.ob(cl + ".scrub-stops", fn.name, bp.kind == "break", "after scrubbing the search stops", wb, nontrivial=False)
                continue
            if scrub is None:
                rep.fail(cl + ".index-test", fn.name, "matching path does not test the secret index for None", wb)
                continue
            kinds["replace"] += 1
            # replacement value
            m = search
            callable_repl = False
            body = repl
            if repl is not None and repl[0] == "lambda":
                callable_repl = True
                body = repl[3]
            pfx = ("ifexp", ("compare", ("in",), (("const", "prefix"), ("call", ("attr", m, "groupdict"), (), ()))), ("call", ("attr", m, "group"), (("const", "prefix"),), ()), ("const", ""))
            av_call = ("call", ("global", f_av.module.name, f_av.name), (("call", ("attr", m, "group"), (idx_t,), ()), r.lookup, r.reserved, r.salt), ())
            want = ("binop", "+", pfx, av_call)
            has_pfx = bp.truth(pfx[1])
            forked = (has_pfx is True and body == ("binop", "+", pfx[2], av_call)) or (has_pfx is False and body == ("binop", "+", pfx[3], av_call))
            rep.ob(cl + ".replacement-value", fn.name, body == want or forked,
                   "replacement is %s; expected prefix-group text (or '') + _anonymize_value(match.group(index), lookup, reserved_words, salt)" % show(body)[:260], wb, key=cl + ".replacement-value|replace_matching_item")
            if not callable_repl:
                out["template_sub"].append((s, wb))
        rep.ob(cl + ".inner-path-kinds", fn.name, all(v >= 1 for v in kinds.values()), "inner loop paths: %s" % kinds, W(fn, inner.node), nontrivial=False)
        # stop rule: the outer loop breaks iff the flag set on every matching path is true
        for n, (pre, posts) in inner.carried.items():
            if pre == ("const", False) and ("const", True) in posts:
                flagvar = n
        brk = [bp for bp in outer.body_paths if bp.kind == "break"]
        okstop = flagvar is not None and len(brk) >= 1 and all(bp.truth(("loopout", flagvar, inner.uid)) is True for bp in brk)
        rep.ob(cl + ".first-matching-group-wins", fn.name, okstop, "the group loop stops exactly when some pattern of the group matched (flag %s)" % flagvar, W(fn, outer.node))
        # does the flag get set on a path where nothing may have been replaced?
        f_paths = ctx.A.paths(f_av).paths
        identity = [pp for pp in f_paths if pp.feasible() and pp.kind == "return" and pp.returned() == ("param", f_av.mparams[0])]
        out["identity_stop"] = bool(identity) and flagvar is not None
        from .secret_flow import AV
        av = AV(ctx)
        kinds = set()
        for pp in identity:
            if pp.truth(("compare", ("in",), (av.V, av.reserved))) is True:
                kinds.add("value-is-reserved-word")
            elif pp.truth(av.V) is False:
                kinds.add("value-empty")
            else:
                kinds.add("other:" + pp.describe()[:80])
        out["identity_conds"] = sorted(kinds)
    return r, out


def logging_sinks(ctx, rep, cl, functions, secret_params):
    """Every logging call of level >= INFO in `functions`: arguments must be free of line / secret text.

    secret_params: {function qualname suffix: set of parameter names carrying line or secret text}"""
    G, A = ctx.G, ctx.A
    n = 0
    for f in functions:
        tainted = secret_params.get(f.name, set())
        fp = A.paths(f)
        for e, ls, path in fp.all_effects():
            if e.kind != "call":
                continue
            names = [t[1] for t in G.resolve_callee(e.a[1], f) if t[0] == "ext"]
            lvl = None
            for nm in names:
                if nm.startswith("logging."):
                    meth = nm.split(".")[-1]
                    if meth in LOG_LEVELS:
                        lvl = LOG_LEVELS[meth]
                    elif meth == "log":
                        a0 = e.a[2][0] if e.a[2] else None
                        lvl = a0[1] if a0 is not None and a0[0] == "const" and isinstance(a0[1], int) else 100
            if lvl is None and e.a[1][0] == "attr" and e.a[1][2] in LOG_LEVELS and "log" in show(e.a[1][1]).lower():
                lvl = LOG_LEVELS[e.a[1][2]]
            if lvl is None:
                if names and any(nm in ("builtins.print", "sys.stdout.write", "sys.stderr.write", "warnings.warn") for nm in names):
                    lvl = 100
                else:
                    continue
            n += 1
            if lvl < 20:
                continue
            args = list(e.a[2][1:] if not (names and names[0].endswith(".log")) else e.a[2][2:]) + [v for k, v in e.a[3] if k not in ("exc_info", "stack_info", "stacklevel")]
            fmt = e.a[2][0] if e.a[2] else None
            args_all = ([fmt] if fmt is not None and fmt[0] != "const" else []) + args
            bad = []
            for a in args_all:
                # the per-run lookup holds the secrets themselves (its keys): anything computed from it other than its size is secret-derived
                if not (M.builtin_call(a, "len", 1) and a[2][0][0] == "attr" and a[2][0][2] == "pwd_lookup"):
                    for s in subterms(a):
                        if s[0] == "attr" and s[2] == "pwd_lookup":
                            bad.append("the secret lookup " + show(s))
                for s in subterms(a):
                    if s[0] == "param" and s[1] in tainted:
                        bad.append(show(s))
                    elif s[0] in ("exc",):
                        bad.append("exception text " + show(s))
                    elif s[0] in ("loopvar", "carried", "loopout", "bound") and f.name in ("replace_matching_item", "anonymize_io", "_anonymize_value", "_extract_enclosing_text", "anonymize", "_anonymize_match"):
                        # loop-carried line text; allow `.pattern` of a compiled regex
                        if not (a[0] == "attr" and a[2] == "pattern"):
                            bad.append(show(s))
                    elif s[0] == "call" and M.callee_name(s) in ("group", "groups", "groupdict", "_extract_enclosing_text", "juniper_decrypt", "readlines", "readline", "read"):
                        bad.append(show(s)[:60])
            rep.ob(cl + ".log-secret-free", "%s:%s" % (f.name, e.a[1][2] if e.a[1][0] == "attr" else "log"), not bad,
                   "logging call at level %s with arguments derived from line/secret text: %s (%s)" % (lvl, sorted(set(bad)), show(e.a)[:120]), W(f, e.node),
                   key="%s.log-secret-free|%s" % (cl, f.name))
    return n
