"""The format classifier (_check_sensitive_item_format) as an ordered list of
regular languages, and language facts about classes and encoder outputs."""
import ast

from . import rx, specs
from .rx import CharSet, RxError, cat, alt, lit, plus, star, opt, cset
from .rx import rep as rrep
from .flow import show
from .source import AnalysisError
from .secret_flow import W
from . import match as M

B64 = cset("./0-9A-Za-z")


def load(ctx):
    """Return (fn, tests, outcomes): tests = ordered list of (pattern text, match mode); outcomes =
    [(class name, {test index: truth})] one per feasible path.  Works for any decision structure
    over re.match(<literal>, val) tests (overwrite chain, early returns, elif ladder ...)."""
    p, A, G = ctx.p, ctx.A, ctx.G
    fn = p.find_function("_check_sensitive_item_format")
    val = ("param", fn.mparams[0])
    fp = A.paths(fn)
    tests = []
    outcomes = []
    for path in fp.paths:
        if not path.feasible():
            continue
        if path.kind != "return":
            raise AnalysisError("classifier has a non-returning path")
        r = path.returned()
        if not (r[0] == "attr" and r[1][0] == "global" and r[1][2] == "_sensitive_item_formats"):
            raise AnalysisError("classifier returns %s" % show(r))
        vec = {}
        for t, pol in path.atoms():
            if t[0] == "boolop":
                continue
            if t[0] == "compare" and t[1] == ("is",) and t[2][1] == ("const", None):
                t, pol = t[2][0], not pol  # `re.match(...) is None`
            pat = mode = None
            if t[0] == "call" and t[1][0] == "attr" and t[1][2] in ("match", "fullmatch", "search"):
                recv = t[1][1]
                if M.is_call(recv) and M.callee_name(recv) == "compile" and len(recv[2]) == 1 and not recv[3] and recv[2][0][0] == "const" and t[2] == (val,) and not t[3]:
                    pat, mode = recv[2][0][1], t[1][2]  # re.compile(P).match(val)
                elif len(t[2]) == 2 and not t[3] and t[2][0][0] == "const" and t[2][1] == val:
                    pat, mode = t[2][0][1], t[1][2]  # re.match(P, val)
            if pat is None or not isinstance(pat, str):
                raise AnalysisError("classifier test %s is not re.match(<literal>, val) / re.compile(<literal>).match(val)" % show(t))
            key = (pat, mode)
            if key not in tests:
                tests.append(key)
            vec[tests.index(key)] = pol
            continue
            key = (t[2][0][1], t[1][2])
            if key not in tests:
                tests.append(key)
            vec[tests.index(key)] = pol
        outcomes.append((r[2], vec))
    if not tests or not outcomes:
        raise AnalysisError("classifier structure not recognised")
    return fn, tests, outcomes


def _full_language(text, mode):
    """Language of strings on which re.match(text, s) succeeds and, given the trailing $, spans the string."""
    tree, info = rx.parse(text, 0)
    items = rx.top_items(tree)
    anchored_end = False
    anchored_start = False
    while items and items[0][0] == "bol":
        items = items[1:]
        anchored_start = True
    while items and items[-1][0] in ("eol", "eos"):
        items = items[:-1]
        anchored_end = True
    body = rx.cat(*items)
    if rx.has_zero_width(body):
        raise RxError("interior zero-width assertion in classifier pattern")
    if not anchored_end and mode != "fullmatch":
        body = rx.cat(body, rx.star(rx.ANYCHAR))
    if mode == "search" and not anchored_start:
        body = rx.cat(rx.star(rx.ANYCHAR), body)  # re.search finds the pattern anywhere; with a leading ^ (no MULTILINE) it is re.match
    return body, anchored_end


def class_languages(tests, outcomes, extra_nodes=()):
    """Return (alphabet, {class: DFA of strings classified so}, [per-test DFA], anchored flags)."""
    bodies = []
    anchored = []
    for text, mode in tests:
        b, a = _full_language(text, mode)
        bodies.append(b)
        anchored.append(a)
    alpha = rx.Alphabet(rx.collect_sets(*bodies) + rx.collect_sets(*extra_nodes) + [CharSet.full()])
    T = [rx.DFA.from_ast(b, alpha) for b in bodies]
    NT = [t.complement() for t in T]
    ALL = rx.DFA.from_ast(rx.star(rx.ANYCHAR), alpha)
    langs = {}
    for k, vec in outcomes:
        L = ALL
        for i, pol in sorted(vec.items()):
            L = L & (T[i] if pol else NT[i])
        langs[k] = (langs[k] | L) if k in langs else L
    return alpha, langs, T, anchored


def hex_of_ascii(prefix):
    """Language of b2a_hex((prefix + decimal counter).encode()).decode()"""
    node = lit("".join("%02x" % ord(c) for c in prefix))
    return cat(node, plus(cat(lit("3"), cset("0-9"))))


def check(ctx, rep, cl, base_fmt="netconanRemoved{}"):
    try:
        fn, tests, outcomes = load(ctx)
    except AnalysisError as e:
        f = ctx.p.find_function("_check_sensitive_item_format")
        rep.fail(cl + ".classifier-structure", f.name, str(e), W(f), key=cl + ".classifier-structure|_check_sensitive_item_format")
        return None
    rep.analysed(fn)
    w = W(fn)
    rep.sample({"classifier_tests": tests, "decision_paths": len(outcomes)})
    prefix = base_fmt.replace("{}", "")
    D = cset("0-9")
    HEXC = cset("0-9a-fA-F")
    jun_alpha = None
    try:
        na = ctx.folder.module_const("netconan.utils.juniper_secrets", "NUM_ALPHA")
        jun_alpha = ("set", CharSet.of("".join(na)))
    except Exception:
        pass
    # specification languages of INPUT secrets per class (from the property's quantifier), and encoder OUTPUT languages (contracts)
    spec_in = {
        "numeric": plus(D),
        "md5": cat(lit("$1$"), rrep(B64, 1, 8), lit("$"), rrep(B64, 22, 22)),
        "sha512": cat(lit("$6$"), opt(cat(lit("rounds="), plus(D), lit("$"))), rrep(B64, 1, 16), lit("$"), rrep(B64, 86, 86)),
        "cisco_type7": cat(alt(cat(lit("0"), D), cat(lit("1"), cset("0-5"))), plus(cat(cset("0-9A-F"), cset("0-9A-F")))),
    }
    if jun_alpha is not None:
        spec_in["juniper_type9"] = cat(lit("$9$"), rrep(jun_alpha, 4, None))
    out = {
        "numeric": cat(cset("1-9"), star(D)),
        "hexadecimal": hex_of_ascii(prefix),
        "text": cat(lit(prefix), plus(D)),
        "md5": cat(lit("$1$"), rrep(lit("0"), 1, 8), lit("$"), rrep(B64, 22, 22)),
        "sha512": cat(lit("$6$"), rrep(B64, 1, 16), lit("$"), rrep(B64, 86, 86)),
    }
    if jun_alpha is not None:
        out["juniper_type9"] = cat(lit("$9$"), rrep(jun_alpha, 4, None))
    try:
        alpha, langs, T, anchored = class_languages(tests, outcomes, list(spec_in.values()) + list(out.values()))
    except RxError as e:
        rep.fail(cl + ".classifier-patterns", fn.name, "classifier pattern not analysable: %s" % e, w)
        return None
    for (text, mode), a in zip(tests, anchored):
        rep.ob(cl + ".classifier-anchored", "%s:%s" % (fn.name, text), a or mode == "fullmatch", "test %r is anchored at the end ($): a prefix match would misclassify longer values" % (text,), w, key="%s.classifier-anchored|%s" % (cl, text))
    rep.stat("classifier_dfa_states", {k: d.nstates() for k, d in langs.items()})
    for k, node in spec_in.items():
        S = rx.DFA.from_ast(node, alpha)
        target = langs.get(k)
        if target is None:
            rep.fail(cl + ".class-recognised", k, "no classifier test yields class %s" % k, w, key="%s.class-recognised|%s" % (cl, k))
            continue
        if k == "cisco_type7" and "numeric" in langs:
            target = target | langs["numeric"]  # an all-digit type-7 string is numeric by the documented order
        miss = S - target
        ws = miss.shortest(2)
        rep.ob(cl + ".class-recognised", k, miss.is_empty(), "well-formed %s secrets not classified as %s (so they would lose their format): %r" % (k, k, ws), w, witness=ws[0] if ws else None, key="%s.class-recognised|%s" % (cl, k))
    for k, node in out.items():
        O = rx.DFA.from_ast(node, alpha)
        target = langs.get(k)
        if target is None:
            rep.fail(cl + ".output-reclassified", k, "class %s has no language" % k, w)
            continue
        miss = O - target
        ws = miss.shortest(2)
        rep.ob(cl + ".output-reclassified", k, miss.is_empty(), "replacement strings of class %s that the classifier would put in another class: %r" % (k, ws), w, witness=ws[0] if ws else None, key="%s.output-reclassified|%s" % (cl, k))
    # md5 class => at least two '$' after the first field: val.split('$')[2] exists
    if "md5" in langs:
        nd = ("set", CharSet.of("$").complement())
        two = rx.DFA.from_ast(cat(star(nd), lit("$"), star(nd), lit("$"), star(rx.ANYCHAR)), alpha)
        miss = langs["md5"] - two
        rep.ob(cl + ".md5-has-salt-field", fn.name, miss.is_empty(), "every value classified md5 has at least three '$'-separated fields, so split('$')[2] exists (%r)" % miss.shortest(1), w, key=cl + ".md5-has-salt-field|_check_sensitive_item_format")
    rep.note("type-7 replacement (09 + hex pairs) consisting of decimal digits only would be re-classified numeric: depends on hash values, not decided")
    return fn, tests, langs, alpha
