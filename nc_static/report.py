"""Verdict protocol, evidence files, known findings."""
import json
import os
import sys
import time

VERIF = os.path.dirname(os.path.dirname(os.path.abspath(__file__)))
EVIDENCE_DIR = os.path.join(VERIF, "evidence")
REPLAY_DIR = os.path.join(EVIDENCE_DIR, "replay")
KNOWN_FILE = os.path.join(VERIF, "known_findings.json")


def load_known():
    try:
        with open(KNOWN_FILE) as fh:
            data = json.load(fh)
    except FileNotFoundError:
        return [], []
    return data.get("known", []), data.get("fixed", [])


class Report:
    def __init__(self, pid, tier="quick", seed=0, quiet=False):
        self.pid = pid
        self.tier = tier
        self.seed = seed
        self.t0 = time.time()
        self.obligations = []  # dicts
        self.violations = []  # dicts with key
        self.notes = []
        self.samples = []
        self.stats = {}
        self.trusted = []
        self.assumptions = []
        self.explanation = ""
        self.rule = ""
        self.quiet = quiet
        self.functions = set()
        self.callsites = 0
        self._seen = set()

    # ------------------------------------------------------------------
    def ob(self, clause, construct, ok, detail="", where="", witness=None, key=None, nontrivial=True):
        """Record one obligation (rule instance).  ok=False makes it a violation.

        `key` identifies the finding independent of line numbers:
        defaults to clause|construct."""
        rec = {
            "clause": clause,
            "construct": construct,
            "ok": bool(ok),
            "detail": detail,
            "where": where,
            "nontrivial": bool(nontrivial),
        }
        if witness is not None:
            rec["witness"] = witness
        sig = (clause, construct, bool(ok), detail, where)
        if sig in self._seen:
            return bool(ok)
        self._seen.add(sig)
        self.obligations.append(rec)
        if not ok:
            v = dict(rec)
            v["key"] = key or "%s|%s" % (clause, construct)
            self.violations.append(v)
        return bool(ok)

    def fail(self, clause, construct, detail, where="", witness=None, key=None):
        return self.ob(clause, construct, False, detail, where, witness, key)

    def note(self, text):
        self.notes.append(text)

    def sample(self, obj):
        if len(self.samples) < 40:
            self.samples.append(obj)

    def stat(self, k, v):
        self.stats[k] = v

    def trust(self, *rows):
        for r in rows:
            if r not in self.trusted:
                self.trusted.append(r)

    def assume(self, *rows):
        for r in rows:
            if r not in self.assumptions:
                self.assumptions.append(r)

    def analysed(self, fn):
        self.functions.add(getattr(fn, "qualname", str(fn)))

    # ------------------------------------------------------------------
    def finish(self, out=sys.stdout, write=True):
        known, fixed = load_known()
        known_for = [k for k in known if k.get("property") == self.pid]
        new, old = [], []
        for v in self.violations:
            hit = None
            for k in known_for:
                if k.get("key") == v["key"]:
                    hit = k
                    break
            if hit is not None:
                old.append((v, hit))
            else:
                new.append(v)
        seen_known = set()
        for v, k in old:
            if k["key"] in seen_known:
                continue
            seen_known.add(k["key"])
            print("KNOWN-FINDING: property=%s %s [%s]" % (self.pid, k.get("what", v["detail"]), k["key"]), file=out)
        replay_path = os.path.join(REPLAY_DIR, "%s.json" % self.pid)
        if not write:
            return 1 if new else 0
        os.makedirs(REPLAY_DIR, exist_ok=True)
        if new:
            with open(replay_path, "w") as fh:
                json.dump({"property": self.pid, "tier": self.tier, "violations": new}, fh, indent=1, default=str)
            for v in new:
                print(
                    "  violated: %s  construct=%s  at %s\n      %s%s"
                    % (v["clause"], v["construct"], v.get("where", ""), v["detail"],
                       ("\n      witness: %r" % (v["witness"],)) if "witness" in v else ""),
                    file=out,
                )
            print("VIOLATION property=%s replay=%s" % (self.pid, replay_path), file=out)
        else:
            try:
                os.remove(replay_path)
            except OSError:
                pass
        self._write_evidence(new, old)
        if not self.quiet:
            n = len(self.obligations)
            d = sum(1 for o in self.obligations if o["ok"])
            print("%s [%s]: %d obligations, %d discharged, %d new violation(s), %d known finding(s); %.2fs"
                  % (self.pid, self.tier, n, d, len(new), len(seen_known), time.time() - self.t0), file=out)
        return 1 if new else 0

    def _write_evidence(self, new, old):
        os.makedirs(EVIDENCE_DIR, exist_ok=True)
        n = len(self.obligations)
        d = sum(1 for o in self.obligations if o["ok"])
        distinct = len({(o["clause"], o["construct"]) for o in self.obligations if o["nontrivial"]})
        samples = list(self.samples)
        for o in self.obligations[:12]:
            samples.append({"obligation": o["clause"], "construct": o["construct"], "ok": o["ok"], "detail": o["detail"][:300]})
        cov = {
            "explanation": self.explanation,
            "rule": self.rule,
            "obligations": n,
            "discharged": d,
            "evaluations": n,
            "distinct_nontrivial": distinct,
            "samples": samples,
            "checker_cmd": "./check %s --tier %s" % (self.pid, self.tier),
            "trusted_base": self.trusted,
            "functions_analysed": sorted(self.functions),
            "exhaustive": False,
            "clauses": sorted({o["clause"] for o in self.obligations}),
            "known_findings_reported": sorted({k["key"] for _, k in old}),
            "new_violations": [v["key"] for v in new],
            "notes": self.notes[:60],
        }
        cov.update(self.stats)
        ev = {
            "property_id": self.pid,
            "tier": self.tier,
            "seed": int(self.seed),
            "level": "other",
            "coverage": cov,
            "assumptions": self.assumptions,
            "wall_s": round(time.time() - self.t0, 3),
            "violations": len(new),
        }
        path = os.path.join(EVIDENCE_DIR, "%s.json" % self.pid)
        tmp = path + ".tmp%d" % os.getpid()
        with open(tmp, "w") as fh:
            json.dump(ev, fh, indent=1, default=str)
        os.replace(tmp, path)
