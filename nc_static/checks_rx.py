"""C06 (address recognition in text) and C11 (AS numbers): regular-language decisions
on the folded patterns plus the substitution plumbing."""
import ast
import re

from . import rx, specs
from .rx import CharSet, RxError
from .fold import Rx, Unfoldable
from .flow import show, subterms, walk_effects
from .source import AnalysisError
from .calls import bind_args
from . import match as M
from .ipmodel import IpModel, where, SELF

IPMOD = "netconan.ip_anonymization"


def _pattern(ctx, modname, name):
    v = ctx.folder.need_module_const(modname, name)
    if not isinstance(v, Rx):
        raise AnalysisError("%s.%s does not fold to a compiled pattern (%r)" % (modname, name, type(v)))
    return v


def _ctx_clause(rep, cl, construct, ctxobj, side, T, delim, loc):
    """Context = line boundary or a delimiter; never a token character."""
    if ctxobj is None:
        rep.fail(cl + ".context-%s" % side, construct, "pattern has no %s context look-around" % side, loc, key="%s.context-%s|%s" % (cl, side, construct))
        return False
    ok = True
    ok &= rep.ob(cl + ".context-%s-boundary" % side, construct, ctxobj.bol, "%s context admits the line boundary" % side, loc)
    inter = ctxobj.chars & T
    ok &= rep.ob(cl + ".context-%s-excludes-token-chars" % side, construct, not inter,
                 "%s context %s intersects the token alphabet in %s: an address glued to such a character would be rewritten / a match could be a proper part of a token" % (side, ctxobj.chars.describe(), inter.describe()), loc,
                 witness=inter.sample() if inter else None, key="%s.context-%s-excludes-token-chars|%s" % (cl, side, construct))
    missing = delim - ctxobj.chars
    ok &= rep.ob(cl + ".context-%s-admits-delimiters" % side, construct, not missing,
                 "%s context misses delimiter characters %s (whitespace/punctuation must delimit an address)" % (side, missing.describe()), loc,
                 witness=missing.sample() if missing else None, key="%s.context-%s-admits-delimiters|%s" % (cl, side, construct))
    ok &= rep.ob(cl + ".context-%s-simple" % side, construct, not ctxobj.other, "%s context has only single-character / boundary alternatives (%s)" % (side, ctxobj.other), loc)
    return ok


def _ipv4(ctx, rep, cl):
    r4 = _pattern(ctx, IPMOD, "IPv4_PATTERN")
    loc = "netconan/ip_anonymization.py (IPv4_PATTERN)"
    try:
        # the pattern has no letters: it needs no flag, and IGNORECASE is not neutral here — under it the letter ranges of the enclosing-character
        # classes also cover the characters that case-fold into them (U+0131, U+017F, U+212A), so an address next to one of those is not a token
        rep.ob(cl + ".ipv4-flags", "IPv4_PATTERN", int(r4.flags or 0) & ~int(re.UNICODE) == 0, "IPv4_PATTERN is compiled with flags %r; expected none" % (r4.flags,), loc, key=cl + ".ipv4-flags|IPv4_PATTERN")
        tree, info = rx.parse(r4.pattern, r4.flags)
    except RxError as e:
        rep.fail(cl + ".ipv4-parse", "IPv4_PATTERN", "pattern not analysable: %s" % e, loc)
        return None
    tree = rx.drop_vacuous(tree)
    L, body, R = rx.split_context(tree)
    delim = specs.delimiters_cached("T4", specs.T4)
    _ctx_clause(rep, cl + ".ipv4", "IPv4_PATTERN", L, "left", specs.T4, delim, loc)
    _ctx_clause(rep, cl + ".ipv4", "IPv4_PATTERN", R, "right", specs.T4, delim, loc)
    if rx.has_zero_width(body):
        rep.fail(cl + ".ipv4-body", "IPv4_PATTERN", "body still contains a non-vacuous zero-width assertion", loc)
        return None
    alpha, (B, S, A4) = rx.languages([body, specs.SPEC4, specs.ACCEPT4], extra_sets=[specs.T4])
    used = B.used_alphabet()
    rep.ob(cl + ".ipv4-alphabet", "IPv4_PATTERN", used.issubset(specs.T4), "body alphabet %s within the token alphabet [A-Za-z0-9.] (whole-token lemma)" % used.describe(), loc)
    miss = (S - B)
    extra = (B - S)
    rep.ob(cl + ".ipv4-complete", "IPv4_PATTERN", miss.is_empty(),
           "valid dotted quads (any leading zeros, octets <= 255) not matched: shortest %r" % (miss.shortest(3),), loc,
           witness=miss.shortest(1)[0] if not miss.is_empty() else None, key=cl + ".ipv4-complete|IPv4_PATTERN")
    rep.ob(cl + ".ipv4-exact", "IPv4_PATTERN", extra.is_empty(),
           "strings matched that are not valid dotted quads: shortest %r" % (extra.shortest(3),), loc,
           witness=extra.shortest(1)[0] if not extra.is_empty() else None, key=cl + ".ipv4-exact|IPv4_PATTERN")
    rep.stat("ipv4_dfa_states", B.nstates())
    rep.stat("ipv4_spec_states", S.nstates())
    rep.sample({"IPv4 body accepts (shortest)": B.shortest(3), "states": B.nstates()})
    # group 0 == whole body: the callback uses match.group(0)
    return r4, body, alpha, B


def _drop_zeros(ctx, rep, cl, body4):
    """make_addr (IPv4): leading zeros are dropped by a pattern whose captures are canonical decimals."""
    m = IpModel(ctx)
    f = m.method(m.v4, "make_addr")
    rep.analysed(f)
    loc = where(f)
    try:
        dz = ctx.folder.class_const(m.v4, "_DROP_ZEROS_PATTERN")
    except Unfoldable as e:
        dz = None
    fp = ctx.A.paths(f)
    for path in fp.paths:
        r = path.returned()
        ok = path.kind == "return" and M.is_call(r) and ctx.G.types_of(r, f) == {("xinst", "ipaddress.IPv4Address")}
        rep.ob(cl + ".ipv4-parse-call", f.name, ok, "make_addr returns %s; expected ipaddress.IPv4Address(<text without leading zeros>)" % show(r), loc)
        if not ok:
            continue
        arg = r[2][0] if r[2] else None
        ok2 = False
        nsz = M.norm_sub(arg) if arg is not None else None
        if nsz is not None and nsz[3] is None:
            pat_t, tmpl, src = nsz[0], nsz[1], nsz[2]
            pts = ctx.G.types_of(pat_t, f)
            is_dz = pat_t[0] == "attr" and pat_t[2] == "_DROP_ZEROS_PATTERN"
            ok2 = is_dz and tmpl == ("const", r"\1.\2.\3.\4") and src == ("param", f.mparams[1])
        rep.ob(cl + ".ipv4-drop-zeros-call", f.name, ok2, "argument is %s; expected _DROP_ZEROS_PATTERN.sub(r'\\1.\\2.\\3.\\4', addr_str)" % show(arg), loc, key=cl + ".ipv4-drop-zeros-call|make_addr")
    if not isinstance(dz, Rx):
        rep.fail(cl + ".ipv4-drop-zeros", "_DROP_ZEROS_PATTERN", "constant does not fold to a pattern", loc)
        return
    tree, info = rx.parse(dz.pattern, dz.flags)
    items = rx.top_items(tree)
    # expected shape: (0* (\d+) \.){3} 0* (\d+)
    shape_ok = len(items) == 11
    caps = 0
    if shape_ok:
        zero = ("rep", ("set", CharSet.of("0")), 0, None, True)
        for i in range(4):
            z, g = items[i * 3], items[i * 3 + 1]
            if z != zero or g[0] != "group" or g[1] != i + 1:
                shape_ok = False
                break
            inner = g[3]
            if not (inner[0] == "rep" and inner[2] >= 1 and inner[3] is None and inner[4] and inner[1][0] == "set" and specs.DIGITS.issubset(inner[1][1])):
                shape_ok = False
                break
            caps += 1
            if i < 3 and items[i * 3 + 2] != ("set", CharSet.of(".")):
                shape_ok = False
                break
    rep.ob(cl + ".ipv4-drop-zeros-shape", "_DROP_ZEROS_PATTERN", shape_ok,
           "pattern %r; expected four captures \\d+ each preceded by a greedy 0* and separated by literal dots (captures are then canonical decimals)" % dz.pattern, loc, key=cl + ".ipv4-drop-zeros-shape|_DROP_ZEROS_PATTERN")
    if body4 is not None:
        alpha, (B, Z) = rx.languages([body4, rx.strip_groups(tree)])
        d = B - Z
        rep.ob(cl + ".ipv4-parse-total", "_DROP_ZEROS_PATTERN", d.is_empty(),
               "every string the IPv4 pattern matches is fully rewritten by the zero-dropping pattern (counter-example %r)" % (d.shortest(1),), loc,
               witness=d.shortest(1)[0] if not d.is_empty() else None, key=cl + ".ipv4-parse-total|_DROP_ZEROS_PATTERN")


def _ipv6(ctx, rep, cl, thorough=False, parse_only=False):
    r6 = _pattern(ctx, IPMOD, "IPv6_PATTERN")
    loc = "netconan/ip_anonymization.py (IPv6_PATTERN)"
    try:
        rep.ob(cl + ".ipv6-flags", "IPv6_PATTERN", int(r6.flags or 0) & ~int(re.UNICODE) == int(re.IGNORECASE), "IPv6_PATTERN is compiled with flags %r; expected exactly IGNORECASE (hex digits in either case, nothing else changed)" % (r6.flags,), loc, key=cl + ".ipv6-flags|IPv6_PATTERN")
        tree, info = rx.parse(r6.pattern, r6.flags)
    except RxError as e:
        rep.fail(cl + ".ipv6-parse", "IPv6_PATTERN", "pattern not analysable: %s" % e, loc)
        return None
    tree = rx.drop_vacuous(tree)
    L, body, R = rx.split_context(tree)
    delim = specs.delimiters_cached("T6", specs.T6)
    _ctx_clause(rep, cl + ".ipv6", "IPv6_PATTERN", L, "left", specs.T6, delim, loc)
    _ctx_clause(rep, cl + ".ipv6", "IPv6_PATTERN", R, "right", specs.T6, delim, loc)
    if L is None or R is None:
        return None
    if rx.has_zero_width(body):
        rep.fail(cl + ".ipv6-body", "IPv6_PATTERN", "body contains a zero-width assertion", loc)
        return None
    inner = rx.strip_groups(body)
    alts = list(inner[1]) if inner[0] == "alt" else [inner]
    RC = R.chars
    anyc = rx.ANYCHAR
    rcnode = ("set", RC)
    nodes = alts + [specs.SPEC6HEX, specs.SPEC6V4, specs.ACCEPT6]
    alpha = rx.Alphabet(rx.collect_sets(*nodes) + [RC, specs.T6, CharSet.full()])
    D = [rx.DFA.from_ast(a, alpha) for a in alts]
    HEX = rx.DFA.from_ast(specs.SPEC6HEX, alpha)
    V4T = rx.DFA.from_ast(specs.SPEC6V4, alpha)
    ACC = rx.DFA.from_ast(specs.ACCEPT6, alpha)
    rep.stat("ipv6_alternatives", len(alts))
    rep.stat("ipv6_dfa_states", [d.nstates() for d in D])
    # classification of alternatives
    in_T6 = [d.used_alphabet().issubset(specs.T6) for d in D]
    hex_idx = [i for i, ok in enumerate(in_T6) if ok]
    other_idx = [i for i, ok in enumerate(in_T6) if not ok]
    rep.ob(cl + ".ipv6-hex-alternatives", "IPv6_PATTERN", len(hex_idx) >= 1, "alternatives whose alphabet lies within [A-Za-z0-9:]: %s; others: %s" % (hex_idx, other_idx), loc, nontrivial=False)
    # clause 4: union of the T6-alternatives == SPEC6HEX (whole-token lemma applies to them)
    U = None
    for i in hex_idx:
        U = D[i] if U is None else (U | D[i])
    if U is not None:
        miss, extra = HEX - U, U - HEX
        rep.ob(cl + ".ipv6-hex-complete", "IPv6_PATTERN", miss.is_empty(),
               "valid IPv6 addresses (hex forms) not matched as a whole token: %r" % (miss.shortest(3),), loc,
               witness=miss.shortest(1)[0] if not miss.is_empty() else None, key=cl + ".ipv6-hex-complete|IPv6_PATTERN")
        rep.ob(cl + ".ipv6-hex-exact", "IPv6_PATTERN", extra.is_empty(),
               "colon/hex tokens matched that are not valid IPv6 addresses: %r" % (extra.shortest(3),), loc,
               witness=extra.shortest(1)[0] if not extra.is_empty() else None, key=cl + ".ipv6-hex-exact|IPv6_PATTERN")
        rep.sample({"IPv6 hex forms, shortest accepted": U.shortest(4), "states": U.nstates()})
    # pre-emption languages: P_j = L(A_j) . (eps | RC . Sigma*)
    def preempt(j, proper_only):
        tail = rx.cat(rcnode, rx.star(anyc))
        node = rx.cat(rx.dfa_node(D[j]), tail if proper_only else rx.opt(tail))
        return rx.DFA.from_ast(node, alpha)

    PRE = [preempt(j, False) for j in range(len(D))]
    PREP = [preempt(j, True) for j in range(len(D))]
    # clause 6: every selectable match is parseable
    selectable = []
    for i in range(len(D)):
        sel = D[i]
        for j in range(i):
            sel = sel - PRE[j]
        selectable.append(not sel.is_empty())
        if not sel.is_empty():
            beyond = sel.used_alphabet() - (specs.T6 | CharSet.of("."))
            rep.ob(cl + ".ipv6-match-is-address-text", "IPv6_PATTERN[alt %d]" % i, not beyond,
                   "alternative %d can be selected and consumes characters %s that are not part of an address token (e.g. a %%zone suffix): the whole match is replaced by the canonical address text, so that text is silently dropped; e.g. %r" % (i, beyond.describe(), sel.shortest(2)), loc,
                   witness=(sel.shortest(1) or [None])[0], key="%s.ipv6-match-is-address-text|alt:%s" % (cl, _alt_id(alts[i])))
        bad = (sel - ACC) - PREP[i]
        ok = bad.is_empty()
        w = bad.shortest(10 if thorough else 3)
        rep.ob(cl + ".ipv6-selected-parseable", "IPv6_PATTERN[alt %d]" % i, ok,
               "alternative %d can be SELECTED by re.sub on text that ipaddress.IPv6Address rejects (the callback then raises inside the line loop): %r" % (i, w), loc,
               witness=w[0] if w else None, key="%s.ipv6-selected-parseable|alt:%s" % (cl, _alt_id(alts[i])))
    rep.stat("ipv6_selectable_alternatives", [i for i, s in enumerate(selectable) if s])
    rep.note("IPv6 alternatives that can never be selected (an earlier alternative always commits first): %s" % [i for i, s in enumerate(selectable) if not s])
    if parse_only:
        return r6, alts, alpha, D
    # clause 5: IPv4-tailed addresses replaced as a whole
    ALL = None
    for d in D:
        ALL = d if ALL is None else (ALL | d)
    notmatched = V4T - ALL
    pre_any = None
    broken = None
    for k in range(len(D)):
        Wk = V4T & D[k]
        for j in range(k):
            Wk = Wk - D[j]
        if Wk.is_empty():
            continue
        for j in range(k):
            part = Wk & PREP[j]
            if not part.is_empty():
                broken = part if broken is None else (broken | part)
    pairs = []
    for k in range(len(D)):
        Wk = V4T & D[k]
        for j in range(k):
            Wk = Wk - D[j]
        if Wk.is_empty():
            continue
        for j in range(k):
            if not (Wk & PREP[j]).is_empty():
                pairs.append("%s<%s" % (_alt_id(alts[j]), _alt_id(alts[k])))
    if not notmatched.is_empty():
        pairs.append("unmatched:" + "/".join(notmatched.shortest(2)))
    bad_w = []
    if broken is not None and not broken.is_empty():
        bad_w += broken.shortest(10 if thorough else 3)
    if not notmatched.is_empty():
        bad_w += notmatched.shortest(10 if thorough else 3)
    rep.ob(cl + ".ipv6-v4tail-whole", "IPv6_PATTERN", not bad_w,
           "IPv6 addresses with an IPv4-style tail are not replaced as a whole (an earlier colon/hex alternative commits to a proper prefix because '.' is accepted as right context, or no alternative matches): %r" % (bad_w,), loc,
           witness=bad_w[0] if bad_w else None, key=cl + ".ipv6-v4tail-whole|" + ";".join(sorted(set(pairs))))
    # ambiguity inside one alternative (priority analysis not attempted): must be empty
    for i in range(len(D)):
        amb = D[i] & PREP[i] & (HEX | V4T)
        rep.ob(cl + ".ipv6-alt-unambiguous", "IPv6_PATTERN[alt %d]" % i, amb.is_empty(),
               "alternative %d matches both a valid address and a proper prefix of it followed by a delimiter: %r (needs priority analysis)" % (i, amb.shortest(2)), loc, nontrivial=False)
    return r6, alts, alpha, D


def _alt_id(node):
    """A short, stable description of an alternative (its shortest strings)."""
    try:
        alpha, (d,) = rx.languages([node])
        return "/".join(d.shortest(2))
    except Exception:
        return "?"


def _pass_separation(ctx, rep, cl, v4, v6):
    loc = "netconan/ip_anonymization.py"
    if v4 is not None:
        r4, body4, alpha4, B4 = v4
        nodot = rx.DFA.from_ast(rx.star(("set", CharSet.of(".").complement())), rx.Alphabet(rx.collect_sets(body4) + [CharSet.of(".")]))
        a = rx.Alphabet(rx.collect_sets(body4) + [CharSet.of(".")])
        B = rx.DFA.from_ast(body4, a)
        N = rx.DFA.from_ast(rx.star(("set", CharSet.of(".").complement())), a)
        rep.ob(cl + ".pass-separation-v4", "IPv4_PATTERN", (B & N).is_empty(), "every IPv4 match contains '.', so canonical IPv6 text ([0-9a-f:]) is never re-matched by the IPv4 pass", loc)
    if v6 is not None:
        r6, alts, alpha, D = v6
        a = rx.Alphabet(rx.collect_sets(*alts) + [CharSet.of(":")])
        N = rx.DFA.from_ast(rx.star(("set", CharSet.of(":").complement())), a)
        for i, alt_ in enumerate(alts):
            d = rx.DFA.from_ast(alt_, a)
            rep.ob(cl + ".pass-separation-v6", "IPv6_PATTERN[alt %d]" % i, (d & N).is_empty(), "every IPv6 match contains ':' (dotted quads are left to the IPv4 pass)", loc, nontrivial=False)
    # order of the passes in anonymize_io: IPv6 strictly before IPv4; nothing rewrites address text before them except the secret stage
    order = stage_order(ctx)
    names = [s for s, _ in order]
    ok = "ip6" in names and "ip4" in names and names.index("ip6") < names.index("ip4")
    rep.ob(cl + ".pass-order", "anonymize_io", ok, "stage order in the line loop: %s; IPv6 pass must precede the IPv4 pass" % names, where(ctx.p.find_function("FileAnonymizer.anonymize_io")), key=cl + ".pass-order|ip6-before-ip4")
    if "word" in names and "ip4" in names and "ip6" in names:
        ok = names.index("word") > max(names.index("ip4"), names.index("ip6"))
        rep.ob(cl + ".pass-order-words", "anonymize_io", ok, "sensitive-word stage runs after both address passes (a word occurring inside an address spelling would otherwise corrupt the address before it is recognised): %s" % names,
               where(ctx.p.find_function("FileAnonymizer.anonymize_io")), key=cl + ".pass-order|word-after-ip")
    if "as" in names and "ip4" in names and "ip6" in names:
        ok = names.index("as") > max(names.index("ip4"), names.index("ip6"))
        rep.ob(cl + ".pass-order-as", "anonymize_io", ok, "AS-number stage runs after both address passes (it rewrites digit runs): %s" % names, where(ctx.p.find_function("FileAnonymizer.anonymize_io")), key=cl + ".pass-order|as-after-ip")


def stage_order(ctx):
    """Order of the stage calls on the (all-enabled) path of anonymize_io's loop body: [(stage, effect)]."""
    p, A, G = ctx.p, ctx.A, ctx.G
    f_io = p.find_function("FileAnonymizer.anonymize_io")
    fp = A.paths(f_io)
    best = []
    for path in fp.paths:
        for e in path.effects:
            if e.kind != "loop":
                continue
            for bp in e.a.body_paths:
                seq = []
                for x in bp.effects:
                    if x.kind != "call":
                        continue
                    nm = M.callee_name(x.a)
                    if nm == "replace_matching_item":
                        seq.append(("pwd", x))
                    elif nm == "anonymize_ip_addr":
                        a0 = x.a[2][0] if x.a[2] else None
                        s = show(a0)
                        seq.append(("ip6" if "6" in s else "ip4" if "4" in s else "ip?", x))
                    elif nm == "anonymize_as_numbers":
                        seq.append(("as", x))
                    elif nm == "anonymize" and x.a[1][0] == "attr" and "word" in show(x.a[1][1]):
                        seq.append(("word", x))
                if len(seq) > len(best):
                    best = seq
    return best


def _plumbing(ctx, rep, cl):
    from .checks_ip import _undo_threading
    m = IpModel(ctx)
    _undo_threading(ctx, m, rep, cl)
    # each family hands out its own pattern
    for c, name in ((m.v4, "IPv4_PATTERN"), (m.v6, "IPv6_PATTERN")):
        f = m.method(c, "get_addr_pattern")
        for path in ctx.A.paths(f).paths:
            r = path.returned()
            rep.ob(cl + ".family-pattern", c.name, r == ("global", f.module.name, name), "%s.get_addr_pattern returns %s; expected %s" % (c.name, show(r), name), where(f), key="%s.family-pattern|%s" % (cl, c.name))
    f = m.method(m.v6, "make_addr")
    for path in ctx.A.paths(f).paths:
        r = path.returned()
        ok = M.is_call(r) and ctx.G.types_of(r, f) == {("xinst", "ipaddress.IPv6Address")} and r[2] == (("param", f.mparams[1]),)
        rep.ob(cl + ".ipv6-parse-call", f.name, ok, "IPv6 make_addr returns %s; expected ipaddress.IPv6Address(addr_str)" % show(r), where(f))
    # no per-match state besides the memo
    from .checks_ip import _no_cross_state
    _no_cross_state(m, rep, cl)


def c06(ctx, rep):
    thorough = getattr(ctx, "tier", "quick") == "thorough"
    rep.explanation = (
        "Exact regular-language decisions on the folded address patterns (text obtained by constant-folding the .format() calls; parsed with re._parser, never compiled or run): "
        "contexts are line boundary or delimiter and never a token character; body alphabet within the token alphabet (whole-token lemma); L(IPv4 body) = SPEC4 (DFA equivalence, "
        "specification built from first principles); every IPv4 match is fully rewritten to canonical decimal by the zero-dropping pattern; union of the colon/hex IPv6 alternatives = RFC 4291 forms 1-2; "
        "ordered-choice analysis of re.sub over the 12 alternatives (which alternative commits first, on which proper prefix) decides whether IPv4-tailed addresses are replaced as a whole and whether "
        "every SELECTABLE match is accepted by ipaddress.IPv6Address; pass separation and pass order; substitution plumbing (callable replacement over the whole line, canonical text of the image, "
        "matched text returned untouched when skipped)."
    )
    rep.rule = "one obligation per (clause, pattern or alternative or call site); witnesses are shortest strings of the difference automata"
    rep.trust(
        "re.sub: leftmost match; at one start position alternatives are tried in order, the first whose continuation (incl. the look-ahead) succeeds wins (re docs)",
        "a callable replacement's return value is inserted verbatim (re docs)",
        "ipaddress.IPv6Address(str) accepts exactly ACCEPT6 (RFC 4291 2.2 forms, optional %scope, no '/'); IPv4Address accepts canonical octets (CPython ipaddress.py)",
        "str(IPv6Address) never prints a dotted quad for the interpreter in /venv (3.12)",
    )
    rep.assume("token alphabets as in the property's quantifier: [A-Za-z0-9.] (IPv4), [A-Za-z0-9:] (IPv6)")
    v4 = _ipv4(ctx, rep, "C06")
    _drop_zeros(ctx, rep, "C06", v4[1] if v4 else None)
    v6 = _ipv6(ctx, rep, "C06", thorough)
    _pass_separation(ctx, rep, "C06", v4, v6)
    _plumbing(ctx, rep, "C06")
    from .ipmodel import IpModel
    IpModel(ctx).check_subclasses(rep, "C06")  # the replacement text is printed by the family's own address type
    # "every address ... in a line" — both passes run on every line, unconditionally once enabled
    from .checks_pipe import line_loop_rules
    line_loop_rules(ctx, rep, "C06")
    from .checks_pipe import stream_open_rule
    stream_open_rule(ctx, rep, "C06")
    from .checks_pipe import independent_wiring
    independent_wiring(ctx, rep, "C06", only=("anonymizer4", "anonymizer6"))
    # "every address is replaced": the only tokens left alone are the ones the gate names (masks, listed networks), decided exactly;
    # the image printed is the function's image (host bits per family as given); the text written is the processed text, never a copy of the input
    from .checks_ip import _gate_content, _stage_families, c04 as _c04
    _gate_content(ctx, IpModel(ctx), rep, "C06")
    _stage_families(ctx, IpModel(ctx), rep, "C06")
    from .checks_pipe import import_clauses, c16 as _c16
    import_clauses(ctx, rep, "C06", "C04", _c04, ("C04.suffix-default", "C04.suffix-field"))
    import_clauses(ctx, rep, "C06", "C16", _c16, ("C16.single-file-streams", "C16.writes-only-output"))


# ----------------------------------------------------------------------
# C11
# ----------------------------------------------------------------------
EXPECTED_AS_BOUNDARIES = [0, 64512, 65536, 4200000000, 4294967296]


def as_regex_template(ctx, rep, cl):
    """Locate re.compile(TEMPLATE.format(SEP.join(as_numbers))) and return (fn, template, sep, elements-term)."""
    p, A, G = ctx.p, ctx.A, ctx.G
    cls = p.find_class("AsNumberAnonymizer")
    found = []
    seen = set()
    init = cls.methods.get("__init__")
    order = ([init] if init is not None else []) + [f for n, f in cls.methods.items() if f is not init]
    for f in order:
        if f.qualname in ctx.helpers:
            continue
        for e, ls, path in A.paths(f).all_effects():
            if e.kind == "call" and ("ext", "re.compile") in set(G.resolve_callee(e.a[1], f)) and id(e.node) not in seen:
                seen.add(id(e.node))
                found.append((f, e))
    return cls, found


def _seq_parts(t):
    """Element sources of a sequence expression in order: a + b, itertools.chain(a, b), list(x)/tuple(x)/x[:] copies."""
    if (M.builtin_call(t, "list", 1) or M.builtin_call(t, "tuple", 1)):
        return _seq_parts(t[2][0])
    if t[0] == "sub" and t[2] == ("slice", None, None, None):
        return _seq_parts(t[1])
    if t[0] == "binop" and t[1] == "+":
        return _seq_parts(t[2]) + _seq_parts(t[3])
    if M.is_call(t) and M.callee_name(t) == "chain" and not t[3] and not any(a[0] == "star" for a in t[2]):
        out = []
        for a in t[2]:
            out += _seq_parts(a)
        return out
    return [t]


def c11(ctx, rep):
    p, A, G, folder = ctx.p, ctx.A, ctx.G, ctx.folder
    rep.explanation = (
        "Block table folded and compared with the property's block limits; interval analysis of the replacement term str(h % (hi - lo) + lo) with h >= 0, hi the first boundary with n < hi and lo the previous "
        "boundary (loop-carried variable analysis) gives lo <= result <= hi-1 for every hash value; range guard precedes the loop; hash keyed by salt and number only; map built once in the constructor "
        "for exactly the listed numbers and never written afterwards; parametric analysis of the number pattern template (symbolic digit strings): zero-width contexts 'non-digit or line boundary' "
        "on both sides, body alphabet = digits => every match is a maximal digit run equal to a listed number, whatever the order of alternatives; callable replacement looked up in the same map."
    )
    rep.rule = "one obligation per clause instance; the template is analysed with symbolic holes, boundaries as folded integers"
    rep.trust("hashlib.md5(b).hexdigest() is a pure function of b; int(hex, 16) >= 0", "re.sub with a callable replacement inserts the result verbatim", "Python % with a positive modulus yields 0..modulus-1")
    cls, found = as_regex_template(ctx, rep, "C11")
    from .checks_misc import stage_state_rule
    stage_state_rule(ctx, rep, "C11", ["AsNumberAnonymizer"])
    from .checks_pipe import independent_wiring
    independent_wiring(ctx, rep, "C11", only=("anonymizer_as_num",))
    from .checks_ip import option_spec_rule
    option_spec_rule(ctx, rep, "C11", only=("--as-numbers",))
    from .checks_pipe import import_clauses, c19 as _c19
    from .checks_pipe import line_loop_rules as _llr11
    _llr11(ctx, rep, "C11")  # "digits that are part of a longer number": the stage sees every line whole
    import_clauses(ctx, rep, "C11", "C19", _c19, ("C19.list-options",))  # "equal to a listed AS number": the list reaches the anonymizer as typed (split on ',' only)
    loc_cls = "%s:%d" % (cls.module.relpath, cls.node.lineno)
    # 1. block table
    try:
        b = folder.class_const(cls, "_AS_NUM_BOUNDARIES")
    except Unfoldable as e:
        b = None
    ok = isinstance(b, (list, tuple)) and list(b) == EXPECTED_AS_BOUNDARIES
    rep.ob("C11.block-table", "_AS_NUM_BOUNDARIES", ok, "folds to %r; expected %r (16-bit public/private, 32-bit public/private, end)" % (b, EXPECTED_AS_BOUNDARIES), loc_cls, key="C11.block-table|_AS_NUM_BOUNDARIES")
    # 2/3. interval rule
    f = cls.methods.get("_generate_as_number_replacement")
    if f is None:
        raise AnalysisError("anchor AsNumberAnonymizer._generate_as_number_replacement not found")
    rep.analysed(f)
    fp = A.paths(f)
    num_p = ("param", f.mparams[1])
    n_int = ("call", ("builtin", "int"), (num_p,), ())
    returns = [pp for pp in fp.paths if pp.kind == "return" and not (pp.returned() == ("const", None) and not any(t[0] == "inloop" for t, _pol, _n in pp.conds))]
    falls = [pp for pp in fp.paths if pp.kind == "fall" or (pp.kind == "return" and pp not in returns)]
    raises = [pp for pp in fp.paths if pp.kind == "raise"]
    rep.ob("C11.returns", f.name, len(returns) >= 1, "returning paths: %d" % len(returns), where(f))
    guard_ok = False
    for pp in raises:
        for t, pol in pp.atoms():
            if t[0] == "compare" and t[1] == ("<=", "<=") and not pol and t[2] == (("const", 0), n_int, ("const", 4294967295)):
                guard_ok = True
            if t[0] == "compare" and t[1] == ("<=", "<") and not pol and t[2] == (("const", 0), n_int, ("const", 4294967296)):
                guard_ok = True
            if t[0] == "boolop" and t[1] == "or" and pol:
                lo_ok = any(x == ("compare", ("<",), (n_int, ("const", 0))) for x in t[2])
                hi_ok = any(x in (("compare", (">",), (n_int, ("const", 4294967295))), ("compare", (">=",), (n_int, ("const", 4294967296)))) for x in t[2])
                guard_ok = guard_ok or (lo_ok and hi_ok)
    rep.ob("C11.range-guard", f.name, guard_ok, "values outside 0..4294967295 raise before the block search (so the loop always returns)", where(f), key="C11.range-guard|_generate_as_number_replacement")
    for pp in falls:
        # the fall-through path (loop exhausted) is only reachable for n >= last boundary, excluded by the guard
        rep.ob("C11.fall-through", f.name, guard_ok and isinstance(b, (list, tuple)) and b and b[-1] == 4294967296, "loop fall-through (returns None) is excluded by the range guard and the last boundary 2**32", where(f), nontrivial=False)
    for pp in returns:
        w = where(f, pp.result[2])
        r = pp.returned()
        inloop = [t for t, pol, _ in pp.conds if t[0] == "inloop"]
        if not inloop:
            rep.fail("C11.interval-shape", f.name, "return %s outside the boundary loop: unrecognised" % show(r), w)
            continue
        li = fp.loops[inloop[0][1]]
        table_terms = (("attr", SELF, "_AS_NUM_BOUNDARIES"), ("attr", ("global", f.module.name, cls.name), "_AS_NUM_BOUNDARIES"))
        lo = None
        if M.is_call(li.iter) and li.iter[1] == ("builtin", "zip") and len(li.iter[2]) == 2 and not li.iter[3]:
            # form B: for lo, hi in zip([0] + table[:-1], table)
            L, B = li.iter[2]
            hi = ("loopvar", li.uid, li.iter, (1,))
            it_ok = B in table_terms
            prevs = False
            if L in table_terms and M.slice_of(B) is not None and M.slice_of(B)[0] in table_terms and M.slice_of(B)[1] == ("const", 1) and M.slice_of(B)[2] is None:
                # form C: zip(table, table[1:]) — consecutive pairs; the first lower bound is table[0] (== 0, checked by C11.block-table)
                prevs = True
                it_ok = True
            parts = _seq_parts(L)
            if len(parts) == 2 and parts[0] in (("list", (("const", 0),)), ("tuple", (("const", 0),))):
                # [0] + table[:-1], [0] + list(table), chain((0,), table): zip stops at the shorter operand, so the table's last element is never a lower bound
                rest = parts[1]
                prevs = rest in table_terms or (M.drop_last(rest) is not None and M.drop_last(rest) in table_terms)
            rep.ob("C11.loop-over-table", f.name, it_ok, "loop pairs boundaries from %s; expected the boundary table in order" % show(B), w)
            if prevs:
                lo = ("loopvar", li.uid, li.iter, (0,))
            rep.ob("C11.previous-boundary", f.name, lo is not None, "the paired lower bounds are [0] + table[:-1] (each boundary's predecessor, 0 first): %s" % show(L), w, key="C11.previous-boundary|_generate_as_number_replacement")
        else:
            hi = ("loopvar", li.uid, li.iter, ())
            it_ok = li.iter in table_terms
            rep.ob("C11.loop-over-table", f.name, it_ok, "loop iterates %s; expected the boundary table in order" % show(li.iter), w)
            # lo = loop-carried previous boundary, initially 0
            for n, (pre, posts) in li.carried.items():
                if pre == ("const", 0) and posts and all(x == hi for x in posts):
                    lo = ("carried", n, li.uid)
            rep.ob("C11.previous-boundary", f.name, lo is not None, "a loop-carried variable holds the previous boundary (initially 0, set to the current boundary at the end of every iteration): %s" % {n: (show(v[0]), [show(x) for x in v[1]]) for n, v in li.carried.items()}, w, key="C11.previous-boundary|_generate_as_number_replacement")
        # selection condition: n < hi (strict)
        sel = [(t, pol) for t, pol, _ in pp.conds if t[0] == "compare" and hi in t[2]]
        sel_ok = len(sel) == 1 and ((sel[0][0] == ("compare", ("<",), (n_int, hi)) and sel[0][1]) or (sel[0][0] == ("compare", (">",), (hi, n_int)) and sel[0][1]) or (sel[0][0] == ("compare", (">=",), (n_int, hi)) and not sel[0][1]))
        rep.ob("C11.block-selection", f.name, sel_ok, "block selected by %s; expected the first boundary with number < boundary (strict)" % [(show(t), pol) for t, pol in sel], w, key="C11.block-selection|_generate_as_number_replacement")
        if lo is None:
            continue
        # result = str(h % (hi - lo) + lo)
        u = M.unwrap(r, ("str",))
        shape = None
        if u[0] == "binop" and u[1] == "+":
            a, b2 = u[2], u[3]
            if b2 == lo and a[0] == "binop" and a[1] == "%":
                shape = (a[2], a[3])
            elif a == lo and b2[0] == "binop" and b2[1] == "%":
                shape = (b2[2], b2[3])
        if shape is None or r == u:
            rep.fail("C11.interval", f.name, "replacement is %s; expected str(h %% (hi - lo) + lo) with lo the previous boundary — any other arithmetic may leave the block" % show(r), w, key="C11.interval|_generate_as_number_replacement")
            continue
        h, mod = shape
        rep.ob("C11.interval", f.name, mod == ("binop", "-", hi, lo), "modulus is %s; expected (boundary - previous boundary): result range is then exactly [lo, hi-1]" % show(mod), w, key="C11.interval|_generate_as_number_replacement")
        # h: int(md5((salt + number).encode()).hexdigest(), 16)
        h_ok = M.builtin_call(h, "int", 2) and h[2][1] == ("const", 16)
        leaves = {s for s in subterms(h) if s[0] in ("param", "attr", "global", "carried", "loopvar")}
        keyed = ("attr", SELF, "salt") in leaves and num_p in leaves
        stray = [show(x) for x in leaves if x not in (("attr", SELF, "salt"), num_p, SELF) and not (x[0] == "global") and not (x[0] == "attr" and x[2] in ("encode", "hexdigest"))]
        rep.ob("C11.hash-nonnegative", f.name, h_ok, "hash value is %s; expected int(<hexdigest>, 16) (non-negative)" % show(h), w)
        rep.ob("C11.keyed", f.name, keyed and not stray, "hash depends on exactly the salt and the number's text (other roots: %s)" % stray, w, key="C11.keyed|_generate_as_number_replacement")
    # 4. map built once, for exactly the listed numbers
    init = cls.methods.get("__init__")
    fm = cls.methods.get("_generate_as_number_replacement_map")
    writers = []
    for name, g in cls.methods.items():
        if g.qualname in ctx.helpers:
            continue
        for e, ls, path in A.paths(g).all_effects():
            if e.kind == "store_attr" and e.b == "as_num_map":
                writers.append((g, e))
            if e.kind == "store_sub" and e.a[0] == "attr" and e.a[2] == "as_num_map":
                rep.fail("C11.map-immutable", g.name, "replacement map written after construction: %r" % e, where(g, e.node), key="C11.map-immutable|%s" % g.name)
            if e.kind == "call" and e.a[1][0] == "attr" and e.a[1][1][0] == "attr" and e.a[1][1][2] == "as_num_map" and e.a[1][2] in ("update", "setdefault", "pop", "clear", "popitem"):
                rep.fail("C11.map-immutable", g.name, "replacement map mutated: %s" % show(e.a), where(g, e.node), key="C11.map-immutable|%s" % g.name)
    rep.ob("C11.map-instance-field", cls.name, "as_num_map" not in cls.assigns, "the replacement map is an instance field (a class-level dict would be shared by all anonymizers and salts)", loc_cls, key="C11.map-instance-field|AsNumberAnonymizer")
    ok_w = False
    for g, e in writers:
        v = e.c
        if v[0] == "comp" and v[1] == "dict" and len(v[4]) == 1:
            tgt, it, conds = v[4][0]
            elt = v[3]
            okc = it[0] == "param" and not conds and elt[1][0] == tgt and M.is_call(elt[1][1]) and elt[1][1][1] == ("attr", SELF, f.name) and elt[1][1][2] == (tgt,)
            rep.ob("C11.map-built-in-constructor", g.name, g.name == "__init__", "the map is assigned in %s (constructor only)" % g.name, where(g, e.node), nontrivial=False)
            rep.ob("C11.map-built", g.name, okc, "map = %s; expected {n: replacement(n) for n in <all listed numbers>}" % show(v), where(g, e.node), key="C11.map-built|" + g.name)
            ok_w = ok_w or okc
        else:
            rep.fail("C11.map-built", g.name, "map = %s: unrecognised construction" % show(v), where(g, e.node), key="C11.map-built|" + g.name)
    rep.ob("C11.map-writers", cls.name, len(writers) == 1 and ok_w, "writers of the map: %s" % [g.name for g, e in writers], loc_cls)
    if init is not None:
        rep.analysed(init)
        nums = ("param", init.mparams[1])
        for path in A.paths(init).paths:
            if not path.feasible():
                continue
            salt_st = [e for e, ls in path.stores() if e.kind == "store_attr" and e.b == "salt"]
            rep.ob("C11.salt-field", "__init__", len(salt_st) == 1 and salt_st[0].c == ("param", "salt"), "self.salt = %s" % [show(e.c) for e in salt_st], where(init), key="C11.salt-field|AsNumberAnonymizer.__init__")
            st = {e.b: e.c for e, ls in path.stores() if e.kind == "store_attr" and e.a == SELF}
            mp, rxv = st.get("as_num_map"), st.get("as_num_regex")
            same = mp is not None and rxv is not None and any(x == nums for x in subterms(mp)) and any(x == nums for x in subterms(rxv))
            rep.ob("C11.same-list", "__init__", same, "the constructor builds both the pattern (%s) and the map (%s) from its list of numbers" % (show(rxv)[:60] if rxv else None, show(mp)[:60] if mp else None), where(init), key="C11.same-list|AsNumberAnonymizer.__init__")
    fa = cls.methods.get("anonymize")
    if fa is not None:
        for path in A.paths(fa).paths:
            r = path.returned()
            ok = r == ("sub", ("attr", SELF, "as_num_map"), ("param", fa.mparams[1]))
            rep.ob("C11.pure-lookup", "anonymize", ok, "anonymize returns %s; expected the map entry of its argument" % show(r), where(fa))
    # 5. template analysis
    if len(found) != 1:
        rep.fail("C11.pattern-site", cls.name, "expected one re.compile in AsNumberAnonymizer, found %d" % len(found), loc_cls)
    for g, e in found:
        w = where(g, e.node)
        arg = e.a[2][0] if e.a[2] else None
        tmpl = sep = elems = None
        af = M.as_format(arg) if arg is not None else None
        if af is not None and len(af[1]) == 1:
            tmpl = af[0]
            j = af[1][0]
            if M.is_call(j) and j[1][0] == "attr" and j[1][2] == "join" and j[1][1][0] == "const" and len(j[2]) == 1:
                sep, elems = j[1][1][1], j[2][0]
        flags = e.a[2][1] if len(e.a[2]) > 1 else dict(e.a[3]).get("flags")
        rep.ob("C11.pattern-flags", g.name, flags is None, "pattern compiled without flags (%s)" % show(flags), w, nontrivial=False)
        if tmpl is None or sep is None:
            rep.fail("C11.pattern-template", g.name, "pattern expression %s: not TEMPLATE.format(SEP.join(numbers))" % show(arg), w, key="C11.pattern-template|" + g.name)
            continue
        rep.ob("C11.pattern-join", g.name, sep == "|" and elems is not None and elems[0] == "param", "numbers joined with %r over %s" % (sep, show(elems)), w, key="C11.pattern-join|" + g.name)
        try:
            text = tmpl.format("12|345")
            tree, info = rx.parse(text, 0)
        except Exception as ex:
            rep.fail("C11.pattern-template", g.name, "template %r does not instantiate/parse: %s" % (tmpl, ex), w)
            continue
        L, body, R = rx.split_context(tree)
        nondigit_ascii = CharSet([(0, 127)]) - specs.DIGITS
        for side, c in (("left", L), ("right", R)):
            if c is None:
                rep.fail("C11.context-%s" % side, g.name, "template %r has no zero-width %s context: a consumed context character makes adjacent numbers (separated by one character) invisible" % (tmpl, side), w, key="C11.context-%s|%s" % (side, g.name))
                continue
            rep.ob("C11.context-%s-boundary" % side, g.name, c.bol, "%s context admits the line boundary" % side, w)
            inter = c.chars & specs.DIGITS
            rep.ob("C11.context-%s-nondigit" % side, g.name, not inter and not c.other, "%s context %s contains no digit (so a match is never part of a longer number)" % (side, c.chars.describe()), w, key="C11.context-%s-nondigit|%s" % (side, g.name))
            missing = nondigit_ascii - c.chars
            rep.ob("C11.context-%s-complete" % side, g.name, not missing, "%s context admits every non-digit (missing %s)" % (side, missing.describe()), w, key="C11.context-%s-complete|%s" % (side, g.name))
        # body must be exactly one capturing group holding the alternation
        items = rx.top_items(body)
        want = ("alt", (rx.lit("12"), rx.lit("345")))
        ok_b = len(items) == 1 and items[0][0] == "group" and items[0][3] == want
        inner_only = len(items) == 1 and rx.strip_groups(items[0]) == want
        rep.ob("C11.body-is-the-alternation", g.name, ok_b or inner_only, "between the contexts the template consumes exactly the alternation of listed numbers (body: %s)" % (items,), w, key="C11.body-is-the-alternation|" + g.name)
    # 6. plumbing
    fas = p.find_function("anonymize_as_numbers")
    rep.analysed(fas)
    ap, lp = ("param", fas.mparams[0]), ("param", fas.mparams[1])
    for path in A.paths(fas).paths:
        r = path.returned()
        w = where(fas)
        ns = M.norm_sub(r)
        if ns is None or ns[3] is not None:
            rep.fail("C11.sub-plumbing", fas.name, "returns %s; expected pattern.sub(callable, line)" % show(r), w, key="C11.sub-plumbing|anonymize_as_numbers")
            continue
        pat, repl, line = ns[0], ns[1], ns[2]
        rep.ob("C11.sub-pattern", fas.name, pat in (("call", ("attr", ap, "get_as_number_pattern"), (), ()), ("attr", ap, "as_num_regex")), "pattern is %s" % show(pat), w)
        rep.ob("C11.sub-line", fas.name, line == lp, "substitution over %s; expected the whole line" % show(line), w)
        okc = False
        if repl[0] == "lambda":
            mv = ("bound", repl[2][0], repl[1])
            b3 = repl[3]
            okc = M.is_call(b3) and b3[1] == ("attr", ap, "anonymize") and len(b3[2]) == 1 and not b3[3] and (M.group0(b3[2][0], mv) or b3[2][0] == ("call", ("attr", mv, "group"), (("const", 1),), ()))
        rep.ob("C11.sub-callable", fas.name, okc, "replacement is %s; expected lambda m: anonymizer.anonymize(m.group(0)) — the replacement alone, nothing re-emitted around it" % show(repl), w, key="C11.sub-callable|anonymize_as_numbers")
    fg = cls.methods.get("get_as_number_pattern")
    if fg is not None and found:
        reg_field = None
        for g, e in found:
            for path in A.paths(g).paths:
                for st, ls in path.stores():
                    if st.kind == "store_attr" and st.c == e.a:
                        reg_field = st.b
        if reg_field is None and init is not None:
            for path in A.paths(init).paths:
                for st, ls in path.stores():
                    if st.kind == "store_attr" and M.is_call(st.c) and M.callee_name(st.c) == "compile":
                        reg_field = st.b
        for path in A.paths(fg).paths:
            rep.ob("C11.pattern-getter", fg.name, reg_field is not None and path.returned() == ("attr", SELF, reg_field), "getter returns %s; compiled pattern stored in self.%s" % (show(path.returned()), reg_field), where(fg))
    # wiring: FileAnonymizer passes (as_numbers, self.salt)
    f_fa = p.find_function("FileAnonymizer.__init__")
    for cs in G.by_owner.get(f_fa.qualname, []):
        if cls in cs.classes() and init is not None:
            bnd = bind_args(cs.term, init, 1) or {}
            rep.ob("C11.wiring", "FileAnonymizer.__init__", bnd.get(init.mparams[1]) == ("param", "as_numbers") and bnd.get("salt") == ("attr", SELF, "salt"),
                   "AsNumberAnonymizer(%s)" % {k: show(v) for k, v in bnd.items()}, cs.where, key="C11.wiring|FileAnonymizer.__init__")
    swallowed = [pth.describe()[-120:] for pth in A.paths(f_fa).paths if pth.feasible() and pth.kind != "raise" and any(t[0] == "except" for t, pol in pth.atoms())]
    rep.ob("C11.stage-failure-not-swallowed", "FileAnonymizer.__init__", not swallowed, "the constructor catches an exception and carries on (%s): an invalid entry in the AS-number list would silently disable the stage and leave every listed number in the output" % swallowed[:2], where(f_fa), key="C11.stage-failure-not-swallowed|FileAnonymizer.__init__")
    order = [s for s, _ in stage_order(ctx)]
    rep.ob("C11.stage-last", "anonymize_io", bool(order) and order[-1] == "as", "AS-number stage is the last stage (%s): nothing rewrites its output" % order, where(p.find_function("FileAnonymizer.anonymize_io")), nontrivial=False)


CHECKS = {"C06": c06, "C11": c11}
