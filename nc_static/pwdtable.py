"""The ordered table of secret-line patterns, as the program builds it, obtained
by constant folding + a shape check of generate_default_sensitive_item_regexes."""
from . import rx
from .rx import RxError, CharSet
from .flow import show
from .source import AnalysisError
from .fold import Unfoldable
from . import match as M

SIR = "netconan.sensitive_item_removal"


class Pat:
    def __init__(self, text, idx, gi, pi, source):
        self.text = text  # without the allowed prefix
        self.idx = idx
        self.gi, self.pi = gi, pi  # group index, index inside group
        self.source = source  # name of the list it comes from
        self.tree = self.info = self.error = None

    @property
    def ident(self):
        """Stable identity of a pattern for finding keys: its own text."""
        return self.text if len(self.text) <= 70 else self.text[:67] + "..."


def load(ctx, rep, cl):
    """Return (prefix_text, [[Pat]]) or raise AnalysisError."""
    p, A, folder = ctx.p, ctx.A, ctx.folder
    f = p.find_function("generate_default_sensitive_item_regexes")
    rep.analysed(f)
    fp = A.paths(f)
    if len(fp.paths) != 1 or fp.paths[0].kind != "return":
        raise AnalysisError("generate_default_sensitive_item_regexes: unrecognised control flow")
    r = fp.paths[0].returned()
    # expected: [[(re.compile(PREFIX + regex_), num) for regex_, num in group] for group in COMBINED]
    ok = r[0] == "comp" and r[1] == "list" and len(r[4]) == 1
    combined = prefix_term = None
    if ok:
        gvar, combined, gconds = r[4][0]
        inner = r[3]
        ok = not gconds and inner[0] == "comp" and inner[1] == "list" and len(inner[4]) == 1 and inner[4][0][1] == gvar and not inner[4][0][2]
        if ok:
            tvar = inner[4][0][0]
            elt = inner[3]
            rx_v, num_v = ("sub", tvar, ("const", 0)), ("sub", tvar, ("const", 1))
            ok = elt[0] == "tuple" and len(elt[1]) == 2 and elt[1][1] == num_v and M.is_call(elt[1][0]) and M.callee_name(elt[1][0]) == "compile" and len(elt[1][0][2]) == 1 and not elt[1][0][3]
            if ok:
                arg = elt[1][0][2][0]
                ok = arg[0] == "binop" and arg[1] == "+" and arg[3] == rx_v
                prefix_term = arg[2] if ok else None
    rep.ob(cl + ".table-construction", f.name, ok,
           "pattern table is built as %s; expected [[(re.compile(PREFIX + regex), index) for regex, index in group] for group in <concatenated lists>] with no flags" % show(r)[:300],
           "%s:%d" % (f.module.relpath, f.node.lineno), key=cl + ".table-construction|" + f.name)
    if not ok:
        raise AnalysisError("pattern table construction not recognised; cannot enumerate patterns")
    # prefix
    if prefix_term[0] != "global":
        raise AnalysisError("allowed-prefix is not a module constant: %s" % show(prefix_term))
    prefix = folder.need_module_const(prefix_term[1], prefix_term[2])
    # combined = a + b + c + d of module-level lists
    parts = M.concat_parts(combined)
    groups = []
    for part in parts:
        if part[0] != "global":
            raise AnalysisError("pattern list component is not a module constant: %s" % show(part))
        try:
            val = folder._module_name(p.modules[part[1]], part[2])
        except Unfoldable as e:
            raise AnalysisError("pattern list %s does not fold: %s" % (part[2], e))
        if not isinstance(val, list):
            raise AnalysisError("pattern list %s is not a list" % part[2])
        for g in val:
            if not isinstance(g, list):
                raise AnalysisError("pattern group in %s is not a list" % part[2])
            grp = []
            for t in g:
                if not (isinstance(t, tuple) and len(t) == 2 and isinstance(t[0], str) and (t[1] is None or isinstance(t[1], int))):
                    raise AnalysisError("malformed pattern entry %r in %s" % (t, part[2]))
                grp.append(Pat(t[0], t[1], len(groups), len(grp), part[2]))
            groups.append(grp)
    for g in groups:
        for pat in g:
            try:
                pat.tree, pat.info = rx.parse(prefix + pat.text, 0)
            except RxError as e:
                pat.error = str(e)
    return prefix, groups


def strip_allowed_prefix(tree, prefix_tree):
    """Remove the leading allowed-prefix look-behind alternation from a pattern tree."""
    items = rx.top_items(tree)
    pitems = rx.top_items(prefix_tree)
    n = len(pitems)
    if items[:n] == pitems:
        return items[n:]
    return None
