"""The ordered table of secret-line patterns, as the program builds it, obtained
by constant folding + a shape check of generate_default_sensitive_item_regexes."""
from . import rx
from .rx import RxError, CharSet
from .flow import show
from .source import AnalysisError
from .fold import Unfoldable, Rx
import os
from . import match as M

SIR = "netconan.sensitive_item_removal"


class Pat:
    def __init__(self, text, idx, gi, pi, source):
        self.text = text  # without the allowed prefix
        self.idx = idx
        self.gi, self.pi = gi, pi  # group index, index inside group
        self.source = source  # name of the list it comes from
        self.tree = self.info = self.error = None

    @property
    def ident(self):
        """Stable identity of a pattern for finding keys: its own text."""
        return self.text if len(self.text) <= 70 else self.text[:67] + "..."


def _zero_width(tree):
    from .secret_struct import _is_zero_width
    return _is_zero_width(tree)


def load(ctx, rep, cl):
    """Return (prefix_text, [[Pat]]).  The table is obtained by compile-time evaluation (constant folding)
    of generate_default_sensitive_item_regexes(): whatever way the function assembles it (comprehension,
    loops, helper functions, lists imported from another module), the folded value is what is analysed."""
    p, A, folder = ctx.p, ctx.A, ctx.folder
    f = p.find_function("generate_default_sensitive_item_regexes")
    rep.analysed(f)
    loc = "%s:%d" % (f.module.relpath, f.node.lineno)
    try:
        table = folder.call_function(f, [], {})
    except Unfoldable as e:
        raise AnalysisError("pattern table does not fold: %s" % e)
    ok = isinstance(table, list) and table and all(isinstance(g, list) and g and all(isinstance(t, tuple) and len(t) == 2 and isinstance(t[0], Rx) and (t[1] is None or isinstance(t[1], int)) for t in g) for g in table)
    rep.ob(cl + ".table-construction", f.name, ok, "the pattern table folds to a non-empty list of groups of (compiled pattern, group index or None) entries (%s groups)" % (len(table) if isinstance(table, list) else "?"), loc, key=cl + ".table-construction|" + f.name)
    if not ok:
        raise AnalysisError("pattern table has an unexpected shape; cannot enumerate patterns")
    flags = {t[0].flags for g in table for t in g}
    rep.ob(cl + ".table-flags", f.name, flags == {0}, "patterns are compiled without flags (%s)" % sorted(flags), loc)
    texts = [t[0].pattern for g in table for t in g]
    prefix = None
    try:
        cand = folder.module_const(SIR, "_ALLOWED_REGEX_PREFIX")
        if isinstance(cand, str) and all(x.startswith(cand) for x in texts):
            prefix = cand
    except Unfoldable:
        pass
    if prefix is None:
        common = os.path.commonprefix(texts)
        for n in range(len(common), -1, -1):
            try:
                tree, info = rx.parse(common[:n], 0)
            except RxError:
                continue
            if _zero_width(tree) and info["groups"] == 0:
                prefix = common[:n]
                break
    groups = []
    for gi, g in enumerate(table):
        grp = []
        for pi, (r, idx) in enumerate(g):
            pat = Pat(r.pattern[len(prefix):], idx, gi, pi, "table")
            try:
                pat.tree, pat.info = rx.parse(r.pattern, r.flags)
            except RxError as e:
                pat.error = str(e)
            grp.append(pat)
        groups.append(grp)
    return prefix, groups


def strip_allowed_prefix(tree, prefix_tree):
    """Remove the leading allowed-prefix look-behind alternation from a pattern tree."""
    items = rx.top_items(tree)
    pitems = rx.top_items(prefix_tree)
    n = len(pitems)
    if items[:n] == pitems:
        return items[n:]
    return None
