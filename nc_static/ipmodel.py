"""Structural facts about the IP anonymizer classes, shared by C01-C05, C17."""
import ipaddress

from .flow import show, subterms, strip_mut, walk_effects, MUTATORS
from .source import AnalysisError, ShapeError
from .fold import Unfoldable
from . import match as M
from .calls import bind_args

SELF = ("param", "self")


def where(fn, node=None):
    return "%s:%d (%s)" % (fn.module.relpath, getattr(node, "lineno", fn.node.lineno), fn.qualname.split(".", 1)[1])


class IpModel:
    def __init__(self, ctx):
        self.ctx = ctx
        self.A, self.G, self.p, self.folder = ctx.A, ctx.G, ctx.p, ctx.folder
        p = self.p
        self.base = p.find_class("_BaseIpAnonymizer")
        self.v4 = p.find_class("IpAnonymizer")
        self.v6 = p.find_class("IpV6Anonymizer")
        for c in (self.v4, self.v6):
            if self.base not in c.mro():
                raise ShapeError("%s no longer derives from %s" % (c.name, self.base.name), "%s:%d" % (c.module.relpath, c.node.lineno), "hierarchy:%s" % c.name)
        self.f_init = self.method(self.base, "__init__")
        self.f_anon = self.method(self.base, "anonymize")
        self.f_fwd = self.method(self.base, "_anonymize_bits")
        self.f_dean = self.method(self.base, "deanonymize")
        self.f_inv = self.method(self.base, "_deanonymize_bits")
        self.f_dump = self.method(self.base, "dump_to_file")
        self.f_salter = p.find_function("_generate_bit_from_hash")
        self.f_v4init = self.method(self.v4, "__init__")
        self.f_match = p.find_function("_anonymize_match")
        self.f_addr = p.find_function("anonymize_ip_addr")
        self._fields()

    def method(self, cls, name):
        if name not in cls.methods:
            raise ShapeError("anchor method %s.%s not found; the clauses anchored in it cannot be discharged" % (cls.name, name), "%s:%d" % (cls.module.relpath, cls.node.lineno), "anchor:%s.%s" % (cls.name, name))
        return cls.methods[name]

    # ------------------------------------------------------------------
    def _fields(self):
        """Discover the role of each constructor field from the base constructor."""
        fp = self.A.paths(self.f_init)
        self.init_stores = {}
        for path in [x for x in fp.paths if x.feasible()]:
            for e, ls in path.stores():
                if e.kind == "store_attr" and e.a == SELF:
                    self.init_stores.setdefault(e.b, []).append((e, path))
        self.CACHE = None
        for name, lst in self.init_stores.items():
            for e, path in lst:
                v = e.c
                if M.is_call(v):
                    ts = self.G.types_of(v[1], self.f_init)
                    if ("ext", "bidict.bidict") in ts:
                        self.CACHE = name
                        self.cache_init = (e, path)
        if self.CACHE is None:
            raise ShapeError("memo field (a bidict assigned in %s) not found" % self.f_init.qualname, self.f_init.where, self.f_init.qualname)
        params = self.f_init.params

        def field_of_param(pn):
            for name, lst in self.init_stores.items():
                for e, path in lst:
                    if e.c == ("param", pn):
                        return name  # the field that holds the parameter itself, wherever it is assigned
            for name, lst in self.init_stores.items():
                for e, path in lst:
                    if any(s == ("param", pn) for s in subterms(e.c)):
                        return name
            return None

        # roles by parameter position: (self, salt, length, salter=..., preserve_suffix=...)
        self.SALT = field_of_param("salt")
        self.LENGTH = field_of_param("length")
        self.SALTER = field_of_param("salter")
        self.SUFFIX = field_of_param("preserve_suffix")
        for role, v in (("salt", self.SALT), ("length", self.LENGTH), ("salter", self.SALTER), ("preserve_suffix", self.SUFFIX)):
            if v is None:
                raise ShapeError("constructor parameter %r of %s is not stored in a field as given (the model's role fields are the parameters themselves)" % (role, self.f_init.qualname), self.f_init.where, "%s:%s" % (self.f_init.qualname, role))
        # the field holding the binary format string: built from `length`
        self.FMT = None
        for name, lst in self.init_stores.items():
            if name in (self.LENGTH,):
                continue
            for e, path in lst:
                if any(s == ("param", "length") for s in subterms(e.c)) and name != self.LENGTH:
                    self.FMT = name
                    self.fmt_store = e

    def cacheref(self, t, owner=SELF):
        """Classify a term as a reference to the memo: 'direct' | 'inverse' | None."""
        if t == ("attr", owner, self.CACHE):
            return "direct"
        if t[0] == "attr" and t[2] in ("inv", "inverse") and t[1] == ("attr", owner, self.CACHE):
            return "inverse"
        return None

    def lookup(self, t):
        """If t reads the memo return (direction, key term)."""
        if M.is_call(t) and t[1][0] == "attr" and t[1][2] == "get" and len(t[2]) in (1, 2):
            d = self.cacheref(t[1][1])
            if d and (len(t[2]) == 1 or M.is_const(t[2][1]) and t[2][1][1] is None):
                return d, t[2][0]
        if t[0] == "sub":
            d = self.cacheref(t[1])
            if d:
                return d, t[2]
        return None

    def bits_term(self, fn):
        """Term of the full binary text built from the integer parameter in anonymize/deanonymize."""
        return ("call", ("attr", ("attr", SELF, self.FMT), "format"), (("param", fn.mparams[1]),), ())

    # ------------------------------------------------------------------
    def check_walk(self, rep, cl, inverse=False):
        """Clauses on the recursive bit walk (forward or inverse)."""
        fn = self.f_inv if inverse else self.f_fwd
        rep.analysed(fn)
        want_dir = "inverse" if inverse else "direct"
        fp = self.A.paths(fn)
        bits = ("param", fn.mparams[1])
        name = fn.name
        hits, misses = [], []
        for path in [x for x in fp.paths if x.feasible()]:
            if path.kind == "raise":
                rep.fail(cl + ".walk-total", name, "the walk has a raising path (%s)" % path.describe(), where(fn, path.result[2]))
                continue
            r = path.returned()
            lk = self.lookup(r)
            if lk is not None:
                hits.append((path, lk))
            else:
                misses.append(path)
        rep.ob(cl + ".memo-hit-exists", name, bool(hits), "a path returning the memo entry for the argument exists (recursion floor \"\" relies on it): %d" % len(hits), where(fn))
        for path, (d, key) in hits:
            ok = d == want_dir and key == bits
            rep.ob(cl + ".memo-hit", name, ok,
                   "hit path returns %s; expected the %s view keyed by the argument" % (show(path.returned()), want_dir), where(fn, path.result[2]),
                   key="%s.memo-hit|%s" % (cl, name))
            # guard must establish presence (is not None / in)
            guard_ok = False
            for t, pol, _ in path.conds:
                nt = None
                for s in (t,):
                    if s[0] == "compare" and len(s[2]) == 2:
                        if self.lookup(s[2][0]) == (d, key):
                            nt = M.is_none_test(s, s[2][0])
                            if nt is False and pol or nt is True and not pol:
                                guard_ok = True
                        if s[1] == ("in",) and s[2][0] == key and self.cacheref(s[2][1]) == d and pol:
                            guard_ok = True
                        if s[1] == ("not in",) and s[2][0] == key and self.cacheref(s[2][1]) == d and not pol:
                            guard_ok = True
            rep.ob(cl + ".memo-hit-guard", name, guard_ok, "hit path is guarded by presence of the key (%s)" % path.describe(), where(fn, path.result[2]))
        rep.ob(cl + ".miss-path-exists", name, bool(misses), "a computing (miss) path exists", where(fn))
        facts = []
        for path in misses:
            r = path.returned()
            parts = M.concat_parts(r)
            w = where(fn, path.result[2] if path.result else fn.node)
            if len(parts) != 2:
                rep.fail(cl + ".shape", name, "miss path returns %s; expected <recursive result> + <one bit>" % show(r), w)
                continue
            headpart, bitpart = parts
            # recursive call on the proper prefix
            rec_ok = M.is_call(headpart) and headpart[1] == ("attr", SELF, fn.name) and len(headpart[2]) == 1 and M.drop_last(headpart[2][0]) == bits
            rep.ob(cl + ".prefix-recursion", name, rec_ok,
                   "leading part is %s; expected %s(%s[:-1])" % (show(headpart), fn.name, bits[1]), w)
            xo = M.xor_operands(bitpart)
            if xo is None:
                rep.fail(cl + ".xor", name, "last bit is %s; not an xor-like combination of flip bit and last input bit" % show(bitpart), w)
                continue
            a, b = xo
            if M.last_char_int(b, bits):
                flip, last = a, b
            elif M.last_char_int(a, bits):
                flip, last = b, a
            else:
                rep.fail(cl + ".xor", name, "xor operands %s, %s: neither is int(%s[-1])" % (show(a), show(b), bits[1]), w)
                continue
            rep.ob(cl + ".xor", name, M.builtin_call(M.unwrap(bitpart, ()), "str", 1) or True, "last bit = %s" % show(bitpart), w)
            # flip bit
            flip_ok = M.is_call(flip) and flip[1] == ("attr", SELF, self.SALTER) and len(flip[2]) == 2 and not flip[3]
            if not flip_ok:
                b2 = None
                if M.is_call(flip) and flip[1] == ("attr", SELF, self.SALTER):
                    b2 = True
                rep.fail(cl + ".flip", name, "flip bit is %s; expected self.%s(self.%s, <prefix>)" % (show(flip), self.SALTER, self.SALT), w)
                continue
            salt_ok = flip[2][0] == ("attr", SELF, self.SALT)
            rep.ob(cl + ".flip-salt", name, salt_ok, "first salter argument is %s; expected self.%s" % (show(flip[2][0]), self.SALT), w)
            arg = flip[2][1]
            if not inverse:
                ok = M.drop_last(arg) == bits
                rep.ob(cl + ".flip-independent", name, ok,
                       "second salter argument is %s; must be exactly the proper prefix %s[:-1] (independent of the current bit, of the memo and of any other state)" % (show(arg), bits[1]), w,
                       key="%s.flip-independent|%s" % (cl, name))
            else:
                ok = arg == headpart
                rep.ob(cl + ".flip-recovered-prefix", name, ok,
                       "inverse flip bit hashes %s; must hash the RECOVERED original prefix %s (result of the recursive inverse call), not the anonymized bits" % (show(arg), show(headpart)), w,
                       key="%s.flip-recovered-prefix|%s" % (cl, name))
            # memo store: exactly one, key = argument, value = returned term, through the right view
            stores = [e for e, ls in path.stores() if e.kind == "store_sub" and self.cacheref(e.a)]
            ok = len(stores) == 1 and self.cacheref(stores[0].a) == want_dir and stores[0].b == bits and stores[0].c == r
            rep.ob(cl + ".memo-store", name, ok,
                   "memo stores on the miss path: %s; expected exactly one: %s view, key = argument, value = the returned term" % ([repr(s) for s in stores], want_dir), w,
                   key="%s.memo-store|%s" % (cl, name))
            facts.append({"flip": show(flip), "bit": show(bitpart), "ret": show(r)})
        # direction typestate: every memo reference in this function uses the right view
        for e, ls, path in fp.all_effects():
            terms = [e.a] if e.kind in ("call", "store_sub") else []
            for t in terms:
                for s in subterms(t):
                    if s == ("attr", SELF, self.CACHE):
                        pass
            if e.kind == "call":
                lk = self.lookup(e.a)
                if lk and lk[0] != want_dir:
                    rep.fail(cl + ".direction", name, "%s walk reads the memo through the %s view: %s" % ("inverse" if inverse else "forward", lk[0], show(e.a)), where(fn, e.node))
        rep.sample({"function": fn.qualname, "miss_paths": facts, "hit_paths": [show(p.returned()) for p, _ in hits]})
        return facts

    # ------------------------------------------------------------------
    def check_salter(self, rep, cl):
        fn = self.f_salter
        rep.analysed(fn)
        fp = self.A.paths(fn)
        ok_all = True
        for path in [x for x in fp.paths if x.feasible()]:
            w = where(fn, path.result[2] if path.result else fn.node)
            if path.kind != "return":
                rep.fail(cl + ".salter-total", fn.name, "salter has a non-returning path", w)
                continue
            r = path.returned()
            bit = (r[0] == "binop" and r[1] == "&" and (M.is_const(r[3], 1) or M.is_const(r[2], 1))) or (r[0] == "binop" and r[1] == "%" and M.is_const(r[3], 2))
            rep.ob(cl + ".salter-range", fn.name, bit, "salter returns %s; must be a value in {0,1} (X & 1 or X %% 2)" % show(r), w)
            leaves = set()
            for s in subterms(r):
                if s[0] in ("param", "global", "attr", "unbound", "builtin") and s[0] != "builtin":
                    if s[0] == "attr":
                        continue
                    leaves.add(s)
            params = {("param", x) for x in fn.params}
            extra = {l for l in leaves if l not in params and not (l[0] == "global")}
            globs = {l for l in leaves if l[0] == "global"}
            bad_globs = []
            for g in globs:
                ts = self.G.types_of(g, fn)
                if not ts or not all(t[0] == "ext" for t in ts):
                    bad_globs.append(g)
            rep.ob(cl + ".salter-pure", fn.name, not extra and not bad_globs,
                   "salter result depends only on its parameters (other roots: %s)" % [show(x) for x in list(extra) + bad_globs], w)
            used = {l for l in leaves if l in params}
            rep.ob(cl + ".salter-keyed", fn.name, used == params, "salter result depends on every parameter (salt and prefix): uses %s" % sorted(x[1] for x in used), w)
            # every call inside is a pure external function
            pure = {"hashlib.md5", "hashlib.hash.hexdigest", "str.encode", "builtins.int", "builtins.str", "hashlib.sha256", "hashlib.sha1", "builtins.ord", "builtins.bytes"}
            for e, ls in path.calls():
                ts = self.G.resolve_callee(e.a[1], fn)
                if ts and all(t[0] == "func" and t[1].qualname in self.ctx.helpers for t in ts):
                    continue  # a helper analysed inlined: its own calls are on this path
                names = {t[1] for t in ts if t[0] == "ext"}
                okc = bool(ts) and all(t[0] == "ext" for t in ts) and names <= pure | {"?.encode", "?.hexdigest"}
                if not okc:
                    # method on an untyped receiver (string concatenation of parameters)
                    nm = M.callee_name(e.a)
                    okc = nm in ("encode", "hexdigest")
                rep.ob(cl + ".salter-calls-pure", "%s:%s" % (fn.name, M.callee_name(e.a)), okc, "call %s resolves to %s" % (show(e.a), sorted(names)), where(fn, e.node))
        # who installs a salter: only the base constructor, from its parameter
        for f in self.p.all_functions():
            for e, ls, path in self.A.paths(f).all_effects():
                if e.kind == "store_attr" and e.b == self.SALTER and f is not self.f_init:
                    rep.fail(cl + ".salter-writer", f.qualname, "field %s assigned outside the base constructor: %r" % (self.SALTER, e), where(f, e.node))
        for e, path in self.init_stores.get(self.SALTER, []):
            rep.ob(cl + ".salter-writer", self.f_init.name, e.c == ("param", "salter"), "self.%s = %s" % (self.SALTER, show(e.c)), where(self.f_init, e.node))
        d = self.f_init.defaults.get("salter")
        import ast as _ast
        dflt_ok = isinstance(d, _ast.Name) and self.p.resolve_module_name(self.f_init.module, d.id) == ("func", self.f_salter)
        rep.ob(cl + ".salter-default", self.f_init.name, dflt_ok, "default salter is %s" % (d.id if isinstance(d, _ast.Name) else d), where(self.f_init))
        # no caller in the package passes another salter
        for cs in self.G.sites:
            for t in cs.targets:
                callee = None
                if t[0] == "cls" and self.base in t[1].mro():
                    callee = t[1].find_method("__init__")
                    b = bind_args(cs.term, callee, 1)
                    if b and ("salter" in b or "**salter" in b):
                        rep.fail(cl + ".salter-override", cs.owner.qualname, "a non-default salter is passed at %s" % show(cs.term), cs.where)

    # ------------------------------------------------------------------
    def check_base_init(self, rep, cl):
        fn = self.f_init
        rep.analysed(fn)
        e, path = self.cache_init
        v = e.c
        arg_ok = len(v[2]) == 1 and v[2][0] == ("dict", ((("const", ""), ("const", "")),))
        rep.ob(cl + ".base-case", fn.name, arg_ok and len(self.init_stores[self.CACHE]) == len(self.A.paths(fn).paths),
               "memo initialised as %s; expected bidict({\"\": \"\"}) (the only floor of the recursion)" % show(v), where(fn, e.node))
        # suffix defaulting: 0 when None
        for e2, p2 in self.init_stores.get(self.SUFFIX, []):
            t = e2.c
            ok = False
            ps = ("param", "preserve_suffix")
            if t[0] == "ifexp":
                nt = M.is_none_test(t[1], ps)
                if nt is True:
                    ok = M.is_const(t[2], 0) and t[3] == ps
                elif nt is False:
                    ok = M.is_const(t[3], 0) and t[2] == ps
            elif t[0] == "boolop" and t[1] == "or" and t[2] == (ps, ("const", 0)):
                ok = True
            elif t == ps:
                ok = p2.truth(("compare", ("is",), (ps, ("const", None)))) is False
            elif M.is_const(t, 0):
                ok = p2.truth(("compare", ("is",), (ps, ("const", None)))) is True
            rep.ob(cl + ".suffix-default", fn.name, ok, "self.%s = %s; expected the parameter, 0 when None" % (self.SUFFIX, show(t)), where(fn, e2.node))
        # width format
        if self.FMT is None:
            rep.fail(cl + ".width", fn.name, "no field derived from `length` holds the binary format", where(fn))
        else:
            import ast as _ast
            st = self.fmt_store.node
            for L in (32, 128, 7):
                okf, val = self.folder.try_eval(st.value, fn.module, env={"length": L})
                good = okf and val == "{:0%db}" % L
                if L != 7 or not good:
                    rep.ob(cl + ".width", "%s[length=%d]" % (fn.name, L), good, "format field folds to %r for length=%d; expected '{:0%db}' (zero-padded binary of exactly `length` digits)" % (val, L, L), where(fn, st))
        for e2, p2 in self.init_stores.get(self.LENGTH, []):
            rep.ob(cl + ".length-field", fn.name, e2.c == ("param", "length"), "self.%s = %s" % (self.LENGTH, show(e2.c)), where(fn, e2.node))
        for e2, p2 in self.init_stores.get(self.SALT, []):
            rep.ob(cl + ".salt-field", fn.name, e2.c == ("param", "salt"), "self.%s = %s" % (self.SALT, show(e2.c)), where(fn, e2.node))

    # ------------------------------------------------------------------
    def check_subclasses(self, rep, cl):
        """Widths 32/128, no overriding of the mapping functions, renderer family matches width."""
        core = {"anonymize", "_anonymize_bits", "deanonymize", "_deanonymize_bits", "dump_to_file", "_ip_to_str"}
        for c in self.p.subclasses(self.base):
            # through the whole method resolution order: a mix-in listed before the base wins over the base as well
            over = sorted(n for n in core if c.find_method(n) is not self.base.methods.get(n))
            rep.ob(cl + ".no-override", c.name, not over, "for %s the mapping functions %s resolve to %s, not to %s's own" % (c.name, over, [getattr(c.find_method(n), "qualname", None) for n in over], self.base.name), "%s:%d" % (c.module.relpath, c.node.lineno))
        for c, width, fam in ((self.v4, 32, "ipaddress.IPv4Address"), (self.v6, 128, "ipaddress.IPv6Address")):
            init = c.methods.get("__init__")
            if init is None:
                rep.fail(cl + ".width-arg", c.name, "no constructor", "")
                continue
            rep.analysed(init)
            found = False
            for path in self.A.paths(init).paths:
                for e, ls in path.calls():
                    t = e.a
                    if t[1][0] == "attr" and t[1][2] == "__init__" and M.is_call(t[1][1]) and t[1][1][1] == ("builtin", "super"):
                        b = bind_args(t, self.f_init, 1)
                        found = True
                        okw = b is not None and b.get("length") == ("const", width)
                        rep.ob(cl + ".width-arg", c.name, okw, "super().__init__ binds length=%s; expected %d" % (show(b.get("length")) if b else None, width), where(init, e.node))
                        oks = b is not None and b.get("salt") == ("param", init.mparams[1])
                        rep.ob(cl + ".salt-arg", c.name, oks, "super().__init__ binds salt=%s" % (show(b.get("salt")) if b else None), where(init, e.node))
                        kw_ok = b is not None and (b.get("**") == ("param", "**" + (init.kwarg or "")) or b.get("preserve_suffix") is not None)
                        rep.ob(cl + ".suffix-forwarded", c.name, kw_ok, "constructor forwards preserve_suffix to the base (%s)" % (sorted(b) if b else None), where(init, e.node))
            rep.ob(cl + ".width-arg-found", c.name, found, "base constructor is called", where(init))
            mk = c.methods.get("make_addr_from_int")
            if mk is None:
                rep.fail(cl + ".renderer", c.name, "make_addr_from_int missing", "")
            else:
                for path in self.A.paths(mk).paths:
                    r = path.returned()
                    ts = self.G.types_of(r, mk) if r else set()
                    rep.ob(cl + ".renderer", c.name, ts == {("xinst", fam)}, "make_addr_from_int returns %s (%s); expected %s of its integer argument" % (show(r), sorted(ts), fam), where(mk))
                    if M.is_call(r):
                        rep.ob(cl + ".renderer-arg", c.name, r[2] == (("param", mk.mparams[1]),), "renderer argument %s" % show(r), where(mk))

    # ------------------------------------------------------------------
    def check_split(self, rep, cl, inverse=False):
        """anonymize / deanonymize: host-bit split."""
        fn = self.f_dean if inverse else self.f_anon
        walk = self.f_inv if inverse else self.f_fwd
        rep.analysed(fn)
        fp = self.A.paths(fn)
        s = ("attr", SELF, self.SUFFIX)
        BITS = self.bits_term(fn)
        name = fn.name
        n_split = n_plain = 0
        out = {}
        for path in [x for x in fp.paths if x.feasible()]:
            w = where(fn, path.result[2] if path.result else fn.node)
            if path.kind != "return":
                rep.fail(cl + ".total", name, "path %s does not return" % path.describe(), w)
                continue
            r = path.returned()
            ok_int = M.builtin_call(r, "int", 2) and M.is_const(r[2][1], 2)
            rep.ob(cl + ".result-int", name, ok_int, "returns %s; expected int(<bits>, 2)" % show(r), w)
            if not ok_int:
                continue
            body = r[2][0]
            parts = M.concat_parts(body)
            if len(parts) == 1:
                n_plain += 1
                t = parts[0]
                ok = M.is_call(t) and t[1] == ("attr", SELF, walk.name) and t[2] == (BITS,)
                rep.ob(cl + ".unsplit", name, ok, "unsplit path computes %s; expected %s(<width-formatted bits of the argument>)" % (show(t), walk.name), w)
                rep.ob(cl + ".unsplit-guard", name, M.zero_guard(path.conds, s), "unsplit path is taken only when self.%s == 0 (conditions: %s)" % (self.SUFFIX, path.describe()), w)
                out["plain"] = path
            elif len(parts) == 2:
                n_split += 1
                lead, tail = parts
                ok1 = M.is_call(lead) and lead[1] == ("attr", SELF, walk.name) and len(lead[2]) == 1
                la = M.slice_of(lead[2][0]) if ok1 else None
                ok1 = ok1 and la is not None and la[0] == BITS and la[1] is None and la[2] is not None and M.neg_of(la[2]) == s
                rep.ob(cl + ".split-lead", name, ok1, "leading part %s; expected %s(bits[:-self.%s])" % (show(lead), walk.name, self.SUFFIX), w)
                ta = M.slice_of(tail)
                ok2 = ta is not None and ta[0] == BITS and ta[2] is None and ta[1] is not None and M.neg_of(ta[1]) == s
                rep.ob(cl + ".split-tail", name, ok2, "trailing part %s; expected bits[-self.%s:] verbatim (same count as the leading slice)" % (show(tail), self.SUFFIX), w,
                       key="%s.split-tail|%s" % (cl, name))
                rep.ob(cl + ".split-guard", name, M.nonzero_guard(path.conds, s),
                       "split path is guarded by self.%s != 0 (bits[:-0] would be empty): %s" % (self.SUFFIX, path.describe()), w)
                out["split"] = path
            else:
                rep.fail(cl + ".shape", name, "returns int(%s, 2): unrecognised composition" % show(body), w)
        rep.ob(cl + ".both-paths", name, n_split >= 1 and n_plain >= 1, "split paths: %d, unsplit paths: %d" % (n_split, n_plain), where(fn))
        # the formatted bits really are the width format of the integer
        for path in [x for x in fp.paths if x.feasible()]:
            for e, ls in path.calls():
                pass
        return out

    def check_full_store(self, rep, cl):
        """With host bits kept, the full-length entry (bits -> returned bits) is stored explicitly."""
        fn = self.f_anon
        fp = self.A.paths(fn)
        BITS = self.bits_term(fn)
        s = ("attr", SELF, self.SUFFIX)
        for path in [x for x in fp.paths if x.feasible()]:
            if path.kind != "return":
                continue
            r = path.returned()
            if not (M.builtin_call(r, "int", 2)):
                continue
            body = r[2][0]
            stores = [e for e, ls in path.stores() if e.kind == "store_sub" and self.cacheref(e.a)]
            w = where(fn, path.result[2])
            if len(M.concat_parts(body)) == 2:
                ok = len(stores) == 1 and self.cacheref(stores[0].a) == "direct" and stores[0].b == BITS and stores[0].c == body
                rep.ob(cl + ".full-entry-store", fn.name, ok,
                       "split path memo stores: %s; expected exactly cache[<full bits>] = <returned bits (anonymized lead + kept suffix)>" % [repr(x) for x in stores], w,
                       key="%s.full-entry-store|%s" % (cl, fn.name))
                # unconditional on the split path: no extra condition between split guard and store
                extra = [c for c in path.conds if not (M.nonzero_guard([c], s) or M.zero_guard([c], s)) and c[0][0] != "const"]
                rep.ob(cl + ".full-entry-unconditional", fn.name, not extra,
                       "the store is not guarded by anything but the host-bit test (extra conditions: %s)" % [show(c[0]) for c in extra], w)
            else:
                rep.ob(cl + ".plain-no-store", fn.name, not stores, "unsplit path relies on the walk's own store (stores here: %s)" % [repr(x) for x in stores], w)

    # ------------------------------------------------------------------
    def pin_facts(self, rep, cl):
        """Pin loop of IpAnonymizer.__init__: identity pins in sibling pairs at every depth."""
        fn = self.f_v4init
        rep.analysed(fn)
        fp = self.A.paths(fn)
        results = []
        for path in [x for x in fp.paths if x.feasible()]:
            if path.kind == "raise":
                continue
            outer = [e for e in path.effects if e.kind == "loop"]
            pin_loops = []
            for e in outer:
                li = e.a
                has_store = any(x.kind == "store_sub" and self.cacheref(x.a) for bp in li.body_paths for x, _ in walk_effects(bp.effects))
                if has_store:
                    pin_loops.append(li)
            w = where(fn)
            if len(pin_loops) != 1:
                rep.fail(cl + ".pin-loop", fn.name, "expected one loop that seeds the memo, found %d on path %s" % (len(pin_loops), path.describe()), w)
                continue
            li = pin_loops[0]
            results.append((path, li))
            w = where(fn, li.node)
            for bp in li.body_paths:
                if bp.result is not None:
                    rep.fail(cl + ".pin-loop-exit", fn.name, "pin loop body leaves early (%s) on %s" % (bp.kind, bp.describe()), w)
                    continue
                if bp.conds:
                    rep.fail(cl + ".pin-unconditional", fn.name, "pinning is conditional on %s" % bp.describe(), w)
                inner = [x for x in bp.effects if x.kind == "loop"]
                direct = [x for x in bp.effects if x.kind == "store_sub" and self.cacheref(x.a)]
                if direct or len(inner) != 1:
                    rep.fail(cl + ".pin-shape", fn.name, "unrecognised pin structure (direct stores: %d, inner loops: %d)" % (len(direct), len(inner)), w)
                    continue
                il = inner[0].a
                subnet_var = ("loopvar", li.uid, li.iter, ())
                # prefix bits: first prefixlen chars of width-formatted network address
                net = ("call", ("attr", ("global", fn.module.name, "ipaddress"), "ip_network"), (subnet_var,), ())
                fmtcall = ("call", ("attr", ("attr", SELF, self.FMT), "format"), (("call", ("builtin", "int"), (("attr", net, "network_address"),), ()),), ())
                PB = ("sub", fmtcall, ("slice", None, ("attr", net, "prefixlen"), None))
                it = il.iter
                wi = where(fn, il.node)
                ok_iter = False
                pb_seen = None
                V = None  # term of the node whose two children are pinned in one iteration
                if M.builtin_call(it, "range") and not it[3]:
                    # form A: for pos in range(len(PB)): V = PB[:pos]
                    args = it[2]
                    hi = args[0] if len(args) == 1 else args[1] if len(args) == 2 and M.is_const(args[0], 0) else None
                    if hi is not None and M.builtin_call(hi, "len", 1):
                        pb_seen = hi[2][0]
                        ok_iter = True
                        V = ("sub", pb_seen, ("slice", None, ("loopvar", il.uid, il.iter, ()), None))
                elif M.builtin_call(it, "enumerate", 1) and not it[3]:
                    # form B: for pos, _ in enumerate(PB): V = PB[:pos]
                    pb_seen = it[2][0]
                    ok_iter = True
                    V = ("sub", pb_seen, ("slice", None, ("loopvar", il.uid, il.iter, (0,)), None))
                elif getattr(il, "enum_start", "absent") in (None, ("const", 0)) and any(x == ("loopindex", il.uid) for ibp_ in il.body_paths for e_ in ibp_.effects for t_ in (e_.a, e_.b, e_.c) if isinstance(t_, tuple) for x in subterms(t_)):
                    # form B after normalisation (`for pos, _ in enumerate(PB)` is a loop over PB with a running index): V = PB[:pos]
                    pb_seen = it
                    ok_iter = True
                    V = ("sub", pb_seen, ("slice", None, ("loopindex", il.uid), None))
                else:
                    # form C: prefix = ""; for bit in PB: pin(prefix); prefix += bit
                    bitv = ("loopvar", il.uid, il.iter, ())
                    for nme, (pre, posts) in il.carried.items():
                        if pre == ("const", "") and posts and all(x == ("binop", "+", ("carried", nme, il.uid), bitv) for x in posts):
                            pb_seen = it
                            ok_iter = True
                            V = ("carried", nme, il.uid)
                rep.ob(cl + ".pin-all-depths", fn.name, ok_iter,
                       "inner loop iterates %s; expected every depth 0..len-1 of the prefix bits (range(len(bits)), enumerate(bits) or an accumulated prefix)" % show(it), wi,
                       key="%s.pin-all-depths|%s" % (cl, fn.name))
                if pb_seen is not None:
                    # accept ip_network(x) with or without strict=...
                    norm = self._norm_network(pb_seen)
                    rep.ob(cl + ".pin-prefix-bits", fn.name, norm == PB,
                           "prefix bits are %s; expected the first `prefixlen` characters of the width-formatted network address of the list element" % show(pb_seen), wi,
                           key="%s.pin-prefix-bits|%s" % (cl, fn.name))
                pos = ("loopvar", il.uid, il.iter, ())
                for ibp in il.body_paths:
                    if ibp.result is not None or ibp.conds:
                        rep.fail(cl + ".pin-unconditional", fn.name, "inner pin body is conditional / leaves early: %s %s" % (ibp.kind, ibp.describe()), wi)
                        continue
                    st = [x for x in ibp.effects if x.kind == "store_sub" and self.cacheref(x.a)]
                    keys = set()
                    ident = True
                    for x in st:
                        if self.cacheref(x.a) != "direct" and x.b != x.c:
                            ident = False
                        if x.b != x.c:
                            ident = False
                        kp = M.concat_parts(x.b)
                        if len(kp) == 2 and kp[1][0] == "const" and kp[1][1] in ("0", "1"):
                            if V is not None and kp[0] == V:
                                keys.add(kp[1][1])
                            else:
                                keys.add("?" + show(kp[0]))
                        else:
                            keys.add("?" + show(x.b))
                    rep.ob(cl + ".pin-identity", fn.name, ident and bool(st), "every pin maps a node to itself: %s" % [repr(x) for x in st], wi,
                           key="%s.pin-identity|%s" % (cl, fn.name))
                    rep.ob(cl + ".pin-siblings", fn.name, keys == {"0", "1"},
                           "pinned children at each depth: %s; expected both prefix_bits[:pos]+'0' and +'1'" % sorted(keys), wi,
                           key="%s.pin-siblings|%s" % (cl, fn.name))
        return results

    def _norm_network(self, t):
        """Drop keyword arguments of ip_network() calls inside t (strict=False etc.)."""
        if not isinstance(t, tuple):
            return t
        if t and t[0] == "call" and M.callee_name(t) == "ip_network":
            return ("call", self._norm_network(t[1]), tuple(self._norm_network(a) for a in t[2]), ())
        if t and isinstance(t[0], str):
            return tuple(self._norm_network(x) if isinstance(x, tuple) else x for x in t)
        return tuple(self._norm_network(x) if isinstance(x, tuple) else x for x in t)

    # ------------------------------------------------------------------
    def default_pinned_nodes(self, prefixes):
        nodes = set()
        for pfx in prefixes:
            net = ipaddress.ip_network(pfx, strict=False)
            width = 32 if net.version == 4 else 128
            pb = format(int(net.network_address), "0%db" % width)[: net.prefixlen]
            for pos in range(len(pb)):
                nodes.add(pb[:pos] + "0")
                nodes.add(pb[:pos] + "1")
        return nodes


def memo_uses(model, rep, cl):
    """Inventory of every reference to the memo field anywhere in the package,
    classified by context; anything but the confirmed read/write idioms is reported."""
    C = model.CACHE
    A, p = model.A, model.p
    allowed_writers = {model.f_init.qualname, model.f_v4init.qualname, model.f_anon.qualname, model.f_fwd.qualname, model.f_inv.qualname}
    # helper methods (inlined into their callers) may write the memo on behalf of an allowed writer
    helpers = model.ctx.helpers
    callers = {}
    for cs in model.G.sites:
        for g in cs.funcs():
            callers.setdefault(g.qualname, set()).add(cs.owner.qualname)
    changed = True
    while changed:
        changed = False
        for h in helpers:
            if h not in allowed_writers and callers.get(h) and callers[h] <= allowed_writers:
                allowed_writers.add(h)
                changed = True
    uses = []
    for f in p.all_functions():
        if f.qualname in helpers:
            continue  # analysed inlined into its callers, in their context
        fp = A.paths(f)
        for e, ls, path in fp.all_effects():
            w = where(f, e.node)
            if e.kind == "store_attr" and e.b == C:
                ok = f is model.f_init
                rep.ob(cl + ".memo-rebind", f.qualname.split(".", 1)[1], ok, "memo field (re)assigned: %r" % e, w)
                uses.append(("rebind", f.qualname))
                continue
            if e.kind == "store_sub":
                base = e.a
                if any(s[0] == "attr" and s[2] == C for s in subterms(base)):
                    ok = f.qualname in allowed_writers
                    rep.ob(cl + ".memo-writer", f.qualname.split(".", 1)[1], ok, "memo written: %r" % e, w)
                    uses.append(("write", f.qualname))
                # value or key mentioning the memo is a read
            terms = []
            if e.kind == "call":
                terms.append(e.a)
            elif e.kind in ("store_sub", "store_attr"):
                terms.extend([x for x in (e.b if e.kind == "store_sub" else None, e.c) if isinstance(x, tuple)])
            elif e.kind in ("with", "assert", "del"):
                terms.append(e.a)
            for t in terms:
                _scan_use(model, rep, cl, f, t, w, uses, top=True)
        for path in [x for x in fp.paths if x.feasible()]:
            if path.result and path.result[1] is not None and isinstance(path.result[1], tuple):
                _scan_use(model, rep, cl, f, path.result[1], where(f, path.result[2]), uses, top=True, returned=True)
            for t, pol, node in path.conds:
                if isinstance(t, tuple) and t and t[0] not in ("inloop", "loopbreak", "except"):
                    _scan_use(model, rep, cl, f, t, where(f, node), uses, top=True)
        for uid, li in fp.loops.items():
            if li.iter is not None:
                _scan_use(model, rep, cl, f, li.iter, where(f, li.node), uses, top=True, iterated=True)
    return uses


READ_METHODS = {"get", "items", "keys", "values", "__contains__", "__len__"}


def _scan_use(model, rep, cl, f, t, w, uses, top=False, returned=False, parent=None, iterated=False):
    C = model.CACHE
    if not isinstance(t, tuple) or not t:
        return
    if not isinstance(t[0], str):
        for x in t:
            _scan_use(model, rep, cl, f, x, w, uses, parent=parent)
        return
    is_ref = t[0] == "attr" and t[2] == C
    is_inv = t[0] == "attr" and t[2] in ("inv", "inverse") and t[1][0] == "attr" and t[1][2] == C
    if is_ref or is_inv:
        # context decides
        ctx = parent
        ok = False
        kind = "?"
        if ctx is not None:
            if ctx[0] == "attr" and ctx[1] == t:
                if ctx[2] in ("inv", "inverse") and is_ref:
                    return  # handled when visiting the .inv node
                kind = "method:" + ctx[2]
                ok = ctx[2] in READ_METHODS
                if ctx[2] in MUTATORS or ctx[2] in ("put", "forceput", "putall", "forceupdate", "__setitem__", "__delitem__"):
                    kind = "mutator:" + ctx[2]
                    ok = False
            elif ctx[0] == "sub" and ctx[1] == t:
                kind, ok = "subscript-read", True
            elif ctx[0] == "compare":
                kind, ok = "membership", True
            elif ctx[0] == "call" and ctx[1] in (("builtin", "len"),):
                kind, ok = "len", True
            elif ctx[0] == "call":
                kind, ok = "escapes-as-argument", False
            elif ctx[0] == "loopvar" and ctx[2] == t:
                kind, ok = "iterated-element", True  # a key taken out of the memo by `for k in memo`
            else:
                kind, ok = "other:" + ctx[0], False
        elif iterated:
            kind, ok = "iterated", True  # `for k in memo:` reads its keys in insertion order
        else:
            kind, ok = ("returned" if returned else "bare"), False
        uses.append((kind, f.qualname))
        rep.ob(cl + ".memo-use", "%s:%s" % (f.qualname.split(".", 1)[1], kind), ok,
               "memo referenced as %s in %s" % (kind, f.qualname), w, nontrivial=False)
        if is_inv:
            return
    for x in t[1:]:
        if isinstance(x, tuple):
            _scan_use(model, rep, cl, f, x, w, uses, parent=t if (x and isinstance(x[0], str)) else t)
