"""C13 (determinism), C14 (totality), C18 (Juniper $9$ codec)."""
import ast
import re

from .flow import show, subterms, strip_mut, walk_effects, MUTATORS
from .source import AnalysisError
from .fold import Unfoldable, Rx
from .calls import bind_args
from . import match as M
from . import rx
from .rx import CharSet, RxError
from .secret_flow import W

SELF = ("param", "self")
JS = "netconan.utils.juniper_secrets"

NONDET_PREFIXES = ("random.", "time.", "datetime.", "uuid.", "secrets.", "os.urandom", "os.getpid", "os.getppid", "os.times", "os.environ", "os.getenv", "os.getcwd", "os.getlogin",
                   "socket.", "platform.", "getpass.", "locale.", "tempfile.", "threading.", "multiprocessing.", "concurrent.", "asyncio.", "queue.", "signal.", "subprocess.", "builtins.id", "builtins.hash", "builtins.input", "builtins.object.__hash__")
PASSLIB_SALTED = ("passlib.hash.md5_crypt", "passlib.hash.sha512_crypt", "passlib.hash.sha256_crypt", "passlib.hash.sha1_crypt", "passlib.hash.bcrypt", "passlib.hash.des_crypt", "passlib.hash.cisco_type7")


def entry_closure(ctx):
    p, G = ctx.p, ctx.G
    roots = [p.find_function("netconan.main").qualname, p.find_function("anonymize_files").qualname]
    fa = p.find_class("FileAnonymizer")
    roots += [m.qualname for m in fa.methods.values()]
    return [p.functions[q] for q in sorted(G.reachable(roots))]


def perline_closure(ctx):
    p, G = ctx.p, ctx.G
    return [p.functions[q] for q in sorted(G.reachable([p.find_function("FileAnonymizer.anonymize_io").qualname]))]


def is_mutable_display(node):
    return isinstance(node, (ast.List, ast.Dict, ast.Set, ast.ListComp, ast.DictComp, ast.SetComp)) or (isinstance(node, ast.Call) and isinstance(node.func, ast.Name) and node.func.id in ("list", "dict", "set", "bidict", "defaultdict", "OrderedDict", "bytearray", "deque"))


def _global_roots(t, depth=0):
    """Module-level objects the term may BE (no copy in between)."""
    if not isinstance(t, tuple) or not t or depth > 8:
        return set()
    if t[0] == "global":
        return {t}
    if t[0] == "mut":
        return _global_roots(t[1], depth + 1)
    if t[0] == "ifexp":
        return _global_roots(t[2], depth + 1) | _global_roots(t[3], depth + 1)
    if t[0] == "boolop":
        out = set()
        for x in t[2]:
            out |= _global_roots(x, depth + 1)
        return out
    return set()


def _field_aliases(ctx, cls):
    """field name -> module-level objects some method of the class stores into self.<field> without copying."""
    cache = ctx.__dict__.setdefault("_field_alias_cache", {})
    if cls.qualname in cache:
        return cache[cls.qualname]
    out = {}
    for m in cls.methods.values():
        if not m.params or m.is_staticmethod:
            continue
        me = ("param", m.params[0])
        for e, ls, path in ctx.A.paths(m).all_effects():
            if e.kind == "store_attr" and e.a == me and not isinstance(e.node, ast.AugAssign):
                g = {x for x in _global_roots(e.c) if ctx.p.resolve_module_name(ctx.p.modules[x[1]], x[2]) and ctx.p.resolve_module_name(ctx.p.modules[x[1]], x[2])[0] == "const"}
                if g:
                    out.setdefault(e.b, set()).update(g)
    cache[cls.qualname] = out
    return out


def _instance_owned(ctx, cls, name, f, path, e):
    """`self.<name>` denotes the instance's own object (not the class-level default of the same name): the constructor assigns it on
    every path, and when the mutation is in the constructor itself, before the mutation."""
    init = cls.find_method("__init__")
    if init is None:
        return False
    me = ("param", init.params[0]) if init.params else None
    for q in ctx.A.paths(init).paths:
        if q.kind == "raise":
            continue
        if not any(x.kind == "store_attr" and x.a == me and x.b == name and not ls for x, ls in q.stores()):
            return False
    if f is init:
        seen_store = False
        for x, ls in walk_effects(path.effects):
            if x is e:
                return seen_store
            if x.kind == "store_attr" and x.a == me and x.b == name and not ls:
                seen_store = True
        return False
    return True


def global_state_rule(ctx, rep, cl, functions):
    """No module-level / class-level object is mutated by code in `functions`."""
    p = ctx.p
    n = 0
    for f in functions:
        fp = ctx.A.paths(f)
        fal = _field_aliases(ctx, f.cls) if f.cls is not None else {}
        me = ("param", f.params[0]) if (f.cls is not None and f.params and not f.is_staticmethod) else None
        for e, ls, path in fp.all_effects():
            recv = None
            what = None
            if fal and me is not None:
                # self.<field> holds a module-level object (assigned without a copy) and is updated in place
                hit = None
                if e.kind == "store_attr" and e.a == me and e.b in fal and isinstance(e.node, ast.AugAssign) and e.c[0] == "binop" and e.c[1] in ("|", "&", "^", "-", "+") and e.c[2] == ("attr", me, e.b):
                    hit = (e.b, "%s=" % e.c[1])
                elif e.kind == "call" and e.a[1][0] == "attr" and e.a[1][2] in MUTATORS | {"__setitem__"} and strip_mut(e.a[1][1]) == ("attr", me, e.a[1][1][2] if e.a[1][1][0] == "attr" else None) and e.a[1][1][0] == "attr" and e.a[1][1][2] in fal:
                    hit = (e.a[1][1][2], ".%s()" % e.a[1][2])
                elif e.kind == "store_sub" and e.a[0] == "attr" and e.a[1] == me and e.a[2] in fal:
                    hit = (e.a[2], "[...] =")
                if hit is not None:
                    for g in sorted(fal[hit[0]]):
                        n += 1
                        gname = "%s.%s" % (g[1].split(".")[-1], g[2])
                        rep.fail(cl + ".global-state", gname, "self.%s may be the module-level object %s itself (assigned without a copy in %s) and is changed in place (%s) in %s: the change is seen by every later anonymizer in the process" % (hit[0], gname, f.cls.name, hit[1], f.qualname),
                                 W(f, e.node), key="%s.global-state|%s" % (cl, gname))
            if e.kind == "call" and e.a[1][0] == "attr" and e.a[1][2] in MUTATORS | {"put", "forceput", "__setitem__", "__ior__", "__iadd__"}:
                recv, what = e.a[1][1], "%s(...)" % e.a[1][2]
            elif e.kind == "store_sub":
                recv, what = e.a, "[...] ="
            elif e.kind == "store_global":
                n += 1
                rep.fail(cl + ".global-state", "%s:%s" % (f.name, e.a), "global variable %s is assigned at run time" % e.a, W(f, e.node), key="%s.global-state|%s" % (cl, e.a))
                continue
            elif e.kind == "store_attr":
                # assignment to an attribute of a class object / module
                b = e.a
                if b[0] == "global" or (b[0] == "param" and f.is_classmethod and f.params and b[1] == f.mparams[0]):
                    n += 1
                    rep.fail(cl + ".global-state", "%s:%s" % (f.name, e.b), "attribute %s of module/class object %s is assigned at run time" % (e.b, show(b)), W(f, e.node), key="%s.global-state|%s" % (cl, e.b))
                continue
            if recv is None:
                continue
            root = strip_mut(recv)
            while root[0] in ("sub",) or (root[0] == "attr" and root[2] in ("inv", "inverse")):
                root = strip_mut(root[1])
            name = None
            if root[0] == "global":
                r = p.resolve_module_name(p.modules[root[1]], root[2])
                if r and r[0] == "const":
                    name = "%s.%s" % (r[1].name.split(".")[-1], r[2])
            elif root[0] == "attr":
                base = root[1]
                cls = None
                if base[0] == "param" and f.cls is not None and f.params and base[1] == f.mparams[0]:
                    cls = f.cls
                elif base[0] == "global":
                    r = p.resolve_module_name(p.modules[base[1]], base[2])
                    if r and r[0] == "class":
                        cls = r[1]
                if cls is not None:
                    owner, expr = cls.find_assign(root[2])
                    if owner is not None and not (base[0] == "param" and _instance_owned(ctx, cls, root[2], f, path, e)):
                        name = "%s.%s" % (owner.name, root[2])
            if name is not None:
                n += 1
                rep.fail(cl + ".global-state", name, "process-global object %s is mutated at run time by %s in %s: state of one anonymizer leaks into every later one in the process" % (name, what, f.qualname), W(f, e.node),
                         key="%s.global-state|%s" % (cl, name))
    n += process_lifetime_objects_rule(ctx, rep, cl, functions)
    rep.ob(cl + ".global-state-scan", "entry closure", True, "mutation sites of module-/class-level objects found: %d (functions scanned: %d)" % (n, len(functions)), "", nontrivial=False)
    return n


def _alias_roots(t, fields, depth=0):
    """Parameters whose OBJECT the term may denote (no copy in between)."""
    if not isinstance(t, tuple) or not t or depth > 8:
        return set()
    k = t[0]
    if k == "param":
        return {t[1]}
    if k == "mut":
        return _alias_roots(t[1], fields, depth + 1)
    if k == "ifexp":
        return _alias_roots(t[2], fields, depth + 1) | _alias_roots(t[3], fields, depth + 1)
    if k == "boolop":
        out = set()
        for x in t[2]:
            out |= _alias_roots(x, fields, depth + 1)
        return out
    if k == "attr" and t[1][0] == "param" and t[2] in fields:
        return fields[t[2]]
    if k in ("carried", "loopout") and "__loops__" in fields:
        li = fields["__loops__"].get(t[2])
        if li is not None and t[1] in li.carried:
            return _alias_roots(li.carried[t[1]][0], fields, depth + 1)
    return set()


_INPLACE_OPS = {"|": "|=", "&": "&=", "^": "^=", "-": "-=", "+": "+="}


def argument_mutation_rule(ctx, rep, cl, functions):
    """A constructor / entry point leaves the objects it is GIVEN alone: every in-place mutation site (mutator method, subscript store,
    augmented assignment) is resolved to the parameters whose object the receiver may be (through plain rebinding, conditional expressions,
    `x or y`, and fields of self assigned earlier on the path); a copy (list(x), set(x), x[:], a comprehension, a + b) ends the alias."""
    n_sites = 0
    for f in functions:
        rep.analysed(f)
        self_name = f.mparams[0] if (f.cls is not None and f.params and not f.is_staticmethod) else None
        bad = {}
        for path in ctx.A.paths(f).paths:
            if not path.feasible():
                continue
            fields = {"__loops__": ctx.A.paths(f).loops}
            for e, ls in walk_effects(path.effects):
                recv = what = None
                if e.kind == "store_attr" and e.a == ("param", self_name):
                    v = e.c
                    if isinstance(e.node, ast.AugAssign) and v[0] == "binop" and v[1] in _INPLACE_OPS and v[2] == ("attr", e.a, e.b):
                        r = fields.get(e.b, set())
                        if r and not (v[3][0] in ("const", "fstr")):
                            n_sites += 1
                            bad.setdefault((tuple(sorted(r)), "self.%s %s ..." % (e.b, _INPLACE_OPS[v[1]])), e.node)
                        continue
                    fields[e.b] = _alias_roots(v, fields)
                    continue
                if e.kind == "call" and e.a[1][0] == "attr" and e.a[1][2] in MUTATORS | {"__setitem__", "__ior__", "__iand__", "__iadd__"}:
                    recv, what = e.a[1][1], ".%s(...)" % e.a[1][2]
                elif e.kind == "store_sub":
                    recv, what = e.a, "[...] = ..."
                if recv is None:
                    continue
                n_sites += 1
                r = _alias_roots(recv, fields) - ({self_name} if self_name else set())
                if r:
                    bad.setdefault((tuple(sorted(r)), what), e.node)
            # a local name rebound to a mutation of the parameter object (`p |= x`, p.extend(x))
            for pn in f.params:
                if pn == self_name:
                    continue
                for name, v in path.env.items():
                    if isinstance(v, tuple) and v and v[0] == "mut":
                        r = _alias_roots(v, fields) - ({self_name} if self_name else set())
                        if pn in r:
                            bad.setdefault(((pn,), ".%s(...)" % v[2]), f.node)
        for (roots, what), node in sorted(bad.items(), key=lambda kv: kv[0]):
            rep.fail(cl + ".arguments-left-alone", "%s(%s)" % (f.qualname.split(".", 1)[-1], ",".join(roots)),
                     "%s mutates the object given as %s in place (%s): the caller, and everything else holding that object (a later anonymizer built from the same arguments, another stage), sees the change" % (f.qualname, "/".join(roots), what),
                     W(f, node), key="%s.arguments-left-alone|%s|%s" % (cl, f.name if f.cls is None else f.cls.name, ",".join(roots)))
        if not bad:
            rep.ob(cl + ".arguments-left-alone", f.qualname.split(".", 1)[-1], True, "no in-place mutation of an argument object", W(f), nontrivial=False)
    rep.stat("argument_mutation_sites_examined", n_sites)


_MEMO_DECORATORS = {"lru_cache", "cache", "memoize", "memoized", "memoise", "memoised", "cached"}
_PURE_EXT_PREFIXES = ("hashlib.", "re.", "ipaddress.", "string.", "math.", "itertools.", "functools.", "operator.", "binascii.", "base64.", "struct.", "collections.", "bidict.")


def process_lifetime_objects_rule(ctx, rep, cl, functions):
    """Objects that live as long as the process although they look local: (a) a mutable default argument (evaluated once, at definition)
    that the function mutates, stores or returns; (b) a memoising decorator on a function whose result or effect is not determined by its
    (hashable) arguments alone - a method, or a function that touches the file system / clock / randomness / module state."""
    p, G = ctx.p, ctx.G
    n = 0
    names = {f.qualname for f in functions}
    names |= set(ctx.helpers) & set(G.reachable(sorted(names)))  # helpers analysed inlined into these functions
    scanned = 0
    for f in p.all_functions():
        if f.qualname not in names:
            continue
        scanned += 1
        # (a) mutable defaults
        for pn, d in f.defaults.items():
            if not is_mutable_display(d):
                continue
            uses = []
            self_name = f.mparams[0] if (f.cls is not None and f.params and not f.is_staticmethod) else None
            for path in ctx.A.paths(f).paths:
                if not path.feasible():
                    continue
                fields = {"__loops__": ctx.A.paths(f).loops}
                for e, ls in walk_effects(path.effects):
                    if e.kind == "store_attr":
                        if pn in _alias_roots(e.c, fields):
                            uses.append("stored in .%s" % e.b)
                        if e.a == ("param", self_name):
                            fields[e.b] = _alias_roots(e.c, fields)
                    elif e.kind == "call" and e.a[1][0] == "attr" and e.a[1][2] in MUTATORS | {"__setitem__", "__ior__", "__iand__", "__iadd__"} and pn in _alias_roots(e.a[1][1], fields):
                        uses.append("mutated by .%s()" % e.a[1][2])
                    elif e.kind == "store_sub" and pn in _alias_roots(e.a, fields):
                        uses.append("mutated by [...] =")
                v = path.env.get(pn)
                if isinstance(v, tuple) and v and v[0] == "mut" and pn in _alias_roots(v, fields):
                    uses.append("mutated by .%s()" % v[2])
                if path.result is not None and path.result[0] == "return" and isinstance(path.result[1], tuple) and pn in _alias_roots(path.result[1], fields):
                    uses.append("returned")
            if uses:
                n += 1
                rep.fail(cl + ".global-state", "%s(%s=<mutable default>)" % (f.name, pn),
                         "the default value of parameter %s of %s is ONE object for the whole process (evaluated at definition) and it is %s: what one call leaves in it is seen by every later call that omits the argument" % (pn, f.qualname, ", ".join(sorted(set(uses)))),
                         W(f, d), key="%s.global-state|%s.%s-default" % (cl, f.name, pn))
        # (b) memoising decorators
        memo = [d for d in f.decorators if d in _MEMO_DECORATORS]
        deco_calls = [d.func for d in f.node.decorator_list if isinstance(d, ast.Call)]
        memo += [x.attr if isinstance(x, ast.Attribute) else getattr(x, "id", "") for x in deco_calls if (x.attr if isinstance(x, ast.Attribute) else getattr(x, "id", "")) in _MEMO_DECORATORS]
        if memo:
            why = []
            if f.cls is not None and not f.is_staticmethod:
                why.append("it is a method: the memo outlives and is shared across instances (keyed by self's __eq__/__hash__), and ignores the instance's state")
            for path in ctx.A.paths(f).paths:
                for e, ls in walk_effects(path.effects):
                    if e.kind in ("store_attr", "store_sub", "store_global"):
                        why.append("it has a side effect (%s) that is skipped on a memo hit" % e.kind)
                    if e.kind != "call":
                        continue
                    fn = e.a[1]
                    q = None
                    if fn[0] == "builtin":
                        if fn[1] in ("open", "print", "input", "id", "hash"):
                            why.append("it calls %s()" % fn[1])
                        continue
                    base = fn
                    while base[0] == "attr":
                        base = base[1]
                    if base[0] == "global" and base[1] in p.modules:
                        r = p.resolve_module_name(p.modules[base[1]], base[2])
                        if r and r[0] == "ext":
                            dotted = r[1] + show(fn)[len(base[2]):]
                            if not dotted.startswith(_PURE_EXT_PREFIXES):
                                why.append("it calls %s, whose effect/result is not a function of the arguments" % dotted)
                        elif r and r[0] == "const":
                            why.append("it uses the module-level object %s" % base[2])
            if why:
                n += 1
                rep.fail(cl + ".global-state", "%s@%s" % (f.name, memo[0]),
                         "%s is memoised for the life of the process (@%s) but %s" % (f.qualname, memo[0], "; ".join(sorted(set(why))[:3])), W(f), key="%s.global-state|%s@memo" % (cl, f.name))
    rep.stat("functions_scanned_for_process_lifetime_objects", scanned)
    return n


def stage_state_rule(ctx, rep, cl, root_names):
    """global_state_rule (incl. process-lifetime objects) over the call-graph closure of one stage's functions."""
    p, G = ctx.p, ctx.G
    roots = []
    for n in root_names:
        hits = [c for q, c in p.classes.items() if q == n or q.endswith("." + n)]
        cls = hits[0] if len(hits) == 1 else None
        if cls is not None:
            roots += [m.qualname for m in cls.methods.values()]
            continue
        f = p.maybe_function(n)
        if f is not None:
            roots.append(f.qualname)
    fns = [p.functions[q] for q in sorted(G.reachable(roots)) if q not in ctx.helpers]
    rep.stat("stage_closure_functions", len(fns))
    return global_state_rule(ctx, rep, cl, fns)


def _set_typed(ctx, t, f):
    t0 = t
    if t[0] == "set" or (t[0] == "comp" and t[1] == "set"):
        return True
    if M.is_call(t) and t[1] in (("builtin", "set"), ("builtin", "frozenset")):
        return True
    if t[0] == "comp" and t[1] in ("list", "gen") and len(t[4]) >= 1:
        # order of a list/generator built by iterating a set is the set's order
        return _set_typed(ctx, t[4][0][1], f)
    if M.is_call(t) and t[1] in (("builtin", "list"), ("builtin", "tuple"), ("builtin", "iter"), ("builtin", "enumerate"), ("builtin", "reversed")) and t[2]:
        return _set_typed(ctx, t[2][0], f)
    if M.is_call(t) and t[1] == ("builtin", "sorted"):
        return False
    ts = ctx.G.types_of(strip_mut(t), f)
    return bool(ts) and all(x in (("xinst", "set"), ("xinst", "frozenset")) for x in ts)


def unordered_rule(ctx, rep, cl, functions):
    """A set-typed value must not determine the order of anything ordered (join, list, loop with ordered effects)."""
    n = 0
    for f in functions:
        fp = ctx.A.paths(f)
        for e, ls, path in fp.all_effects():
            if e.kind == "call":
                t = e.a
                nm = M.callee_name(t)
                if nm in ("writelines", "extend") and t[2] and t[1][0] == "attr":
                    # out.writelines(x for x in S) / lines.extend(S): the order written is the order of S
                    n += 1
                    bad = _set_typed(ctx, t[2][0], f)
                    rep.ob(cl + ".unordered-into-ordered", "%s:%s" % (f.name, nm), not bad,
                           "%s over a set-typed value %s in %s: the order of what is written depends on PYTHONHASHSEED" % (nm, show(t[2][0])[:80], f.qualname), W(f, e.node), key="%s.unordered-into-ordered|%s:%s" % (cl, f.name, nm))
                if nm == "join" and t[2]:
                    n += 1
                    bad = _set_typed(ctx, t[2][0], f)
                    rep.ob(cl + ".unordered-into-ordered", "%s:join" % f.name, not bad,
                           "str.join over a set-typed value %s in %s: element order (hence the text) depends on PYTHONHASHSEED" % (show(t[2][0])[:80], f.qualname), W(f, e.node), key="%s.unordered-into-ordered|%s:join" % (cl, f.name))
        for uid, li in fp.loops.items():
            if li.iter is None:
                continue
            if _set_typed(ctx, li.iter, f):
                ordered = []
                for bp in li.body_paths:
                    for x, _ in walk_effects(bp.effects):
                        if x.kind == "call" and M.callee_name(x.a) in ("write", "append", "extend", "insert", "writelines", "join"):
                            ordered.append(show(x.a)[:60])
                        elif x.kind == "call" and (x.a[1] == ("builtin", "open") or any(t[0] in ("func", "cls") for t in ctx.G.resolve_callee(x.a[1], f))):
                            ordered.append(show(x.a)[:60])  # file I/O or a package function (may write / allocate numbered pseudonyms)
                        if x.kind == "store_sub":
                            ordered.append(repr(x)[:60])
                    for nme, (pre, posts) in li.carried.items():
                        for post in posts:
                            if post[0] == "binop" and post[1] == "+":
                                ordered.append("%s accumulates" % nme)
                n += 1
                rep.ob(cl + ".unordered-into-ordered", "%s:for" % f.name, not ordered,
                       "loop over a set-typed value %s with order-sensitive effects %s: result depends on PYTHONHASHSEED" % (show(li.iter)[:80], ordered[:3]), W(f, li.node), key="%s.unordered-into-ordered|%s:for" % (cl, f.name))
    return n


def nondet_rule(ctx, rep, cl, functions):
    p, G, A = ctx.p, ctx.G, ctx.A
    f_fa = p.find_function("FileAnonymizer.__init__")
    n = 0
    licensed = 0
    for f in functions:
        for cs in G.by_owner.get(f.qualname, []):
            names = cs.ext_names()
            hits = [nm for nm in names if nm.startswith(NONDET_PREFIXES) or nm in ("builtins.id", "builtins.hash")]
            # attribute reads such as os.environ[...] are calls of __getitem__: look into the term
            for s in subterms(cs.term):
                if s[0] == "attr" and s[1][0] == "global" and s[1][2] == "os" and s[2] in ("environ",):
                    hits.append("os.environ")
            if hits:
                n += 1
                ok = False
                if f is f_fa and cs.path is not None:
                    # licensed only when generating a salt because none was given
                    ok = cs.path.truth(("compare", ("is",), (("attr", SELF, "salt"), ("const", None)))) is True or cs.path.truth(("compare", ("is",), (("param", "salt"), ("const", None)))) is True
                    licensed += ok
                rep.ob(cl + ".nondeterministic-callee", "%s:%s" % (f.name, hits[0]), ok,
                       "call to %s in %s: nondeterministic; licensed only for generating a salt under `salt is None` in FileAnonymizer.__init__" % (hits[0], f.qualname), cs.where, key="%s.nondeterministic-callee|%s:%s" % (cl, f.name, hits[0]))
            # passlib chains
            t = cs.term
            if t[1][0] == "attr" and t[1][2] in ("hash", "encrypt"):
                recv = t[1][1]
                scheme = None
                kws = None
                if M.is_call(recv) and recv[1][0] == "attr" and recv[1][2] == "using":
                    ts = G.types_of(recv[1][1], f)
                    for x in ts:
                        if x[0] == "ext" and x[1] in PASSLIB_SALTED:
                            scheme, kws = x[1], dict(recv[3])
                else:
                    ts = G.types_of(recv, f)
                    for x in ts:
                        if x[0] == "ext" and x[1] in PASSLIB_SALTED:
                            scheme, kws = x[1], {}
                if scheme is not None:
                    n += 1
                    salt = kws.get("salt")
                    ok = salt is not None
                    rep.ob(cl + ".static-hash-salt", "%s:%s" % (f.name, scheme.split(".")[-1]), ok,
                           "%s.hash without salt= draws a fresh random salt on every call: replacements of this format differ from run to run" % scheme, cs.where,
                           witness="enable secret 6 $6$abcdefgh$" + "x" * 86 if "sha512" in scheme else None, key="%s.static-hash-salt|%s" % (cl, scheme.split(".")[-1]))
                    if ok:
                        okc = not any(s[0] == "call" and M.callee_name(s) in ("choice", "random", "urandom", "token_hex") for s in subterms(salt))
                        rep.ob(cl + ".static-hash-salt-value", "%s:%s" % (f.name, scheme.split(".")[-1]), okc, "salt argument %s is deterministic" % show(salt)[:60], cs.where, nontrivial=False)
    rep.stat("nondeterminism_sites", n)
    return n, licensed


def c13(ctx, rep):
    p, A, G = ctx.p, ctx.A, ctx.G
    rep.explanation = (
        "Effect analysis over the call-graph closure of the entry points (main, anonymize_files, FileAnonymizer.*): (1) every call whose resolved callee is in the nondeterminism table (random/time/uuid/secrets/os.urandom/id/hash/environment, "
        "passlib hash without salt=) is reported unless it is the salt generation dominated by `salt is None`; (2) the generated salt is logged at WARNING and is the value all stages receive; (3) no set-typed value flows into an order-sensitive "
        "construct (str.join, loops with ordered effects); (4) no module-level or class-level object is mutated at run time; (5) pseudonym derivations are keyed by salt + item or the per-run counter, encoders use static salts; "
        "(6) no environment/clock reads in the per-line closure. A positive control (synthetic module) must fire each rule on every run."
    )
    rep.rule = "one obligation per call site / loop / mutation site in the closure; zero-count rules carry a positive control"
    rep.trust("set iteration order of str elements depends on PYTHONHASHSEED; dict iteration is insertion order (language reference)", "passlib: .using() without salt= draws a random salt per hash() call",
              "random.*, time.*, os.urandom, uuid.*, secrets.*, id(), hash() are nondeterministic across runs")
    rep.assume("os.walk enumeration order is a property of the file system, identical across runs on the same tree", "third-party internals other than the passlib entries read are not in the table")
    fns = [f for f in entry_closure(ctx) if f.qualname not in ctx.helpers]  # helpers are analysed inlined into their callers
    rep.stat("closure_functions", len(fns))
    for f in fns:
        rep.analysed(f)
    unresolved = [cs for cs in G.sites_in([f.qualname for f in fns]) if not cs.targets and cs.term[1][0] not in ("attr",)]
    rep.ob("C13.closure-resolved", "entry closure", not unresolved, "call sites in the closure with an unresolved non-method callee: %s" % [show(c.term)[:40] for c in unresolved[:5]], "", nontrivial=False)
    rep.ob("C13.closure-floor", "entry closure", len(fns) >= 40, "functions in the closure: %d (floor 40)" % len(fns), "", nontrivial=False)
    n, licensed = nondet_rule(ctx, rep, "C13", fns)
    rep.ob("C13.licensed-salt-generation", "FileAnonymizer.__init__", licensed >= 1, "the salt generation under `salt is None` was found (%d licensed sites)" % licensed, "", nontrivial=False)
    unordered_rule(ctx, rep, "C13", fns)
    global_state_rule(ctx, rep, "C13", fns)
    from .checks_pipe import line_loop_rules as _llr
    _llr(ctx, rep, "C13")  # every stage is called in the line loop with the object built for this run (its salt is the reported salt)
    # constructors and the file-level entry point leave the objects they are given alone
    argument_mutation_rule(ctx, rep, "C13", [f for f in p.all_functions() if (f.cls is not None and f.name == "__init__") or (f.cls is None and f.name == "anonymize_files")])
    # class-level mutable attributes that instances share (even if only read today they are one edit from shared state)
    # 2. generated salt is reported and used
    f_fa = p.find_function("FileAnonymizer.__init__")
    ok_log = False
    from .checks_ip import _random_call
    n_gen = 0
    for path in A.paths(f_fa).paths:
        if not path.feasible():
            continue
        stores = [e for e, ls in path.stores() if e.kind == "store_attr" and e.a == SELF and e.b == "salt"]
        if not stores or not _random_call(stores[-1].c):
            continue
        n_gen += 1
        gen = stores[-1].c
        logged = False
        for e, ls in path.calls():
            names = [t[1] for t in G.resolve_callee(e.a[1], f_fa) if t[0] == "ext"]
            if any(nm in ("logging.warning", "logging.error", "logging.critical", "logging.warn") for nm in names) and (("attr", SELF, "salt") in e.a[2] or gen in e.a[2]):
                logged = True
        ok_log = logged if n_gen == 1 else (ok_log and logged)
        # the reported salt can be handed back with -s: drawn from letters and digits only (no leading '-', no ',', no blank)
        alph = None
        why = "unrecognised generator"
        for x in subterms(gen):
            if M.is_call(x):
                nm = M.callee_name(x)
                if nm in ("choice", "choices", "sample") and x[2] and x[2][0][0] == "const" and isinstance(x[2][0][1], str):
                    alph = x[2][0][1]
                elif nm == "token_hex" or (nm == "hex" and False):
                    alph = "0123456789abcdef"
                elif nm in ("token_urlsafe", "token_bytes", "urandom", "getrandbits", "random", "randint", "randrange", "uuid4", "uuid1"):
                    why = "%s() is not confined to letters and digits" % nm
        ok_alpha = alph is not None and alph.isascii() and alph.isalnum()
        rep.ob("C13.generated-salt-reusable", "FileAnonymizer.__init__", ok_alpha,
               "the generated salt is built by %s%s; it must consist of ASCII letters and digits so that the reported value can be passed back with -s (a leading '-' is taken for an option)" % (show(gen)[:90], "" if ok_alpha else " (%s)" % (why if alph is None else "alphabet %r" % alph[:70])),
               W(f_fa), key="C13.generated-salt-reusable|FileAnonymizer.__init__")
    rep.ob("C13.generated-salt-reported", "FileAnonymizer.__init__", ok_log, "when no salt is given the generated salt is logged at WARNING or above", W(f_fa), key="C13.generated-salt-reported|FileAnonymizer.__init__")
    from .checks_ip import _salt_defaulting
    _salt_defaulting(ctx, rep, "C13")
    # every stage receives the defaulted field
    for cs in G.by_owner.get(f_fa.qualname, []):
        for c in cs.classes():
            init = c.find_method("__init__")
            if init is None or "salt" not in init.params:
                continue
            b = bind_args(cs.term, init, 1) or {}
            rep.ob("C13.same-salt", c.name, b.get("salt") == ("attr", SELF, "salt"), "%s receives salt=%s; expected self.salt (re-running with the reported salt must reproduce the output)" % (c.name, show(b.get("salt"))), cs.where, key="C13.same-salt|%s" % c.name)
    f_io = p.find_function("FileAnonymizer.anonymize_io")
    f_rmi = p.find_function("replace_matching_item")
    for cs in G.by_owner.get(f_io.qualname, []):
        if f_rmi in cs.funcs():
            b = bind_args(cs.term, f_rmi) or {}
            rep.ob("C13.same-salt", "replace_matching_item", b.get("salt") == ("attr", SELF, "salt"), "secret stage receives salt=%s" % show(b.get("salt")), cs.where, key="C13.same-salt|replace_matching_item")
    # optional salts inside stages: `salt or ""` style defaulting hides a missing salt
    for f in fns:
        for path in A.paths(f).paths:
            for e, ls in path.stores():
                if e.kind == "store_attr" and e.b == "salt" and f is not f_fa:
                    ok = e.c == ("param", "salt")
                    rep.ob("C13.salt-stored-verbatim", f.qualname.split(".", 1)[1], ok, "%s stores salt as %s; expected the parameter itself" % (f.qualname, show(e.c)), W(f, e.node), key="C13.salt-stored-verbatim|%s" % f.qualname.split(".", 1)[1], nontrivial=False)
    # 5. keyed derivations (re-use of the clause functions of the owning properties)
    from .ipmodel import IpModel
    IpModel(ctx).check_salter(rep, "C13")
    from . import secret_flow
    secret_flow.check_anonymize_value(ctx, rep, "C13")
    # word pseudonyms and AS replacements are keyed by salt + item (clauses of C10 / C11, re-run here)
    from .report import Report
    from . import checks_secret, checks_rx
    for pid, fnc, keep in (("C10", checks_secret.c10, ("C10.pseudonym-keyed", "C10.memo-per-instance", "C10.memo-not-class-level", "C10.salt-field")), ("C11", checks_rx.c11, ("C11.keyed", "C11.map-instance-field", "C11.map-immutable", "C11.salt-field"))):
        sub = Report(pid, quiet=True)
        fnc(ctx, sub)
        for o in sub.obligations:
            if o["clause"] in keep:
                rep.ob("C13." + o["clause"].split(".", 1)[1], o["construct"], o["ok"], o["detail"], o["where"], o.get("witness"), key="C13.%s|%s" % (o["clause"].split(".", 1)[1], o["construct"]))
    _positive_control(rep, "C13")


CONTROL_SRC = {
    "netconan/__init__.py": "",
    "netconan/ctl.py": (
        "import random, time\n"
        "from passlib.hash import sha512_crypt\n"
        "REG = {}\n"
        "class K:\n"
        "    shared = []\n"
        "    def m(self, x):\n"
        "        self.shared.append(x)\n"
        "        REG[x] = time.time()\n"
        "        return sha512_crypt.using(rounds=5000).hash(x) + str(random.random())\n"
        "def j(words):\n"
        "    s = {w for w in words}\n"
        "    return '|'.join(s)\n"
        "def main():\n"
        "    return K().m('a') + j(['a'])\n"
    ),
}


def _positive_control(rep, cl):
    """The zero-count rules must fire on a tiny synthetic module (analysed on every run)."""
    from .main import Ctx
    from .report import Report
    c2 = Ctx(CONTROL_SRC)
    fns = c2.p.all_functions()
    sub = Report("ctl", quiet=True)
    nondet_rule_generic(c2, sub, "ctl", fns)
    unordered_rule(c2, sub, "ctl", fns)
    global_state_rule(c2, sub, "ctl", fns)
    keys = {v["key"].split("|")[0] for v in sub.violations}
    want = {"ctl.nondeterministic-callee", "ctl.static-hash-salt", "ctl.unordered-into-ordered", "ctl.global-state"}
    rep.ob(cl + ".positive-control", "synthetic module", want <= keys, "rules that fired on the synthetic positive control: %s (all of %s must)" % (sorted(keys), sorted(want)), "nc_static/checks_misc.py", key=cl + ".positive-control|synthetic")


def nondet_rule_generic(ctx, rep, cl, functions):
    G = ctx.G
    for f in functions:
        for cs in G.by_owner.get(f.qualname, []):
            hits = [nm for nm in cs.ext_names() if nm.startswith(NONDET_PREFIXES)]
            if hits:
                rep.fail(cl + ".nondeterministic-callee", "%s:%s" % (f.name, hits[0]), "control", cs.where)
            t = cs.term
            if t[1][0] == "attr" and t[1][2] == "hash" and M.is_call(t[1][1]) and t[1][1][1][0] == "attr" and t[1][1][1][2] == "using":
                if "salt" not in dict(t[1][1][3]):
                    rep.fail(cl + ".static-hash-salt", f.name, "control", cs.where)


# ----------------------------------------------------------------------
# C14
# ----------------------------------------------------------------------
_LOGRECORD_ATTRS = {"name", "msg", "args", "levelname", "levelno", "pathname", "filename", "module", "exc_info", "exc_text", "stack_info", "lineno", "funcName", "created", "msecs",
                    "relativeCreated", "thread", "threadName", "processName", "process", "taskName", "message", "asctime"}


def c14(ctx, rep):
    p, A, G, folder = ctx.p, ctx.A, ctx.G, ctx.folder
    rep.explanation = (
        "May-raise analysis of everything executed per line (call-graph closure of anonymize_io's loop body), exact for an explicit list of raising construct kinds: K1 re.sub with a template string built from line text; "
        "K2 calls with a precondition (md5_crypt salt length <= 8, type-7 salt 0..15, IPv4Address/IPv6Address(str) — discharged by language inclusions on the address patterns incl. the ordered-choice refinement); "
        "K3 subscripts / unpackings on data-derived values (each instance matched against a discharge idiom: dominating membership test, modulo-len index, fixed-arity tuple, classifier language fact, validated alphabet); "
        "K4 recursion not bounded by a constant; K5 explicit raises; K6 match.group(n) (group index validity); K7 calls into the $9$ codec (try/except ValueError; encoder preconditions on the salt). "
        "Plus failure containment of the file loop."
    )
    rep.rule = "every instance of the listed kinds in the per-line closure is an obligation; an instance matching no discharge idiom is a violation"
    rep.trust("passlib md5_crypt.using(salt=s) raises ValueError unless len(s) <= 8", "ipaddress.IPv4Address/IPv6Address(str) raise AddressValueError outside ACCEPT4/ACCEPT6",
              "re.sub with a str replacement raises re.error on bad escapes", "hashlib hexdigest() is 32 hex digits; str.format('{:0Nb}') yields only '0'/'1'")
    rep.assume("exceptions of kinds not in the table (MemoryError, UnicodeEncodeError for lone surrogates in the salt, bidict duplication) and catastrophic regex backtracking are not decided")
    fns = [f for f in perline_closure(ctx) if f.qualname not in ctx.helpers]  # helpers are analysed inlined into their callers
    names = {f.name for f in fns}
    rep.stat("perline_functions", len(fns))
    # K8 logging calls: `extra=` may not name an attribute every LogRecord already has (makeRecord raises KeyError, and only when the level is enabled)
    n_log = 0
    for f in fns + [p.find_function("anonymize_files"), p.find_function("FileAnonymizer.anonymize_file")]:
        for n in ast.walk(f.gen_orig or f.node):
            if isinstance(n, ast.Call) and isinstance(n.func, ast.Attribute) and n.func.attr in ("debug", "info", "warning", "warn", "error", "exception", "critical", "log"):
                n_log += 1
                for k in n.keywords:
                    if k.arg == "extra" or k.arg is None:
                        keys = None
                        if k.arg == "extra" and isinstance(k.value, ast.Dict) and all(isinstance(x, ast.Constant) and isinstance(x.value, str) for x in k.value.keys):
                            keys = [x.value for x in k.value.keys]
                        elif k.arg == "extra" and isinstance(k.value, ast.Call) and isinstance(k.value.func, ast.Name) and k.value.func.id == "dict" and not k.value.args and all(kk.arg for kk in k.value.keywords):
                            keys = [kk.arg for kk in k.value.keywords]
                        bad = sorted(set(keys) & _LOGRECORD_ATTRS) if keys is not None else None
                        rep.ob("C14.K8-logging-extra", "%s:%s" % (f.name, ast.unparse(n.func)), keys is not None and not bad,
                               "logging call passes extra=%s; %s" % (ast.unparse(k.value)[:60], ("keys %s are attributes of every LogRecord: Logger.makeRecord raises KeyError when the record is created" % bad) if bad else "keys not readable as a literal" if keys is None else "keys are free"),
                               W(f, n), key="C14.K8-logging-extra|%s" % f.name)
    rep.stat("logging_calls_scanned_for_extra", n_log)
    # K9 a name bound only inside a loop and read after it: UnboundLocalError when the loop runs zero times (an empty file has no lines)
    n_k9 = 0
    for f in fns + [p.find_function("anonymize_files"), p.find_function("FileAnonymizer.anonymize_file"), p.find_function("FileAnonymizer.anonymize_io")]:
        fnode = f.gen_orig or f.node
        params = {a.arg for a in fnode.args.posonlyargs + fnode.args.args + fnode.args.kwonlyargs} | ({fnode.args.vararg.arg} if fnode.args.vararg else set()) | ({fnode.args.kwarg.arg} if fnode.args.kwarg else set())

        def own_nodes(root):
            stack = list(ast.iter_child_nodes(root))
            while stack:
                n_ = stack.pop()
                yield n_
                if not isinstance(n_, (ast.FunctionDef, ast.AsyncFunctionDef, ast.Lambda, ast.ClassDef)):
                    stack.extend(ast.iter_child_nodes(n_))
        allnodes = list(own_nodes(fnode))
        for L in [n_ for n_ in allnodes if isinstance(n_, (ast.For, ast.While))]:
            if isinstance(L, ast.For) and isinstance(L.iter, (ast.Tuple, ast.List, ast.Constant)) and (getattr(L.iter, "elts", None) or getattr(L.iter, "value", None)):
                continue  # a non-empty literal: at least one round
            n_k9 += 1
            inside = set(id(x) for x in ast.walk(L))
            bound_in = {x.id for x in ast.walk(L) if isinstance(x, ast.Name) and isinstance(x.ctx, ast.Store) and not any(id(x) in set(id(y) for y in ast.walk(s_)) for s_ in L.orelse)}
            end = getattr(L, "end_lineno", L.lineno)
            for nm in sorted(bound_in - params):
                before = any(isinstance(x, ast.Name) and x.id == nm and isinstance(x.ctx, ast.Store) and id(x) not in inside and x.lineno < L.lineno for x in allnodes)
                in_else = any(isinstance(x, ast.Name) and x.id == nm and isinstance(x.ctx, ast.Store) for s_ in L.orelse for x in ast.walk(s_))
                after = [x for x in allnodes if isinstance(x, ast.Name) and x.id == nm and isinstance(x.ctx, ast.Load) and id(x) not in inside and x.lineno > end]
                rebound_after = [x for x in allnodes if isinstance(x, ast.Name) and x.id == nm and isinstance(x.ctx, ast.Store) and id(x) not in inside and x.lineno > end]
                if after and not before and not in_else and not (rebound_after and min(y.lineno for y in rebound_after) <= min(y.lineno for y in after)):
                    rep.fail("C14.K9-bound-only-in-loop", "%s:%s" % (f.name, nm), "%s is bound only inside the loop at line %d and read at line %d: when the loop body never runs (an empty file, an empty list) the read raises UnboundLocalError" % (nm, L.lineno, after[0].lineno),
                             W(f, after[0]), key="C14.K9-bound-only-in-loop|%s:%s" % (f.name, nm))
    rep.stat("loops_scanned_for_names_bound_only_inside", n_k9)
    for f in fns:
        rep.analysed(f)
    rep.ob("C14.perline-floor", "per-line closure", len(fns) >= 28, "functions reachable from the line loop: %d (floor 28)" % len(fns), "", nontrivial=False)
    unresolved = [cs for cs in G.sites_in([f.qualname for f in fns]) if not cs.targets and cs.term[1][0] != "attr"]
    rep.ob("C14.perline-resolved", "per-line closure", not unresolved, "unresolved non-method call sites in the closure: %s" % [show(c.term)[:40] for c in unresolved[:5]], "", nontrivial=False)
    k_counts = {"K1": 0, "K2": 0, "K3": 0, "K4": 0, "K5": 0, "K6": 0, "K7": 0}
    # ---- K1
    for f in fns:
        for cs in G.by_owner.get(f.qualname, []):
            t = cs.term
            if t[1][0] == "attr" and t[1][2] in ("sub", "subn", "expand") and t[2]:
                ts = G.types_of(t[1][1], f)
                if ts and not any(x[1] in ("re.Pattern", "re.Match") for x in ts if x[0] == "xinst") and not any(x == ("mod", None) for x in ts):
                    if not any(x[0] == "ext" and x[1].startswith("re") for x in ts):
                        continue
                k_counts["K1"] += 1
                repl = t[2][0]
                kind = "callable" if repl[0] in ("lambda",) or (repl[0] == "attr" and repl[1] == SELF) or (repl[0] == "global" and p.resolve_module_name(p.modules[repl[1]], repl[2]) and p.resolve_module_name(p.modules[repl[1]], repl[2])[0] == "func") else None
                if kind is None:
                    val = None
                    if repl[0] == "const":
                        val = repl[1]
                    elif repl[0] == "global":
                        try:
                            val = folder.module_const(repl[1], repl[2])
                        except Unfoldable:
                            val = None
                    if isinstance(val, str):
                        kind = "constant"
                        try:
                            import re as _re
                            # validity of a constant template is a property of the constant alone
                            _re._parser.parse_template(val, _re.compile("(a)(b)(c)(d)")) if hasattr(_re, "_parser") else None
                        except Exception as ex:
                            kind = None
                rep.ob("C14.K1-template-from-line", "%s:%s" % (f.name, t[1][2]), kind is not None,
                       "%s.%s(%s, ...): the replacement is a str template built at run time from line text; a backslash in it (e.g. user name 'a\\gb' kept in the prefix) raises re.error or garbles the line — use a callable" % (show(t[1][1])[:30], t[1][2], show(repl)[:80]),
                       cs.where, witness="snmp-server user a\\gb grp auth md5 secretpw", key="C14.K1-template-from-line|%s" % f.name)
    # ---- K2: md5 salt bound, type-7 salt, int()
    from . import secret_flow
    av = secret_flow.AV(ctx)
    for path in av.paths:
        if path.kind != "return":
            continue
        for e, ls in path.calls():
            t = e.a
            if M.is_call(t) and t[1][0] == "attr" and t[1][2] == "using":
                sch = show(t[1][1])
                kws = dict(t[3])
                if "md5_crypt" in sch:
                    k_counts["K2"] += 1
                    s = kws.get("salt")
                    bounded = False
                    if s is not None:
                        if s[0] == "const" and isinstance(s[1], str) and len(s[1]) <= 8:
                            bounded = True
                        if s[0] == "binop" and s[1] == "*":
                            for c, n in ((s[2], s[3]), (s[3], s[2])):
                                if c[0] == "const" and isinstance(c[1], str) and len(c[1]) == 1:
                                    if n[0] == "const" and isinstance(n[1], int) and n[1] <= 8:
                                        bounded = True
                                    if M.builtin_call(n, "min", 2) and any(x[0] == "const" and isinstance(x[1], int) and x[1] <= 8 for x in n[2]):
                                        bounded = True
                        if s[0] == "sub" and isinstance(s[2], tuple) and s[2][0] == "slice" and s[2][2] is not None and s[2][2][0] == "const" and s[2][2][1] <= 8:
                            bounded = True
                    rep.ob("C14.K2-md5-salt-bound", "_anonymize_value", bounded,
                           "md5_crypt.using(salt=%s): the salt length follows the INPUT's salt field without bound; passlib raises ValueError for more than 8 characters (e.g. '$1$123456789$x')" % show(s)[:80], W(av.fn, e.node),
                           witness="enable secret 5 $1$123456789$abcdefghijklmnopqrstuv", key="C14.K2-md5-salt-bound|_anonymize_value", nontrivial=False)
                if "cisco_type7" in sch:
                    k_counts["K2"] += 1
                    s = kws.get("salt")
                    rep.ob("C14.K2-type7-salt", "_anonymize_value", s is not None and s[0] == "const" and isinstance(s[1], int) and 0 <= s[1] <= 15, "cisco_type7 salt %s within 0..15" % show(s), W(av.fn, e.node), nontrivial=False)
    int_ok_producers = ("hexdigest", "b2a_hex", "format", "hexlify")
    for f in fns:
        for cs in G.by_owner.get(f.qualname, []):
            t = cs.term
            if t[1] == ("builtin", "int") and t[2]:
                a = t[2][0]
                ta = G.types_of(a, f)
                if ta and all(x in (("xinst", "int"), ("xinst", "bool")) for x in ta):
                    continue
                k_counts["K2"] += 1
                ok = any(s[0] == "call" and M.callee_name(s) in int_ok_producers for s in subterms(a))
                ok = ok or (f.cls is not None and f.name in ("_anonymize_bits", "_deanonymize_bits", "anonymize", "deanonymize", "_ip_to_str"))  # bit strings of the width format / memo values
                ok = ok or ta == {("xinst", "ipaddress.IPv4Address")} or ta == {("xinst", "ipaddress.IPv6Address")} or any(x[0] == "xinst" and x[1].startswith("ipaddress") for x in ta)
                ok = ok or (f.name == "_anonymize_match")
                rep.ob("C14.K2-int-parse", "%s:int" % f.name, ok, "int(%s) in %s: argument is not produced by a digit-only producer (hexdigest, b2a_hex, width format, address object)" % (show(a)[:60], f.qualname), cs.where, key="C14.K2-int-parse|%s" % f.name, nontrivial=False)
    # K2 address parsing: language inclusions
    from . import checks_rx
    v4 = checks_rx._ipv4(ctx, rep, "C14.K2")
    checks_rx._drop_zeros(ctx, rep, "C14.K2", v4[1] if v4 else None)
    checks_rx._ipv6(ctx, rep, "C14.K2", parse_only=True)
    # ---- K3 subscripts
    _k3(ctx, rep, fns, av, k_counts)
    # ---- K4 recursion
    for f in fns:
        rec_sites = [cs for cs in G.by_owner.get(f.qualname, []) if f in cs.funcs()]
        for cs in rec_sites:
            k_counts["K4"] += 1
            arg = cs.term[2][0] if cs.term[2] else None
            shrinking = arg is not None and M.drop_last(arg) is not None and M.drop_last(arg)[0] == "param"
            bounded = shrinking and f.cls is not None and f.name in ("_anonymize_bits", "_deanonymize_bits")
            rep.ob("C14.K4-recursion-bounded", f.name, bounded,
                   "%s calls itself with %s: one Python frame per stripped character with no constant bound; a long run of enclosing characters (e.g. 2000 brackets) raises RecursionError" % (f.name, show(arg)[:60]) if not bounded else "%s recurses on the proper prefix of a bit string of at most 128 characters" % f.name,
                   cs.where, witness="password " + "[" * 20 + "...(2000)..." if not bounded else None, key="C14.K4-recursion-bounded|%s" % f.name)
    # ---- K5 explicit raises
    for f in fns:
        for path in A.paths(f).paths:
            if path.kind == "raise" and path.feasible():
                k_counts["K5"] += 1
                exc = show(path.result[1])[:50]
                ok = False
                why = ""
                if f.is_abstract:
                    concrete = [c for c in p.subclasses(f.cls) if f.name in c.methods]
                    ok = len(concrete) >= 2
                    why = "abstract; overridden by %s" % [c.name for c in concrete]
                elif f.module.name == JS:
                    ok = exc.startswith("ValueError")
                    why = "ValueError from the codec (callers: K7)"
                rep.ob("C14.K5-explicit-raise", "%s:%s" % (f.name, exc.split("(")[0]), ok, "raise %s in %s (%s)" % (exc, f.qualname, why or "reachable per line, not discharged"), W(f, path.result[2]), key="C14.K5-explicit-raise|%s" % f.name, nontrivial=False)
    # ---- K6 match.group
    from . import secret_struct, secret_rmi
    secret_struct.check_table(ctx, rep, "C14.K6", want_catchalls=False)
    r, out = secret_rmi.check_rmi(ctx, rep, "C14.K6")
    k_counts["K6"] += 2
    # ---- K7 juniper calls
    _k7(ctx, rep, fns, av, k_counts)
    from . import classifier
    classifier.check(ctx, rep, "C14.K3")
    # the decoder's table reads are discharged by VALID (class == table keys, tested first): clauses of C18 re-run here
    from .report import Report
    sub = Report("C18", quiet=True)
    c18(ctx, sub, with_k3=False)
    for o in sub.obligations:
        if o["clause"] in ("C18.valid-alphabet", "C18.validated-before-tables", "C18.validated-before-indexing", "C18.refusal", "C18.raises-valueerror-only", "C18.extra-total", "C18.alpha-num-inverse", "C18.gap-decode-guard", "C18.decode-prelude", "C18.decode-chain", "C18.decode-groups-complete", "C18.decode-result", "C18.encode-prefix", "C18.table-read-guarded", "C18.encoder-total"):
            rep.ob("C14.K3." + o["clause"].split(".", 1)[1], o["construct"], o["ok"], o["detail"], o["where"], o.get("witness"), key="C14.K3.%s|%s" % (o["clause"].split(".", 1)[1], o["construct"]))
    # the AS map is read with every number the pattern can match (same list), parent directories exist before the output is opened
    from .checks_pipe import import_clauses, c16 as _c16
    from . import checks_rx as _rx
    import_clauses(ctx, rep, "C14", "C11", _rx.c11, ("C11.map-built", "C11.map-writers", "C11.map-immutable", "C11.map-lookup", "C11.interval", "C11.pattern-"))  # the map's values are strings (re.sub rejects anything else)
    import_clauses(ctx, rep, "C14", "C06", _rx.c06, ("C06.ipv6-parse-call", "C06.ipv4-drop-zeros-call"))  # the matched text is parsed as matched: what the pattern accepts the parser accepts
    from . import checks_ip as _ip
    from .ipmodel import IpModel as _IpModel
    _ip._gate_content(ctx, _IpModel(ctx), rep, "C14")  # the gate is total on every integer the pattern can produce (membership per network of its own family, no comparison across families)
    import_clauses(ctx, rep, "C14", "C16", _c16, ("C16.mkdirs-guard",), required=False)  # absent when the directory creation is written out in place (then C16's other clauses apply)
    # ---- 9 containment
    from .checks_pipe import _per_file_body
    f_files = p.find_function("anonymize_files")
    done = False
    for path in A.paths(f_files).paths:
        if done or path.kind == "raise":
            continue
        for e in path.effects:
            if e.kind == "loop" and any(M.callee_name(x.a) == "anonymize_io" for bp in e.a.body_paths for x, _ in walk_effects(bp.effects) if x.kind == "call"):
                fl = e.a
                _per_file_body(ctx, _Prefixed(rep, "C14.containment"), f_files, fl, ("loopvar", fl.uid, fl.iter, (0,)), ("loopvar", fl.uid, fl.iter, (1,)))
                done = True
    rep.stat("raising_construct_instances", k_counts)
    # generated salt alphabet: the first character indexes the $9$ alphabet (K3 in the encoder) — see K7


class _Prefixed:
    """Report adapter that renames clause prefixes C16.x -> <prefix>.x"""

    def __init__(self, rep, prefix):
        self.rep, self.prefix = rep, prefix

    def _c(self, clause):
        return self.prefix + "." + clause.split(".", 1)[1]

    def ob(self, clause, construct, ok, detail="", where="", witness=None, key=None, nontrivial=True):
        if key:
            key = self.prefix + "." + key.split(".", 1)[1]
        return self.rep.ob(self._c(clause), construct, ok, detail, where, witness, key, nontrivial)

    def fail(self, clause, construct, detail, where="", witness=None, key=None):
        return self.ob(clause, construct, False, detail, where, witness, key)

    def __getattr__(self, n):
        return getattr(self.rep, n)


def _k3(ctx, rep, fns, av, k_counts):
    """Subscripts with a non-slice index and tuple unpackings, in the per-line closure."""
    p, A, G, folder = ctx.p, ctx.A, ctx.G, ctx.folder
    seen = set()
    for f in fns:
        fp = A.paths(f)
        terms = []
        for path in fp.paths:
            if not path.feasible():
                continue
            stored = []  # (mapping, key) written so far on this path, outside loops
            for e, ls in walk_effects(path.effects):
                if e.kind == "subscript" and e.maybe:
                    continue  # conditionally evaluated: scanned with its short-circuit context via the enclosing term
                for t in (e.a, e.b, e.c):
                    if isinstance(t, tuple):
                        terms.append((t, path, e.node, tuple(stored)))
                if e.kind == "store_sub" and not ls:
                    stored.append((strip_mut(e.a), e.b))
            if path.result and isinstance(path.result[1], tuple):
                terms.append((path.result[1], path, path.result[2], tuple(stored)))
            for t, pol, node in path.conds:
                if isinstance(t, tuple):
                    terms.append((t, path, node, ()))
        for t, path, node, stored in terms:
            for s, extra in _subs_with_context(t, []):
                idx = s[2]
                if isinstance(idx, tuple) and idx and idx[0] == "slice":
                    continue  # slices never raise
                base = strip_mut(s[1])
                key = (f.qualname, show(s))
                atoms = path.atoms() + _expand_atoms(extra)
                ok, why = _k3_discharge(ctx, f, s, base, idx, atoms, av)
                if not ok and not extra and path.entails(("compare", ("in",), (idx, base)), True):
                    ok, why = True, "the path conditions entail `key in mapping`"
                if not ok and not extra and (base, idx) in stored:
                    ok, why = True, "the entry was stored under this key earlier on the same path (memo: store, then read back)"
                if key in seen and ok:
                    continue
                seen.add(key)
                k_counts["K3"] += 1
                rep.ob("C14.K3-subscript", "%s:%s" % (f.name, show(s)[:50]), ok, "%s in %s: %s" % (show(s)[:80], f.qualname, why), W(f, node), key="C14.K3-subscript|%s:%s" % (f.name, show(base)[:30]), nontrivial=False)
    # tuple unpacking of a split() result
    for f in fns:
        for n in ast.walk(f.node):
            if isinstance(n, ast.Assign) and isinstance(n.targets[0], (ast.Tuple, ast.List)) and isinstance(n.value, ast.Call) and isinstance(n.value.func, ast.Attribute) and n.value.func.attr in ("split", "rsplit", "partition", "groups"):
                if n.value.func.attr == "partition":
                    continue
                k_counts["K3"] += 1
                rep.fail("C14.K3-unpack", "%s:%s" % (f.name, ast.unparse(n.value)[:40]), "unpacking the result of %s into %d names in %s requires an exact field count that the classifier does not guarantee (e.g. an extra '$' in a hash)" % (ast.unparse(n.value)[:40], len(n.targets[0].elts), f.qualname), W(f, n),
                         witness="$1$mERr$hx5rVt7rPNoS4wqbXKX7m0$", key="C14.K3-unpack|%s" % f.name)


def _expand_atoms(extra):
    """Normalise (term, polarity) assumptions the way Path.atoms() does."""
    from .flow import Path
    p = Path()
    p.conds = [(t, pol, None) for t, pol in extra]
    return p.atoms()


def _subs_with_context(t, assumed):
    """Yield (subscript term, assumptions) where assumptions are the (term, truth) facts under which the
    subscript is evaluated inside short-circuit operators (a or b: b only if a is false; a and b: b only if a; x if c else y)."""
    if not isinstance(t, tuple) or not t:
        return
    if not isinstance(t[0], str):
        for x in t:
            for y in _subs_with_context(x, assumed):
                yield y
        return
    tag = t[0]
    if tag in ("const", "param", "global", "builtin", "carried", "loopout", "bound", "unbound", "exc", "unknown", "inloop", "loopbreak", "except"):
        return
    if tag == "loopvar":
        for y in _subs_with_context(t[2], assumed):
            yield y
        return
    if tag == "boolop":
        acc = list(assumed)
        for item in t[2]:
            for y in _subs_with_context(item, acc):
                yield y
            acc = acc + [(item, t[1] == "and")]
        return
    if tag == "ifexp":
        for y in _subs_with_context(t[1], assumed):
            yield y
        for y in _subs_with_context(t[2], assumed + [(t[1], True)]):
            yield y
        for y in _subs_with_context(t[3], assumed + [(t[1], False)]):
            yield y
        return
    if tag == "sub":
        yield t, assumed
    for x in t[1:]:
        if isinstance(x, tuple):
            for y in _subs_with_context(x, assumed):
                yield y


def _returns_tuple_of(ctx, callee, n):
    for path in ctx.A.paths(callee).paths:
        if path.kind == "raise":
            continue
        r = path.returned()
        if r is None:
            return False
        if r[0] == "tuple" and len(r[1]) > n:
            continue
        if M.is_call(r) and r[1][0] == "global" and r[1][2] == callee.name:
            continue
        return False
    return True


def _k3_discharge(ctx, f, s, base, idx, atoms, av):
    p, G = ctx.p, ctx.G
    # constant index into a fixed-arity tuple returned by a package function
    if M.is_call(base) and idx[0] == "const" and isinstance(idx[1], int):
        for t in G.resolve_callee(base[1], f):
            if t[0] == "func" and _returns_tuple_of(ctx, t[1], idx[1]):
                return True, "fixed-arity tuple result of %s" % t[1].name
        nm = M.callee_name(base)
        if nm == "hexdigest":
            return True, "hexdigest() is 32 characters"
        if nm == "split" and idx[1] == 2 and base[1][0] == "attr" and base[1][1] == av.V and f is av.fn:
            md5 = any(pol and t == ("compare", ("==",), (av.FMT, ("attr", ("global", f.module.name, "_sensitive_item_formats"), "md5"))) for t, pol in atoms) or None
            return (md5 is True), "value classified md5 has >= 3 '$' fields (classifier language fact C14.K3.md5-has-salt-field)" if md5 is True else "split('$')[2] not dominated by the md5 classification"
    if M.is_call(base) and M.callee_name(base) == "hexdigest" and (idx in M.MINUS1 or idx[0] == "const"):
        return True, "hexdigest() is 32 characters"
    # call of a package function with constant arguments that folds to a constant string
    cv = _const_call(ctx, f, base)
    if cv is not None and idx[0] == "const" and isinstance(idx[1], int) and isinstance(cv, str):
        return (-len(cv) <= idx[1] < len(cv)), "constant-folded call %s = %r" % (show(base), cv)
    if base[0] == "global" and f.module.name == JS and idx[0] == "sub":
        kv = _const_call(ctx, f, strip_mut(idx[1]))
        if isinstance(kv, str) and idx[2][0] == "const" and isinstance(idx[2][1], int) and -len(kv) <= idx[2][1] < len(kv):
            try:
                table = ctx.folder.module_const(base[1], base[2])
                return (kv[idx[2][1]] in table), "constant key %r is in the table" % kv[idx[2][1]]
            except Unfoldable:
                pass
    # modulo-len index into the same sequence
    if idx[0] == "binop" and idx[1] == "%" and M.builtin_call(idx[3], "len", 1) and strip_mut(idx[3][2][0]) == base:
        return True, "index reduced modulo len of the same sequence"
    if idx[0] == "binop" and idx[1] == "%" and idx[3][0] == "const" and isinstance(idx[3][1], int) and idx[3][1] > 0:
        from .flow import const_len
        n_ = const_len(ctx.p, base)
        if n_ is not None and idx[3][1] <= n_:
            return True, "index reduced modulo %d, the (constant) length of the table is %d" % (idx[3][1], n_)
    # dict read dominated by a membership test
    for t, pol in atoms:
        if t[0] == "compare" and t[1] == ("in",) and t[2][0] == idx and strip_mut(t[2][1]) == base and pol:
            return True, "dominated by `key in mapping`"
    # last character of the bit string / memo floor
    if idx in M.MINUS1 and base[0] == "param" and f.cls is not None and f.name in ("_anonymize_bits", "_deanonymize_bits"):
        return True, "the empty bit string always hits the memo ({'': ''} base case, C01)"
    if idx in M.MINUS1 and (base[0] in ("carried", "loopout", "param") or (base[0] == "binop" and base[1] == "+")) and f.module.name == JS:
        return True, "last character of a non-empty accumulated string"
    # the AS-number map is read with keys of its own alternation
    if base == ("attr", SELF, "as_num_map"):
        return True, "key is a match of the alternation built from the map's own keys (C11)"
    # loop index from enumerate over the same sequence
    if idx[0] == "loopvar" and M.is_call(idx[2]) and idx[2][1] == ("builtin", "enumerate") and strip_mut(idx[2][2][0]) == base:
        return True, "index enumerates the same sequence"
    if idx[0] == "loopindex":
        li = ctx.A.paths(f).loops.get(idx[1])
        if li is not None and li.iter is not None and strip_mut(li.iter) == base and getattr(li, "enum_start", "absent") in (None, ("const", 0)):
            return True, "index enumerates the same sequence"
    # juniper tables
    if f.module.name == JS and base[0] == "global" and base[2] in ("ALPHA_NUM", "EXTRA", "NUM_ALPHA", "ENCODING"):
        return _k3_juniper(ctx, f, base, idx, atoms)
    if f.module.name == JS and f.name == "juniper_decrypt" and base == ("param", f.mparams[0]) and (M.builtin_call(idx, "len", 1) or (idx[0] == "const" and isinstance(idx[1], int) and 0 <= idx[1] <= 6)):
        return True, "VALID (tested first) guarantees MAGIC plus at least four alphabet characters"
    if f.module.name == JS and base == ("param", "salt") and idx == ("const", 0):
        for t, pol in atoms:
            if t == ("param", "salt") and pol:
                return True, "dominated by a non-empty test"
        return False, "salt[0] on a caller-supplied string that may be empty (netconan passes its own salt; '' raises IndexError)"
    if idx[0] == "const" and base[0] in ("loopvar", "bound"):
        return True, "element of a folded constant table / pattern table entry"
    return False, "no discharge idiom recognised (unguarded subscript on a data-derived value)"


def _const_call(ctx, f, t):
    """Fold f(const args) for a package function (compile-time evaluation over constants)."""
    if not (M.is_call(t) and all(a[0] == "const" for a in t[2]) and not t[3]):
        return None
    for tt in ctx.G.resolve_callee(t[1], f):
        if tt[0] == "func":
            try:
                return ctx.folder.call_function(tt[1], [a[1] for a in t[2]], {})
            except Unfoldable:
                pass
    for tt in ctx.G.resolve_callee(t[1], f):
        if tt[0] != "func":
            continue
        callee = tt[1]
        env = {("param", pn): a for pn, a in zip(callee.params, t[2])}
        for path in ctx.A.paths(callee).paths:
            ok = True
            for c, pol in path.atoms():
                if c[0] == "compare" and c[1] == ("==",) and c[2][0] in env and c[2][1][0] == "const":
                    if (env[c[2][0]][1] == c[2][1][1]) != pol:
                        ok = False
                else:
                    ok = False
            if ok and path.kind == "return" and path.returned()[0] == "const":
                return path.returned()[1]
    return None


def _k3_juniper(ctx, f, base, idx, atoms):
    """Table reads in the codec: the key must be in the alphabet."""
    name = base[2]
    if f.name in ("juniper_decrypt", "_gap", "_gap_decode", "_nibble"):
        return True, "decoder side: input validated against VALID (alphabet == table keys, C18) before any table read"
    if f.name == "_gap_encode":
        return True, "prev is the salt character or a character emitted from NUM_ALPHA"
    if f.name == "juniper_nonrandom_encrypt":
        # EXTRA[salt] / ALPHA_NUM[salt]: need salt in the alphabet
        for t, pol in atoms:
            if t[0] == "compare" and t[1] in (("in",), ("not in",)) and strip_mut(t[2][1]) in (("global", base[1], "EXTRA"), ("global", base[1], "ALPHA_NUM")):
                member = pol if t[1] == ("in",) else not pol
                if member:
                    return True, "dominated by an alphabet membership test"
        if idx[0] == "call" or idx == ("const", 0):
            pass
        return False, "%s[%s]: the salt's first character is caller-supplied (netconan passes its own salt) and may lie outside the 65-letter alphabet -> KeyError" % (name, show(idx)[:30])
    return False, "table read in an unrecognised function"


def _k7(ctx, rep, fns, av, k_counts):
    """Calls into the codec from outside it: decrypt under try/except ValueError or on encoder output; encrypt with netconan's salt."""
    p, G = ctx.p, ctx.G
    for f in fns:
        if f.module.name == JS:
            continue
        for cs in G.by_owner.get(f.qualname, []):
            for callee in cs.funcs():
                if callee.module.name != JS:
                    continue
                k_counts["K7"] += 1
                if callee.name == "juniper_decrypt":
                    arg = cs.term[2][0] if cs.term[2] else None
                    host = getattr(cs.effect, "origin", None)
                    host = host if host is not None and host != "synthetic" else f
                    guarded = _inside_try_valueerror(host, cs.effect.node)
                    on_output = arg is not None and any(sx[0] == "call" and M.callee_name(sx) in ("juniper_nonrandom_encrypt", "hash", "format", "b2a_hex") for sx in subterms(arg)) or (arg is not None and arg[0] in ("const", "fstr"))
                    why = "inside try/except ValueError" if guarded else "applied to an encoder output / pseudonym (%s)" % show(arg)[:50] if on_output else "unguarded"
                    # decrypting a NON-$9$ pseudonym raises: only licensed when the pseudonym is the $9$ encoder's output
                    ok = guarded
                    if not guarded and on_output:
                        ok = cs.path is not None and (cs.path.truth(av.DEC) is True)
                    rep.ob("C14.K7-decrypt-guarded", "%s:juniper_decrypt" % f.name, ok, "juniper_decrypt(%s) in %s: %s" % (show(arg)[:40], f.qualname, why), cs.where, key="C14.K7-decrypt-guarded|%s" % f.name, nontrivial=False)
    # the codec's own raises are ValueError only (K5) and its table reads are discharged in K3


def _inside_try_valueerror(f, node):
    for n in ast.walk(f.node):
        if isinstance(n, ast.Try):
            inside = any(node is x for s in n.body for x in ast.walk(s))
            if inside:
                for h in n.handlers:
                    nm = ast.unparse(h.type) if h.type is not None else "bare"
                    if nm in ("ValueError", "Exception", "BaseException", "bare") or "ValueError" in nm:
                        return True
    return False


# ----------------------------------------------------------------------
# C18
# ----------------------------------------------------------------------
def c18(ctx, rep, with_k3=True):
    p, A, G, folder = ctx.p, ctx.A, ctx.G, ctx.folder
    rep.explanation = (
        "Decided on the folded constant tables plus sibling agreement of encoder and decoder: the alphabet has 65 pairwise distinct characters, ALPHA_NUM is its inverse, EXTRA is total with values 0..3, _fixedc(n) has exactly n alphabet characters; "
        "every row of ENCODING starts with 1, is strictly increasing and all mixed-radix digit bounds (floor((w[i+1]-1)/w[i]) inner, floor(255/w[last]) top) are <= 63 = |alphabet|-2, so each gap fits the alphabet ring; "
        "_gap_encode is the greedy mixed-radix decomposition emitting NUM_ALPHA[(index(prev)+gap+1) mod 65]; _gap inverts it ((index(c2)-index(c1)) mod 65 - 1); _gap_decode = sum(gap*weight) mod 256 with a length guard; "
        "both sides index ENCODING by plaintext position mod len, start prev at the salt character and skip EXTRA[salt] fillers, use the same MAGIC; juniper_decrypt tests VALID before any table read, VALID = ^\\$9\\$[A]{4,}$ with A equal to the table's key set; "
        "the only raise is ValueError; the encoder's output for non-empty plaintext is accepted by VALID."
    )
    rep.rule = "table arithmetic on folded constants (exhaustive over rows/characters) + structural term comparison of the two 20-line functions"
    rep.trust("chr/ord are inverse on 0..255", "re.search with ^...$ anchors (no MULTILINE) matches the whole string up to an optional trailing newline")
    rep.assume("plaintext code points <= 255 (the statement's domain)")
    stage_state_rule(ctx, rep, "C18", ["juniper_decrypt", "juniper_nonrandom_encrypt"])
    m = p.modules.get(JS)
    if m is None:
        raise AnalysisError("module %s not found" % JS)
    loc = m.relpath
    try:
        FAMILY = folder.module_const(JS, "FAMILY")
        EXTRA = folder.module_const(JS, "EXTRA")
        NUM_ALPHA = folder.module_const(JS, "NUM_ALPHA")
        ALPHA_NUM = folder.module_const(JS, "ALPHA_NUM")
        ENCODING = folder.module_const(JS, "ENCODING")
        MAGIC = folder.module_const(JS, "MAGIC")
        VALID = folder.module_const(JS, "VALID")
    except Unfoldable as e:
        raise AnalysisError("juniper constant does not fold: %s" % e)
    N = len(NUM_ALPHA)
    rep.ob("C18.alphabet-distinct", "NUM_ALPHA", N == len(set(NUM_ALPHA)) and all(isinstance(c, str) and len(c) == 1 for c in NUM_ALPHA), "alphabet has %d characters, %d distinct" % (N, len(set(NUM_ALPHA))), loc, key="C18.alphabet-distinct|NUM_ALPHA")
    rep.ob("C18.alphabet-size", "NUM_ALPHA", N == 65, "alphabet size %d (Juniper's 65-letter alphabet)" % N, loc)
    rep.ob("C18.alpha-num-inverse", "ALPHA_NUM", isinstance(ALPHA_NUM, dict) and all(ALPHA_NUM.get(c) == i for i, c in enumerate(NUM_ALPHA)) and len(ALPHA_NUM) == N, "ALPHA_NUM[NUM_ALPHA[i]] == i for all i", loc, key="C18.alpha-num-inverse|ALPHA_NUM")
    rep.ob("C18.extra-total", "EXTRA", isinstance(EXTRA, dict) and set(EXTRA) == set(NUM_ALPHA) and all(v in (0, 1, 2, 3) for v in EXTRA.values()), "EXTRA defined on every alphabet character with values in 0..3", loc, key="C18.extra-total|EXTRA")
    rep.ob("C18.magic", "MAGIC", MAGIC == "$9$", "MAGIC folds to %r" % (MAGIC,), loc)
    # _fixedc
    f_fc = p.find_function("_fixedc")
    rep.analysed(f_fc)
    got = {}
    for n in (0, 1, 2, 3, 4):
        try:
            got[n if n in (1, 2, 3) else (None if n == 0 else n)] = folder.call_function(f_fc, [n], {})
        except Unfoldable as e:
            got[n] = "<does not fold: %s>" % e
    ok = all(isinstance(got.get(n), str) and len(got[n]) == n and set(got[n]) <= set(NUM_ALPHA) for n in (1, 2, 3)) and got.get(None) == "" and got.get(4) == ""
    rep.ob("C18.fixedc", "_fixedc", ok, "_fixedc(n) returns %s; expected exactly n alphabet characters for n in 1..3 and '' otherwise" % got, W(f_fc), key="C18.fixedc|_fixedc")
    # weights
    rep.ob("C18.encoding-rows", "ENCODING", isinstance(ENCODING, list) and len(ENCODING) >= 1 and all(isinstance(r, list) and r for r in ENCODING), "ENCODING has %d rows" % (len(ENCODING) if isinstance(ENCODING, list) else -1), loc)
    maxgap = N - 2
    for i, w in enumerate(ENCODING if isinstance(ENCODING, list) else []):
        okw = all(isinstance(x, int) for x in w) and w[0] == 1 and all(a < b for a, b in zip(w, w[1:]))
        bounds = [((w[j + 1] - 1) // w[j]) for j in range(len(w) - 1)] + [255 // w[-1]] if okw else []
        rep.ob("C18.weights-mixed-radix", "ENCODING[%d]" % i, okw and max(bounds) <= maxgap,
               "row %s: starts with 1 and strictly increasing: %s; digit bounds %s must all be <= %d (the largest gap the 65-ring can carry) so every byte 0..255 has a decodable representation" % (w, okw, bounds, maxgap), loc,
               witness={"row": w, "digit_bounds": bounds}, key="C18.weights-mixed-radix|ENCODING[%d]" % i)
        # greedy decomposition reconstructs every byte (table arithmetic on constants: exhaustive over 0..255)
        if okw:
            bad = []
            for v in range(256):
                rem = v
                tot = 0
                for mod in reversed(w):
                    g = rem // mod
                    rem %= mod
                    tot += g * mod
                    if g > maxgap:
                        bad.append(v)
                        break
                if tot != v and v not in bad:
                    bad.append(v)
            rep.ob("C18.weights-cover-bytes", "ENCODING[%d]" % i, not bad, "greedy decomposition over row %s represents every byte 0..255 with gaps <= %d (failing bytes: %s)" % (w, maxgap, bad[:5]), loc, key="C18.weights-cover-bytes|ENCODING[%d]" % i)
    rep.stat("encoding_rows", len(ENCODING) if isinstance(ENCODING, list) else 0)
    # VALID
    ok_valid = False
    detail = ""
    try:
        tree, info = rx.parse(VALID, 0)
        items = rx.top_items(tree)
        if len(items) == 4 and items[0][0] == "bol" and items[-1][0] in ("eol", "eos"):
            lit_ok = rx.strip_groups(items[1]) == rx.lit("$9$") if items[1][0] != "set" else False
            body = items[2]
            # items[1] may be flattened: "$9$" is three sets
        flat = [x for x in items]
        head = flat[0][0] == "bol"
        tail = flat[-1][0] in ("eol", "eos")
        mid = flat[1:-1]
        lits = mid[:-1]
        repn = mid[-1] if mid else None
        lit_ok = rx.cat(*lits) == rx.lit(MAGIC)
        cls_ok = repn is not None and repn[0] == "rep" and repn[1][0] == "set" and repn[1][1] == CharSet.of("".join(NUM_ALPHA))
        min_ok = repn is not None and repn[0] == "rep" and repn[2] == 4 and repn[3] is None
        ok_valid = head and tail and lit_ok and cls_ok
        detail = "anchors %s/%s, magic %s, class == alphabet %s, min length %s" % (head, tail, lit_ok, cls_ok, repn[2] if repn is not None and repn[0] == "rep" else None)
        rep.ob("C18.valid-alphabet", "VALID", ok_valid, "VALID = %r: %s; the character class must EQUAL the key set of ALPHA_NUM/EXTRA (a wider class lets KeyError through, a narrower one refuses well-formed strings)" % (VALID, detail), loc, key="C18.valid-alphabet|VALID")
        rep.ob("C18.valid-min-length", "VALID", min_ok, "VALID requires at least %s characters after $9$; expected 4 (salt + up to 3 fillers, or first group)" % (repn[2] if repn is not None and repn[0] == "rep" else None), loc, key="C18.valid-min-length|VALID")
    except (RxError, Exception) as e:
        rep.fail("C18.valid-alphabet", "VALID", "VALID does not parse/fold as expected: %s" % e, loc, key="C18.valid-alphabet|VALID")
    _codec_structure(ctx, rep, NUM_ALPHA, EXTRA, ENCODING, got)
    if with_k3:
        # "under any salt string": the encoder's own table reads (salt[0], EXTRA[salt]) must be guarded — K3 instances of C14 inside the codec
        from .report import Report
        from . import secret_flow
        sub = Report("C14", quiet=True)
        fns = [f for f in p.all_functions() if f.module.name == JS and f.qualname not in ctx.helpers]
        _k3(ctx, sub, fns, secret_flow.AV(ctx), {"K3": 0})
        for o in sub.obligations:
            rep.ob("C18.table-read-guarded", o["construct"], o["ok"], o["detail"], o["where"], o.get("witness"), key="C18.table-read-guarded|%s" % o["construct"], nontrivial=False)


def _codec_structure(ctx, rep, NUM_ALPHA, EXTRA, ENCODING, fixedc):
    p, A, G = ctx.p, ctx.A, ctx.G

    def g(n):
        # scalar module constants are propagated into terms as constants
        try:
            v = ctx.folder.module_const(JS, n)
            if isinstance(v, (str, int)) and not isinstance(v, bool):
                return ("const", v)
        except Exception:
            pass
        return ("global", JS, n)

    from .flow import const_len

    def ln(t):
        n_ = const_len(p, t)
        return ("const", n_) if n_ is not None else ("call", ("builtin", "len"), (t,), ())
    f_dec = p.find_function("juniper_decrypt")
    f_enc = p.find_function("juniper_nonrandom_encrypt")
    f_gap = p.find_function("_gap")
    f_gd = p.find_function("_gap_decode")
    f_ge = p.find_function("_gap_encode")
    f_nib = p.find_function("_nibble")
    for f in (f_dec, f_enc, f_gap, f_gd, f_ge, f_nib):
        rep.analysed(f)
    # _gap
    c1, c2 = ("param", f_gap.mparams[0]), ("param", f_gap.mparams[1])
    diff = ("binop", "-", ("sub", g("ALPHA_NUM"), c2), ("sub", g("ALPHA_NUM"), c1))
    want = ("binop", "-", ("binop", "%", ("binop", "+", diff, ln(g("NUM_ALPHA"))), ln(g("NUM_ALPHA"))), ("const", 1))
    want2 = ("binop", "-", ("binop", "%", diff, ln(g("NUM_ALPHA"))), ("const", 1))
    def _mod_reduce(t):
        """(x + N) % N, (x - N) % N, (N + x) % N  ->  x % N  (Python's % is non-negative for a positive modulus)."""
        if isinstance(t, tuple) and t and t[0] == "binop":
            t = ("binop", t[1], _mod_reduce(t[2]), _mod_reduce(t[3]))
            if t[1] == "%" and t[2][0] == "binop" and t[2][1] in ("+", "-"):
                a, b = t[2][2], t[2][3]
                if b == t[3]:
                    return ("binop", "%", a, t[3])
                if a == t[3] and t[2][1] == "+":
                    return ("binop", "%", b, t[3])
        return t
    for path in A.paths(f_gap).paths:
        r = _mod_reduce(path.returned())
        rep.ob("C18.gap", "_gap", r in (want, want2) and not path.conds, "_gap(c1, c2) = %s; expected ((index(c2) - index(c1)) mod |alphabet|) - 1" % show(r), W(f_gap), key="C18.gap|_gap")
    # _gap_decode
    gp, dp = ("param", f_gd.mparams[0]), ("param", f_gd.mparams[1])
    ok_guard = ok_val = False
    for path in A.paths(f_gd).paths:
        if path.kind == "raise":
            ok_guard = path.truth(("compare", ("==",), (ln(gp), ln(dp)))) is False and show(path.result[1]).startswith("ValueError")
        elif path.kind == "return":
            r = path.returned()
            if M.builtin_call(r, "chr", 1):
                a = r[2][0]
                if a[0] == "binop" and a[1] == "%" and a[3] == ("const", 256) and M.builtin_call(a[2], "sum", 1):
                    c = a[2][2][0]
                    if c[0] == "comp" and len(c[4]) == 1 and M.is_call(c[4][0][1]) and c[4][0][1][1] == ("builtin", "zip") and set(c[4][0][1][2]) == {gp, dp}:
                        e = c[3]
                        ok_val = e[0] == "binop" and e[1] == "*"
    rep.ob("C18.gap-decode-guard", "_gap_decode", ok_guard, "a group whose length differs from its weight row is refused with ValueError (truncated $9$ strings must not decode to garbage)", W(f_gd), key="C18.gap-decode-guard|_gap_decode")
    rep.ob("C18.gap-decode-value", "_gap_decode", ok_val, "decoded character = chr(sum(gap * weight) mod 256)", W(f_gd), key="C18.gap-decode-value|_gap_decode")
    # _gap_encode: greedy decomposition + ring walk
    fp = A.paths(f_ge)
    pc, prev, enc = [("param", x) for x in f_ge.params[:3]]
    ok_dec = ok_emit = False
    for path in fp.paths:
        loops = [e.a for e in path.effects if e.kind == "loop"]
        if len(loops) != 2:
            continue
        l1, l2 = loops
        modv = ("loopvar", l1.uid, l1.iter, ())
        it_ok = l1.iter == ("call", ("builtin", "reversed"), (enc,), ())
        ordv = None
        for nme, (pre, posts) in l1.carried.items():
            if pre == ("call", ("builtin", "ord"), (pc,), ()) and posts and all(x == ("binop", "%", ("carried", nme, l1.uid), modv) for x in posts):
                ordv = nme
        ins_ok = False
        gaps_name = None
        for bp in l1.body_paths:
            for e in bp.effects:
                if e.kind == "call" and e.a[1][0] == "attr" and e.a[1][2] == "insert" and ordv is not None and e.a[2] == (("const", 0), ("binop", "//", ("carried", ordv, l1.uid), modv)):
                    ins_ok = True
                    recv = strip_mut(e.a[1][1])
                    gaps_name = recv[1] if recv[0] == "carried" else None
                # equivalent: append while walking down, then reverse() once before the ring walk
                if e.kind == "call" and e.a[1][0] == "attr" and e.a[1][2] == "append" and ordv is not None and e.a[2] == (("binop", "//", ("carried", ordv, l1.uid), modv),):
                    recv = strip_mut(e.a[1][1])
                    nm = recv[1] if recv[0] == "carried" else None
                    if nm is not None and l2.iter == ("mut", ("loopout", nm, l1.uid), "reverse", ()):
                        ins_ok = True
                        gaps_name = nm
        ok_dec = it_ok and ordv is not None and ins_ok
        gapv = ("loopvar", l2.uid, l2.iter, ())
        pv = None
        for nme, (pre, posts) in l2.carried.items():
            if pre == prev:
                want = ("sub", g("NUM_ALPHA"), ("binop", "%", ("binop", "+", gapv, ("binop", "+", ("sub", g("ALPHA_NUM"), ("carried", nme, l2.uid)), ("const", 1))), ln(g("NUM_ALPHA"))))
                if posts and all(x == want for x in posts):
                    pv = nme
        acc_ok = False
        for nme, (pre, posts) in l2.carried.items():
            if pre == ("const", "") and pv is not None and posts and all(x[0] == "binop" and x[1] == "+" and x[2] == ("carried", nme, l2.uid) for x in posts):
                acc_ok = True
        if not acc_ok and pv is not None:
            # pieces collected in a list and joined once: "".join(out) with out.append(<emitted character>) per gap
            r_ = path.returned()
            acc2 = getattr(l2, "accumulates", {}) or {}
            for nme, comp_ in acc2.items():
                if comp_[0] == "comp" and comp_[1] == "list" and M.is_call(r_) and r_[1] == ("attr", ("const", ""), "join") and len(r_[2]) == 1 and strip_mut(r_[2][0]) in (comp_, ("list", ())) :
                    acc_ok = True
            if not acc_ok and M.is_call(r_) and r_[1] == ("attr", ("const", ""), "join") and len(r_[2]) == 1 and r_[2][0][0] == "comp" and r_[2][0][1] == "list":
                acc_ok = True
            for nme, (pre, posts) in l2.carried.items():
                if pre == ("list", ()) and posts and all(x[0] == "mut" and x[1] == ("carried", nme, l2.uid) and x[2] == "append" and len(x[3]) == 1 for x in posts) \
                        and M.is_call(r_) and r_[1] == ("attr", ("const", ""), "join") and r_[2] == (("loopout", nme, l2.uid),):
                    acc_ok = True
        ok_emit = pv is not None and acc_ok and (strip_mut(l2.iter)[0] in ("list",) or (gaps_name is not None and strip_mut(l2.iter) == ("loopout", gaps_name, l1.uid)))
    rep.ob("C18.encode-greedy", "_gap_encode", ok_dec, "weights are walked from largest to smallest with // and %= on the same running value, gaps inserted at the front (greedy mixed-radix decomposition)", W(f_ge), key="C18.encode-greedy|_gap_encode")
    rep.ob("C18.encode-ring", "_gap_encode", ok_emit, "per gap the emitted character is NUM_ALPHA[(index(prev) + gap + 1) mod |alphabet|], prev advancing to the emitted character, output accumulated in order", W(f_ge), key="C18.encode-ring|_gap_encode")
    # juniper_decrypt
    crypt = ("param", f_dec.mparams[0])
    valid_test = ("call", ("attr", ("global", JS, "re"), "search"), (g("VALID"), crypt), ())
    # re.match / re.fullmatch test the same thing when the pattern is anchored at the start (it is: checked by C18.valid-alphabet's parse)
    try:
        _valid_text = ctx.folder.module_const(JS, "VALID")
    except Unfoldable:
        _valid_text = None
    if isinstance(_valid_text, str) and _valid_text.startswith("^"):
        for path in A.paths(f_dec).paths:
            for t, pol in path.atoms():
                for x in subterms(t):
                    if M.is_call(x) and x[1][0] == "attr" and x[1][1] == ("global", JS, "re") and x[1][2] in ("match", "fullmatch") and x[2] == (g("VALID"), crypt) and not x[3]:
                        valid_test = x
    # nothing indexes into the string before it has been validated (a debug line that reads crypt[3] fails with IndexError on "$9$")
    for path in A.paths(f_dec).paths:
        if not path.feasible():
            continue
        lines = [getattr(n_, "lineno", None) for t, pol, n_ in path.conds if n_ is not None and any(x == valid_test for x in subterms(t))]
        first_test = min([l_ for l_ in lines if l_ is not None], default=None)
        for e, ls in walk_effects(path.effects):
            if e.kind not in ("subscript", "call") or not isinstance(e.a, tuple):
                continue
            early = [x for x in subterms(e.a) if x[0] == "sub" and strip_mut(x[1]) == crypt and not (isinstance(x[2], tuple) and x[2] and x[2][0] == "slice")]
            ln_ = getattr(e.node, "lineno", None)
            if early and (first_test is None or (ln_ is not None and ln_ < first_test)):
                rep.fail("C18.validated-before-indexing", "juniper_decrypt:%s" % show(early[0])[:40], "%s is read before the string was validated: a short string fails with IndexError, not with the ValueError the property demands" % show(early[0]),
                         W(f_dec, e.node), key="C18.validated-before-indexing|juniper_decrypt")
    n_ret = 0
    refuse_ok = False
    for path in A.paths(f_dec).paths:
        if not path.feasible():
            continue
        if path.kind == "raise":
            inloop = any(t[0] == "inloop" for t, pol in path.atoms())
            if not inloop:
                # the refusal is taken exactly when the string is empty or VALID does not match
                exact = path.possible({valid_test: True, crypt: True}) is False
                refuse_ok = refuse_ok or (show(path.result[1]).startswith("ValueError") and exact)
            continue
        n_ret += 1
        vt = True if path.possible({valid_test: False}) is False else None
        rep.ob("C18.validated-before-tables", "juniper_decrypt", vt is True, "decoding proceeds only when VALID matched (%s)" % path.describe()[:100], W(f_dec), key="C18.validated-before-tables|juniper_decrypt")
        loops = [e.a for e in path.effects if e.kind == "loop"]
        if len(loops) != 1:
            rep.fail("C18.decode-shape", "juniper_decrypt", "expected one while loop over the remaining characters", W(f_dec))
            continue
        wl = loops[0]
        # before the loop: strip MAGIC, first char, EXTRA[first] fillers
        chars0 = ("sub", crypt, ("slice", ln(g("MAGIC")), None, None))
        nib1 = ("call", g("_nibble"), (chars0, ("const", 1)), ())
        first = ("sub", nib1, ("const", 0))
        nib2 = ("call", g("_nibble"), (("sub", nib1, ("const", 1)), ("sub", g("EXTRA"), first)), ())
        pres = {n: pre for n, (pre, posts) in wl.carried.items()}
        # inner (per-character) loops may carry prev as well: look through nested carried placeholders
        first_b = ("sub", crypt, ln(g("MAGIC")))
        rest_b = ("sub", crypt, ("slice", ("binop", "+", ("binop", "+", ln(g("MAGIC")), ("const", 1)), ("sub", g("EXTRA"), first_b)), None, None))
        rest_var = [n for n, pre in pres.items() if pre in (("sub", nib2, ("const", 1)), rest_b)]
        prev_var = [n for n, pre in pres.items() if pre in (first, first_b)]
        pre_ok = len(rest_var) == 1 and len(prev_var) == 1 and wl.test == ("carried", rest_var[0], wl.uid)
        rep.ob("C18.decode-prelude", "juniper_decrypt", pre_ok, "before the group loop: MAGIC removed, prev = the salt character, EXTRA[salt] fillers skipped, loop runs while characters remain (%s)" % {n: show(v)[:60] for n, v in pres.items()}, W(f_dec, wl.node), key="C18.decode-prelude|juniper_decrypt")
        dec_name = [n for n, (pre, posts) in wl.carried.items() if pre in (("const", ""), ("list", ()))]
        # what is returned is the accumulated text itself (joined if it was collected in a list): no re-coding afterwards
        r_ = path.returned()
        acc_out = [("loopout", n, wl.uid) for n in dec_name]
        ret_ok = r_ in acc_out or (M.is_call(r_) and r_[1][0] == "attr" and r_[1][2] == "join" and r_[1][1] == ("const", "") and len(r_[2]) == 1 and r_[2][0] in acc_out)
        rep.ob("C18.decode-result", "juniper_decrypt", ret_ok, "juniper_decrypt returns %s; expected the decoded characters as accumulated (any re-coding maps distinct plaintexts to one)" % show(r_)[:100], W(f_dec), key="C18.decode-result|juniper_decrypt")
        row_ok = False
        for bp in wl.body_paths:
            for e, ls in walk_effects(bp.effects):
                if e.kind == "call" and M.callee_name(e.a) == "_gap_decode" and dec_name:
                    row = e.a[2][1]
                    row_ok = row == ("sub", g("ENCODING"), ("binop", "%", ln(("carried", dec_name[0], wl.uid)), ln(g("ENCODING"))))
        rep.ob("C18.decode-row", "juniper_decrypt", row_ok, "weight row = ENCODING[len(decoded so far) mod len(ENCODING)] (indexed by plaintext position)", W(f_dec, wl.node), key="C18.decode-row|juniper_decrypt")
        # inner loop: gaps.append(_gap(prev, c)); prev = c over every character of the group
        inner_ok = False
        for bp in wl.body_paths:
            for e in bp.effects:
                if e.kind == "loop":
                    il = e.a
                    for ibp in il.body_paths:
                        app = [x for x in ibp.effects if x.kind == "call" and x.a[1][0] == "attr" and x.a[1][2] == "append" and M.is_call(x.a[2][0]) and M.callee_name(x.a[2][0]) == "_gap"]
                        if app:
                            gcall = app[0].a[2][0]
                            cur = gcall[2][1]
                            pprev = [n for n, (pre, posts) in il.carried.items() if posts and all(x == cur for x in posts)]
                            inner_ok = bool(pprev) and gcall[2][0] == ("carried", pprev[0], il.uid)
        rep.ob("C18.decode-chain", "juniper_decrypt", inner_ok, "each gap is measured against the previous consumed character, prev advancing over every character", W(f_dec, wl.node), key="C18.decode-chain|juniper_decrypt")
        # every turn of the group loop either refuses (raise) or decodes a whole group: a break/continue/return that leaves
        # a partial or skipped group behind makes two different strings decode to one plaintext (decoder not injective)
        for bp in wl.body_paths:
            if not bp.feasible():
                continue
            rk = bp.result[0] if bp.result is not None else None
            if rk == "raise":
                continue
            decodes = any(e.kind == "call" and M.callee_name(e.a) == "_gap_decode" for e, ls in walk_effects(bp.effects))
            ok_turn = rk is None and decodes
            rep.ob("C18.decode-groups-complete", "juniper_decrypt", ok_turn,
                   "a turn of the group loop ends with %s%s; expected: refuse with an exception or decode the whole group and go on (a string cut inside a group must not decode to the plaintext of its prefix)" % (rk or "fall-through", "" if decodes else " without decoding the group"),
                   W(f_dec, bp.result[2] if bp.result is not None else wl.node), key="C18.decode-groups-complete|juniper_decrypt")
    rep.ob("C18.refusal", "juniper_decrypt", refuse_ok, "an empty or VALID-failing string is refused with ValueError before any table access", W(f_dec), key="C18.refusal|juniper_decrypt")
    rep.ob("C18.decode-paths", "juniper_decrypt", n_ret >= 1, "decoding paths: %d" % n_ret, W(f_dec), nontrivial=False)
    # encoder
    plain, saltp = ("param", f_enc.mparams[0]), ("param", f_enc.mparams[1])
    n_enc = 0
    for path in A.paths(f_enc).paths:
        if not path.feasible() or path.kind != "return":
            continue
        n_enc += 1
        loops = [e.a for e in path.effects if e.kind == "loop"]
        if len(loops) != 1:
            rep.fail("C18.encode-shape", f_enc.name, "expected one loop over the plaintext", W(f_enc))
            continue
        el = loops[0]
        enum_form = False  # `for pos, p in enumerate(plain)` is normalised by the term builder: the loop is over plain, pos is ("loopindex", uid)
        rep.ob("C18.encode-all-chars", f_enc.name, el.iter == plain or enum_form, "loop iterates %s; expected every character of the plaintext (code points, not UTF-8 bytes)" % show(el.iter), W(f_enc, el.node), key="C18.encode-all-chars|juniper_nonrandom_encrypt")
        pv = ("loopvar", el.uid, el.iter, (1,)) if enum_form else ("loopvar", el.uid, el.iter, ())
        posn = [n for n, (pre, posts) in el.carried.items() if pre == ("const", 0) and posts and all(x == ("binop", "+", ("carried", n, el.uid), ("const", 1)) for x in posts)]
        pos_term = ("carried", posn[0], el.uid) if posn else None
        if pos_term is None and any(x == ("loopindex", el.uid) for bp in el.body_paths for e in bp.effects if e.kind == "call" for x in subterms(e.a)):
            if getattr(el, "enum_start", None) in (None, ("const", 0)):
                pos_term = ("loopindex", el.uid)  # enumerate: counts the plaintext characters from 0
        row_ok = prev_ok = False
        for bp in el.body_paths:
            for e in bp.effects:
                if e.kind == "call" and M.callee_name(e.a) == "_gap_encode" and pos_term is not None:
                    a = e.a[2]
                    row_ok = len(a) == 3 and a[0] == pv and a[2] == ("sub", g("ENCODING"), ("binop", "%", pos_term, ln(g("ENCODING"))))
                    prevn = a[1][1] if len(a) == 3 and a[1][0] == "carried" else None
                    if prevn is not None:
                        pre, posts = el.carried.get(prevn, (None, []))
                        crn = [n for n, (p0, ps) in el.carried.items() if ps and all(x[0] == "binop" and x[1] == "+" and x[2] == ("carried", n, el.uid) and x[3] == e.a for x in ps)]
                        prev_ok = bool(crn) and posts and all(x == ("sub", ("binop", "+", ("carried", crn[0], el.uid), e.a), ("unop", "-", ("const", 1))) for x in posts)
                        salt_char = pre
                        rep.ob("C18.encode-prev-start", f_enc.name, pre is not None and pre[0] == "sub" and pre[2] == ("const", 0) or (pre is not None and M.is_call(pre)), "prev starts at the salt character (%s), not at the last filler" % show(pre)[:60], W(f_enc, el.node), key="C18.encode-prev-start|juniper_nonrandom_encrypt")
        rep.ob("C18.encode-row", f_enc.name, row_ok, "weight row = ENCODING[position mod len(ENCODING)], position counting plaintext characters from 0", W(f_enc, el.node), key="C18.encode-row|juniper_nonrandom_encrypt")
        rep.ob("C18.encode-chain", f_enc.name, prev_ok, "prev advances to the last emitted character after every plaintext character", W(f_enc, el.node), key="C18.encode-chain|juniper_nonrandom_encrypt")
        # prefix: MAGIC + salt char + _fixedc(EXTRA[salt char])
        crn0 = [pre for n, (pre, posts) in el.carried.items() if pre[0] == "fstr"]
        pref_ok = False
        if crn0:
            parts = crn0[0][1]
            if len(parts) == 3 and all(x[0] == "fmt" for x in parts):
                magic, sc, fill = parts[0][1], parts[1][1], parts[2][1]
                pref_ok = magic == g("MAGIC") and M.is_call(fill) and M.callee_name(fill) == "_fixedc" and fill[2] == (("sub", g("EXTRA"), sc),)
        rep.ob("C18.encode-prefix", f_enc.name, pref_ok, "output starts with MAGIC + salt character + _fixedc(EXTRA[salt character]) (same filler count the decoder skips)", W(f_enc), key="C18.encode-prefix|juniper_nonrandom_encrypt")
    rep.ob("C18.encode-paths", f_enc.name, n_enc >= 1, "encoder paths: %d" % n_enc, W(f_enc), nontrivial=False)
    # encoder output accepted by VALID for every non-empty plaintext: 1 + EXTRA[s] + len(row 0) >= 4
    if isinstance(ENCODING, list) and ENCODING and isinstance(EXTRA, dict):
        minlen = 1 + min(EXTRA.values()) + len(ENCODING[0])
        rep.ob("C18.output-valid-nonempty", "encoder/VALID", minlen >= 4, "shortest output for a non-empty plaintext has %d characters after $9$ (salt + fillers + first group); VALID needs 4" % minlen, JS, key="C18.output-valid-nonempty|encoder")
        short = sorted(c for c, v in EXTRA.items() if 1 + v < 4)
        rep.ob("C18.output-valid-empty", "encoder/VALID", not short,
               "for the EMPTY plaintext the encoder emits only salt + fillers (1 + EXTRA[salt] characters); for %d of the 65 salt characters that is fewer than the 4 characters VALID demands, so decrypt(encrypt('', s)) is refused" % len(short), JS,
               witness={"plaintext": "", "salt": short[0] if short else None}, key="C18.output-valid-empty|salts-affected:%d" % len(short))
    # only ValueError is raised in the module
    for f in p.all_functions():
        if f.module.name != JS:
            continue
        for path in A.paths(f).paths:
            if path.kind == "raise":
                rep.ob("C18.raises-valueerror-only", f.name, show(path.result[1]).startswith("ValueError"), "raise %s" % show(path.result[1])[:60], W(f, path.result[2]), nontrivial=False)
                # "encrypting ANY plaintext under ANY salt yields ...": the encoder side has no refusal at all
                if f.name in ("juniper_nonrandom_encrypt", "_gap_encode", "_fixedc") or (f.name not in ("juniper_decrypt", "_gap_decode", "_gap", "_nibble") and any(f in cs.funcs() for cs in G.by_owner.get(f_enc.qualname, []))):
                    rep.fail("C18.encoder-total", f.name, "the encoder side raises (%s under %s): encryption is refused for some plaintext or salt" % (show(path.result[1])[:60], path.describe()[:100]), W(f, path.result[2]),
                             key="C18.encoder-total|%s" % f.name)


CHECKS = {"C13": c13, "C14": c14, "C18": c18}
