"""Path rules over _anonymize_value / replace_matching_item (C07.3, C08, C09.1/.4, C12.3)."""
from .flow import show, subterms, strip_mut, walk_effects
from .source import AnalysisError
from .fold import Unfoldable
from . import match as M

SIR = "netconan.sensitive_item_removal"


def W(fn, node=None):
    return "%s:%d (%s)" % (fn.module.relpath, getattr(node, "lineno", fn.node.lineno), fn.name)


class AV:
    """Roles inside _anonymize_value."""

    def __init__(self, ctx):
        p = ctx.p
        self.ctx = ctx
        self.fn = p.find_function("_anonymize_value")
        self.f_ext = p.find_function("_extract_enclosing_text")
        self.f_fmt = p.find_function("_check_sensitive_item_format")
        fn = self.fn
        if len(fn.params) < 4:
            raise AnalysisError("_anonymize_value signature changed: %s" % fn.params)
        self.raw, self.lookup, self.reserved, self.salt = [("param", x) for x in fn.params[:4]]
        g = ("global", self.f_ext.module.name, self.f_ext.name)
        self.EXT = ("call", g, (self.raw,), ())
        self.HEAD = ("sub", self.EXT, ("const", 0))
        self.V = ("sub", self.EXT, ("const", 1))
        self.TAIL = ("sub", self.EXT, ("const", 2))
        JSM = "netconan.utils.juniper_secrets"
        js = ("global", fn.module.name, "juniper_secrets")
        self.f_decrypt = ("global", JSM, "juniper_decrypt")
        self.f_encrypt = ("global", JSM, "juniper_nonrandom_encrypt")
        try:
            self.MAGIC = ("const", ctx.folder.module_const(JSM, "MAGIC"))
        except Exception:
            self.MAGIC = ("global", JSM, "MAGIC")
        self.DEC = ("call", self.f_decrypt, (self.V,), ())
        self.FMT = ("call", ("global", self.f_fmt.module.name, self.f_fmt.name), (self.V,), ())
        self.BASE_fmt = "netconanRemoved{}"
        self.BASE = M.fstr(self.BASE_fmt.replace("{}", ""), ("call", ("builtin", "len"), (self.lookup,), ()))
        self.js = js
        self.paths = [x for x in ctx.A.paths(fn).paths if x.feasible() and not self._none_key(x)]

    def _none_key(self, path):
        # `None in lookup` taken as true: no store ever uses a None key (checked by store rules)
        for t, pol in path.atoms():
            if pol and t[0] == "compare" and t[1] == ("in",) and t[2][0] == ("const", None):
                return True
        # ... also when it only follows from a compound condition (`a in d or None in d` with `a in d` false)
        for t, pol, _n in path.conds:
            for x in subterms(t):
                if x[0] == "compare" and x[1] == ("in",) and x[2][0] == ("const", None) and path.entails(x, True):
                    return True
        return False

    def enc_jun(self, x):
        return ("call", self.f_encrypt, (x, self.salt), ())

    def fmt_class(self, path):
        """Which format class do the path conditions select ('text' if all tests are false)?"""
        hit = []
        tested = 0
        for t, pol in path.atoms():
            if t[0] == "compare" and t[1] in (("==",), ("is",)) and len(t[2]) == 2:
                a, b = t[2]
                for x, k in ((a, b), (b, a)):
                    if x == self.FMT and k[0] == "attr" and k[1][0] == "global" and k[1][2] == "_sensitive_item_formats":
                        tested += 1
                        if pol:
                            hit.append(k[2])
        if len(hit) == 1:
            return hit[0], tested
        if not hit:
            return "text", tested
        return None, tested


def _hash_call(t, scheme):
    """t == scheme.using(**kw).hash(x) -> (kw dict, x) else None"""
    if not (M.is_call(t) and t[1][0] == "attr" and t[1][2] == "hash" and len(t[2]) == 1 and not t[3]):
        return None
    u = t[1][1]
    if M.is_call(u) and u[1][0] == "attr" and u[1][2] == "using" and u[1][1][0] == "global" and u[1][1][2] == scheme and not u[2]:
        return dict(u[3]), t[2][0]
    if u[0] == "global" and u[2] == scheme:
        return {}, t[2][0]
    return None


def encoder_ok(av, klass, anon):
    """Does the pseudonym term `anon` have the encoder shape demanded for format class `klass`?"""
    B = av.BASE
    enc = ("call", ("attr", B, "encode"), (), ())
    hexb = ("call", ("global", av.fn.module.name, "b2a_hex"), (enc,), ())
    if klass == "text":
        return anon == B, "the numbered plain pseudonym"
    from .flow import canon_ext
    prog = av.ctx.p
    hexb = ("call", ("ext", "binascii.b2a_hex"), (enc,), ())
    hexb2 = ("call", ("ext", "binascii.hexlify"), (enc,), ())  # the same function under its other name
    if klass == "numeric":
        wants = [("call", ("builtin", "str"), (("call", ("builtin", "int"), (h, ("const", 16)), ()),), ()) for h in (hexb, hexb2)]
        return canon_ext(prog, anon) in wants, "str(int(b2a_hex(pseudonym.encode()), 16)) — all digits"
    if klass == "hexadecimal":
        wants = [("call", ("attr", h, "decode"), (), ()) for h in (hexb, hexb2)]
        return canon_ext(prog, anon) in wants, "b2a_hex(pseudonym.encode()).decode() — all hex digits, injective"
    if klass == "cisco_type7":
        h = _hash_call(anon, "cisco_type7")
        ok = h is not None and h[1] == B and set(h[0]) == {"salt"} and h[0]["salt"][0] == "const" and isinstance(h[0]["salt"][1], int) and 0 <= h[0]["salt"][1] <= 15
        return ok, "cisco_type7.using(salt=<constant 0..15>).hash(pseudonym)"
    if klass == "md5":
        h = _hash_call(anon, "md5_crypt")
        if h is None or h[1] != B or set(h[0]) != {"salt"}:
            return False, "md5_crypt.using(salt=<constant char> * <old salt length>).hash(pseudonym)"
        s = h[0]["salt"]
        oldlen = ("call", ("builtin", "len"), (("sub", ("call", ("attr", av.V, "split"), (("const", "$"),), ()), ("const", 2)),), ())
        ok = False
        if s[0] == "binop" and s[1] == "*":
            for c, n in ((s[2], s[3]), (s[3], s[2])):
                if c[0] == "const" and isinstance(c[1], str) and len(c[1]) == 1:
                    if n == oldlen:
                        ok = True
                    # bounded variant: min(len, 8) / min(8, len)
                    if M.builtin_call(n, "min", 2) and oldlen in n[2] and any(x[0] == "const" and x[1] == 8 for x in n[2]):
                        ok = True
        return ok, "md5_crypt.using(salt=<constant char> * len(<old salt>)).hash(pseudonym) — same salt length, static salt"
    if klass == "sha512":
        h = _hash_call(anon, "sha512_crypt")
        ok = h is not None and h[1] == B and all(k in ("rounds", "salt") for k in h[0]) and all(v[0] == "const" for v in h[0].values())
        return ok, "sha512_crypt.using(<constant options>).hash(pseudonym)"
    if klass == "juniper_type9":
        return anon == av.enc_jun(B), "juniper_nonrandom_encrypt(pseudonym, salt)"
    return False, "unknown format class %s" % klass


def secret_occurrences(av, t, allowed_pos=False, out=None, ctxdesc=""):
    """Collect occurrences of secret-derived terms in t that are NOT in a declassified position.

    Declassified: key position of lookup[...]; membership tests; the md5 salt LENGTH len(V.split('$')[2]);
    the format class _check_sensitive_item_format(V); V.startswith(MAGIC)."""
    if out is None:
        out = []
    if not isinstance(t, tuple) or not t:
        return out
    if not isinstance(t[0], str):
        for x in t:
            secret_occurrences(av, x, False, out)
        return out
    if t in (av.raw, av.V, av.EXT, av.DEC):
        out.append(show(t))
        return out
    tag = t[0]
    if t == av.HEAD or t == av.TAIL:
        return out  # enclosing text: elements of the constant lists only (checked separately)
    if t == av.FMT:
        return out
    if tag == "sub" and strip_mut(t[1]) == av.lookup:
        return out  # used as key only
    if tag == "call" and t[1] == ("builtin", "len"):
        a = t[2][0] if t[2] else None
        if a is not None and a[0] == "sub" and M.is_call(a[1]) and a[1][1] == ("attr", av.V, "split"):
            return out  # length of the md5 salt
        if a is not None and strip_mut(a) == av.lookup:
            return out
    if tag == "compare" and any(op in ("in", "not in") for op in t[1]):
        return out
    if tag == "call" and t[1][0] == "attr" and t[1][2] == "startswith" and t[1][1] == av.V:
        return out
    for x in t[1:]:
        if isinstance(x, tuple):
            secret_occurrences(av, x, False, out)
    return out


def check_anonymize_value(ctx, rep, cl, focus=("flow", "lookup", "encoders", "context")):
    av = AV(ctx)
    fn = av.fn
    rep.analysed(fn)
    rep.stat("anonymize_value_feasible_paths", len(av.paths))
    rep.ob(cl + ".paths-floor", fn.name, len(av.paths) >= 10, "feasible paths of _anonymize_value analysed: %d" % len(av.paths), W(fn), nontrivial=False)
    classes_seen = set()
    n_hit = n_dechit = n_miss = n_raw = 0
    for path in av.paths:
        if path.kind == "raise":
            rep.fail(cl + ".total", fn.name, "raising path: %s" % path.describe()[:200], W(fn, path.result[2]))
            continue
        r = path.returned()
        w = W(fn, path.result[2] if path.result else fn.node)
        stores = [e for e, ls in path.stores() if e.kind == "store_sub"]
        if r == av.raw:
            n_raw += 1
            licensed = path.truth(("compare", ("in",), (av.V, av.reserved))) is True or path.truth(av.V) is False
            rep.ob(cl + ".unchanged-only-when-licensed", fn.name, licensed and not stores,
                   "the raw value is returned unchanged under %s; licensed only for `value in reserved_words` and for an empty value (stores on this path: %d)" % (path.describe()[:160], len(stores)), w,
                   key=cl + ".unchanged-only-when-licensed|_anonymize_value")
            continue
        parts = M.concat_parts(r)
        if not (len(parts) == 3 and parts[0] == av.HEAD and parts[2] == av.TAIL):
            rep.fail(cl + ".context-restored", fn.name, "returns %s; expected head + pseudonym + tail with head/tail from _extract_enclosing_text(raw value)" % show(r)[:200], w, key=cl + ".context-restored|_anonymize_value")
            continue
        rep.ob(cl + ".context-restored", fn.name, True, "head + <pseudonym> + tail", w, nontrivial=False)
        anon = parts[1]
        rep.ob(cl + ".reserved-checked-first", fn.name, path.entails(("compare", ("in",), (av.V, av.reserved)), False) and path.entails(av.V, True),
               "a pseudonym is returned on a path that has not established `value not in reserved_words` and `value non-empty` (%s): a reserved word that is already a lookup key (e.g. as the plaintext of a $9$ secret) would be replaced" % path.describe()[:160], w,
               key=cl + ".reserved-checked-first|_anonymize_value")
        leak = secret_occurrences(av, anon)
        rep.ob(cl + ".pseudonym-secret-free", fn.name, not leak,
               "pseudonym term %s depends on secret content through %s (allowed: lookup key, membership, format class, md5 salt length)" % (show(anon)[:160], leak), w, key=cl + ".pseudonym-secret-free|_anonymize_value")
        # classify
        if anon == ("sub", av.lookup, av.V):
            n_hit += 1
            ok = path.entails(("compare", ("in",), (av.V, av.lookup)), True) and not stores
            rep.ob(cl + ".hit-returns-stored", fn.name, ok, "lookup hit returns lookup[value] under `value in lookup`, without storing (%s)" % path.describe()[-120:], w, key=cl + ".hit-returns-stored|_anonymize_value")
            continue
        if anon == av.enc_jun(("sub", av.lookup, av.DEC)):
            n_dechit += 1
            ok = path.entails(("compare", ("in",), (av.DEC, av.lookup)), True) and not stores
            ok = ok and path.entails(("call", ("attr", av.V, "startswith"), (av.MAGIC,), ()), True)
            rep.ob(cl + ".decrypted-hit", fn.name, ok, "a $9$ value whose plaintext is known returns juniper_nonrandom_encrypt(lookup[plaintext], salt), without storing", w, key=cl + ".decrypted-hit|_anonymize_value")
            continue
        if ("sub", av.lookup, av.V) in list(subterms(anon)) or any(s[0] == "sub" and strip_mut(s[1]) == av.lookup for s in subterms(anon)):
            rep.fail(cl + ".hit-shape", fn.name, "lookup-derived pseudonym %s: unrecognised hit shape" % show(anon)[:200], w, key=cl + ".hit-shape|_anonymize_value")
            continue
        # miss path
        n_miss += 1
        klass, tested = av.fmt_class(path)
        if klass is None:
            rep.fail(cl + ".format-dispatch", fn.name, "path selects several format classes: %s" % path.describe()[:200], w)
            continue
        classes_seen.add(klass)
        ok, want = encoder_ok(av, klass, anon)
        rep.ob(cl + ".encoder", "%s[%s]" % (fn.name, klass), ok, "format class %s is re-encoded as %s; expected %s" % (klass, show(anon)[:200], want), w, key="%s.encoder|%s" % (cl, klass))
        # not both in the lookup
        miss_ok = path.entails(("compare", ("in",), (av.V, av.lookup)), False)
        rep.ob(cl + ".miss-after-tests", fn.name, miss_ok, "a fresh pseudonym is allocated only after `value in lookup` failed", w, nontrivial=False)
        dec_truthy = path.truth(av.DEC)
        attempted = path.truth(("call", ("attr", av.V, "startswith"), (av.MAGIC,), ()))
        raised = any(t[0] == "except" for t, pol in path.atoms())
        if len(stores) != 1 or strip_mut(stores[0].a) != av.lookup:
            rep.fail(cl + ".miss-stores-once", fn.name, "miss path has %d lookup stores (%s); expected exactly one" % (len(stores), [repr(s)[:80] for s in stores]), w, key=cl + ".miss-stores-once|_anonymize_value")
            continue
        st = stores[0]
        if dec_truthy is True:
            ok = st.b == av.DEC and st.c == ("call", av.f_decrypt, (anon,), ())
            rep.ob(cl + ".store-by-plaintext", "%s[%s]" % (fn.name, klass), ok,
                   "decryptable $9$: stored %r; expected lookup[plaintext] = juniper_decrypt(pseudonym) (plaintext of the pseudonym, so clear text and $9$ spellings meet)" % (st,), w, key=cl + ".store-by-plaintext|_anonymize_value")
        else:
            ok = st.b == av.V and st.c == anon
            rep.ob(cl + ".store-under-missed-key", "%s[%s]" % (fn.name, klass), ok,
                   "stored %s; expected lookup[value] = <the returned pseudonym> (the key the membership test used)" % (repr(st)[:200],), w, key=cl + ".store-under-missed-key|_anonymize_value")
            if attempted and not raised and dec_truthy is None:
                rep.fail(cl + ".store-key-choice", fn.name, "path with a decrypted value does not decide which key is stored", w)
        leak2 = secret_occurrences(av, st.c)
        rep.ob(cl + ".stored-value-secret-free", fn.name, not leak2, "value stored into the lookup depends on secret content through %s" % leak2, w, key=cl + ".stored-value-secret-free|_anonymize_value")
    want_classes = {"text", "numeric", "hexadecimal", "cisco_type7", "md5", "sha512", "juniper_type9"}
    rep.ob(cl + ".encoder-exhaustive", fn.name, classes_seen == want_classes, "format classes with an encoder path: %s; expected %s" % (sorted(classes_seen), sorted(want_classes)), W(fn), key=cl + ".encoder-exhaustive|_anonymize_value")
    rep.ob(cl + ".path-kinds", fn.name, n_hit >= 1 and n_dechit >= 1 and n_miss >= 7 and n_raw >= 2, "hit %d, decrypted-hit %d, miss %d, unchanged %d" % (n_hit, n_dechit, n_miss, n_raw), W(fn), nontrivial=False)
    _try_except(ctx, rep, cl, av)
    _enum_members(ctx, rep, cl, want_classes)
    return av


def _try_except(ctx, rep, cl, av):
    """juniper_decrypt is attempted inside try/except ValueError (and only under the MAGIC test)."""
    import ast
    fn = av.fn
    ok = False
    found = 0
    for path in av.paths:
        for e, ls in path.calls():
            if M.callee_name(e.a) == "juniper_decrypt" and e.a[2] and e.a[2][0] == av.V:
                found += 1
                host = getattr(e, "origin", None)
                host = host if host is not None and host != "synthetic" else fn
                ok = _in_try_valueerror(host, e.node)
                if not ok:
                    break
        if found and not ok:
            break
    ok = ok and found > 0
    rep.ob(cl + ".decrypt-guarded", fn.name, ok, "juniper_decrypt(value) is wrapped in try/except ValueError that does not re-raise (malformed $9$ strings fall back to plain handling)", W(fn), key=cl + ".decrypt-guarded|_anonymize_value")
    # ... and it is attempted for EVERY value that carries the marker: a path that tests the marker but does not decrypt must have found it absent
    # (a further condition on the decryption - an empty lookup, a flag - keys the same secret differently depending on history)
    n_skip = 0
    for path in av.paths:
        if not path.feasible():
            continue
        if any(M.callee_name(e.a) == "juniper_decrypt" and e.a[2] and e.a[2][0] == av.V for e, ls in path.calls()):
            continue
        if any(isinstance(t, tuple) and t[0] == "except" and pol for t, pol, _ in path.conds):
            continue  # the guarded attempt was made and refused (ValueError handler)
        tests = [x for t, pol, _ in path.conds for x in subterms(t) if M.is_call(x) and x[1] == ("attr", av.V, "startswith") and not x[3]]
        for sw in tests[:1]:
            if path.possible({sw: True}) is not False:
                n_skip += 1
                rep.fail(cl + ".decrypt-whenever-marked", fn.name, "a value that starts with the $9$ marker is not decrypted on the path %s: whether the plaintext or the ciphertext keys the lookup then depends on more than the value" % path.describe()[:160], W(fn),
                         key=cl + ".decrypt-whenever-marked|_anonymize_value")
                break
        if n_skip:
            break
    if not n_skip:
        rep.ob(cl + ".decrypt-whenever-marked", fn.name, True, "every path that tests the $9$ marker and does not decrypt has the marker absent", W(fn), nontrivial=False)
    # the raw decrypt call outside a try (the stored juniper_decrypt(anon_val)) is on pseudonyms only
    for path in av.paths:
        for e, ls in path.calls():
            if M.callee_name(e.a) == "juniper_decrypt" and e.a[2] and e.a[2][0] != av.V:
                arg = e.a[2][0]
                leak = secret_occurrences(av, arg)
                if leak:
                    rep.fail(cl + ".decrypt-arg", fn.name, "juniper_decrypt applied to secret-derived %s outside the guarded call" % show(arg)[:100], W(fn, e.node))


def _enum_members(ctx, rep, cl, want):
    c = ctx.p.find_class("_sensitive_item_formats")
    members = {k for k in c.assigns if not k.startswith("_")}
    try:
        vals = {k: ctx.folder.class_const(c, k) for k in members}
    except Unfoldable:
        vals = {}
    dup = sorted(k for k in vals if list(vals.values()).count(vals[k]) > 1)
    rep.ob(cl + ".format-enum-distinct", c.name, bool(vals) and not dup, "format classes with equal values %s: Enum members with the same value are ONE member, so their encoder branches would both run" % (dup or "none"), "%s:%d" % (c.module.relpath, c.node.lineno), key=cl + ".format-enum-distinct|_sensitive_item_formats")
    rep.ob(cl + ".format-enum", c.name, members == want, "format classes declared: %s; handled: %s (a member without classifier/encoder would silently fall back to text)" % (sorted(members), sorted(want)), "%s:%d" % (c.module.relpath, c.node.lineno), key=cl + ".format-enum|_sensitive_item_formats")


def _in_try_valueerror(f, node):
    import ast
    for n in ast.walk(f.node):
        if isinstance(n, ast.Try):
            if any(node is x for st in n.body for x in ast.walk(st)):
                for h in n.handlers:
                    nm = ast.unparse(h.type) if h.type is not None else "bare"
                    if (nm in ("ValueError", "Exception", "BaseException", "bare") or "ValueError" in nm) and not any(isinstance(x, ast.Raise) for st in h.body for x in ast.walk(st)):
                        return True
    return False
