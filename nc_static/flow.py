"""Path-sensitive value-term builder (no solver, no execution).

For a function, enumerates the syntactic paths through its (structured) body
and records, per path: the branch decisions taken (as terms), the ordered
effects (calls with argument terms, subscript/attribute stores, loops with
their body paths) and the returned / raised term.  Expression values are
*terms*: DAGs over parameters, globals, constants and operators, obtained by
substituting local definitions (the SSA value graph a compiler builds for
value numbering).  Loop bodies are analysed once with symbolic loop variables
and loop-carried placeholders.

Terms are tuples:
  ("const", v) ("param", n) ("global", module, n) ("builtin", n) ("unbound", n)
  ("attr", base, name) ("call", func, args, kwargs) ("binop", op, l, r)
  ("unop", op, x) ("boolop", op, items) ("compare", ops, operands)
  ("sub", base, index) ("slice", lo, hi, step) ("tuple"|"list"|"set", items)
  ("dict", pairs) ("ifexp", c, a, b) ("comp", kind, uid, elt, gens)
  ("lambda", uid, params, body) ("fstr", parts) ("bound", n, uid)
  ("loopvar", uid, iter, sel) ("carried", n, uid) ("loopout", n, uid)
  ("mut", base, method, args) ("exc", n, uid) ("star", x) ("unknown", why)
"""
import ast
import itertools

from .source import AnalysisError, unparse

MAX_PATHS = 60000

MUTATORS = {
    "append", "extend", "insert", "update", "add", "remove", "discard", "pop",
    "clear", "sort", "reverse", "setdefault", "popitem", "appendleft",
}

_BINOPS = {
    ast.Add: "+", ast.Sub: "-", ast.Mult: "*", ast.Div: "/", ast.FloorDiv: "//",
    ast.Mod: "%", ast.Pow: "**", ast.LShift: "<<", ast.RShift: ">>",
    ast.BitOr: "|", ast.BitXor: "^", ast.BitAnd: "&", ast.MatMult: "@",
}
_UNOPS = {ast.Not: "not", ast.USub: "-", ast.UAdd: "+", ast.Invert: "~"}
_CMPOPS = {
    ast.Eq: "==", ast.NotEq: "!=", ast.Lt: "<", ast.LtE: "<=", ast.Gt: ">",
    ast.GtE: ">=", ast.Is: "is", ast.IsNot: "is not", ast.In: "in", ast.NotIn: "not in",
}


def const(v):
    return ("const", v)


NONE = ("const", None)


class Effect:
    __slots__ = ("kind", "a", "b", "c", "node", "maybe", "origin")

    def __init__(self, kind, a=None, b=None, c=None, node=None, maybe=False):
        self.kind = kind  # call | store_sub | store_attr | loop | with | del | assert
        self.a, self.b, self.c = a, b, c
        self.node = node
        self.maybe = maybe  # evaluated conditionally inside an expression
        self.origin = None  # FunctionInfo the effect was inlined from (None: the analysed function itself)

    @property
    def lineno(self):
        return getattr(self.node, "lineno", 0)

    def __repr__(self):
        if self.kind == "call":
            return "call %s" % show(self.a)
        if self.kind == "store_sub":
            return "%s[%s] = %s" % (show(self.a), show(self.b), show(self.c))
        if self.kind == "store_attr":
            return "%s.%s = %s" % (show(self.a), self.b, show(self.c))
        if self.kind == "loop":
            return "loop#%d over %s" % (self.a.uid, show(self.a.iter))
        return "%s %s" % (self.kind, show(self.a) if self.a else "")


class LoopInfo:
    def __init__(self, uid, kind, node):
        self.uid = uid
        self.kind = kind  # for | while
        self.node = node
        self.iter = None  # iterable term (for)
        self.test = None  # test term (while), evaluated at loop head
        self.target = None  # ast target
        self.body_paths = []
        self.carried = {}  # name -> (pre_term, [post terms per completing body path])
        self.has_else = False
        self.enum_start = "absent"  # `for i, x in enumerate(xs, start)`: the start term (None when not given); "absent" for other loops

    @property
    def lineno(self):
        return self.node.lineno


class LambdaInfo:
    def __init__(self, uid, node, params, body, effects):
        self.uid, self.node, self.params, self.body, self.effects = uid, node, params, body, effects


class Path:
    def __init__(self, env=None, conds=None, effects=None):
        self.env = env if env is not None else {}
        self.conds = conds if conds is not None else []  # (term, polarity, node)
        self.effects = effects if effects is not None else []
        self.result = None  # (kind, term, node): return|raise|break|continue

    def note_cond(self, c, pol, node, self_term=None):
        """Record a branch decision; when it reads fields of self that were assigned earlier on this path, also record the
        decision about the assigned values (so `self.x = None if off else make()` followed by `if self.x is None` is one decision)."""
        self.conds.append((c, pol, node))
        fields = getattr(self, "fields", None)
        if fields and self_term is not None:
            mp = {("attr", self_term, k): v for k, v in fields.items()}
            if any(x in mp for x in subterms(c)):
                d = replace_terms(c, mp)
                if d != c:
                    self.conds.append((d, pol, None))

    def fork(self):
        p = Path(dict(self.env), list(self.conds), list(self.effects))
        p.result = self.result
        p._choices = list(getattr(self, "_choices", ()))
        p._cpos = getattr(self, "_cpos", 0)
        if getattr(self, "fields", None):
            p.fields = dict(self.fields)
        return p

    @property
    def live(self):
        return self.result is None

    # --- queries -----------------------------------------------------
    def calls(self, deep=True):
        """Yield (effect, loopstack) for every call effect, in order."""
        for e, ls in walk_effects(self.effects, deep):
            if e.kind == "call":
                yield e, ls

    def stores(self, deep=True):
        for e, ls in walk_effects(self.effects, deep):
            if e.kind in ("store_sub", "store_attr"):
                yield e, ls

    def returned(self):
        if self.result is None:
            return NONE
        if self.result[0] == "return":
            return self.result[1]
        return None

    @property
    def kind(self):
        return self.result[0] if self.result else "fall"

    def atoms(self):
        """Branch decisions normalised to (atom term, truth value): `not x` is unfolded,
        `x is None` / `x is not None`, `==`/`!=` are folded to one atom."""
        out = []
        todo = [(t, pol) for t, pol, _ in self.conds]
        while todo:
            t, pol = todo.pop(0)
            t, neg = self._norm_atom(t)
            if neg:
                pol = not pol
            if isinstance(t, tuple) and t[0] == "boolop":
                # (a or b) false => a false, b false ; (a and b) true => a true, b true
                if (t[1] == "or" and not pol) or (t[1] == "and" and pol):
                    todo = [(x, pol) for x in t[2]] + todo
                    out.append((t, pol))
                    continue
            out.append((t, pol))
        return out

    def truth(self, term):
        """Truth value the path conditions assign to `term` (None if undecided)."""
        term, neg = self._norm_atom(term)
        for t, pol in self.atoms():
            if t == term:
                return (not pol) if neg else pol
        return None

    def feasible(self):
        """False when the same atom is decided both ways (a syntactically infeasible path)."""
        if getattr(self, "_feasible", None) is not None:
            return self._feasible
        r = self.possible()
        if r is not None:
            self._feasible = r
            return r
        seen = {}
        equal_to = {}
        for t, pol in self.atoms():
            if t[0] in ("inloop", "loopbreak", "except"):
                continue
            if seen.setdefault(t, pol) != pol:
                return False
            if t[0] == "const" and bool(t[1]) != pol:
                return False
            if t[0] == "compare" and len(t[1]) == 1 and t[1][0] in ("is", "==") and t[2][0][0] == "const" and t[2][1][0] == "const":
                same = (t[2][0][1] is t[2][1][1]) if t[1][0] == "is" and t[2][1][1] is None else (t[2][0][1] == t[2][1][1])
                if same != pol:
                    return False
            if t[0] == "compare" and len(t[1]) == 1 and t[1][0] == "is" and t[2][1] == ("const", None) and t[2][0][0] in ("list", "tuple", "dict", "set", "binop", "fstr", "comp", "lambda") and pol:
                return False  # a freshly built object is never None
            if t[0] == "compare" and len(t[1]) == 1 and t[1][0] == "is" and t[2][1] == ("const", None) and pol and _never_none_call(t[2][0]):
                return False
            # x == K1 and x == K2 for two distinct constants cannot both hold
            if pol and t[0] == "compare" and t[1] in (("==",), ("is",)) and len(t[2]) == 2:
                a, b = t[2]
                for x, k in ((a, b), (b, a)):
                    if _constant_like(k) and not _constant_like(x):
                        prev = equal_to.setdefault(x, k)
                        if prev != k:
                            return False
        return True

    # --- propositional reasoning over the branch decisions ---------------
    @staticmethod
    def _norm_atom(t):
        """Return (atom, negated) with `not`, `is not`, `!=`, `not in` folded away."""
        neg = False
        while isinstance(t, tuple) and t[0] == "unop" and t[1] == "not":
            t, neg = t[2], not neg
        if isinstance(t, tuple) and t[0] == "compare" and len(t[1]) == 1 and t[1][0] in ("is not", "!=", "not in"):
            flip = {"is not": "is", "!=": "==", "not in": "in"}
            t, neg = ("compare", (flip[t[1][0]],), t[2]), not neg
        # bool(x) as a condition is x
        while isinstance(t, tuple) and t[0] == "call" and t[1] == ("builtin", "bool") and len(t[2]) == 1 and not t[3]:
            t = t[2][0]
            while isinstance(t, tuple) and t[0] == "unop" and t[1] == "not":
                t, neg = t[2], not neg
        # any([a, b, ...]) / all((a, b, ...)) over a display: the disjunction / conjunction of the elements
        if isinstance(t, tuple) and t[0] == "call" and t[1] in (("builtin", "any"), ("builtin", "all")) and len(t[2]) == 1 and not t[3] and t[2][0][0] in ("list", "tuple") and t[2][0][1] and not any(x[0] == "star" for x in t[2][0][1]):
            t = ("boolop", "or" if t[1][1] == "any" else "and", tuple(t[2][0][1]))
        # any(f(x) for x in (a, b, ...)) / all([...for x in [a, b]]): one generator over a display, no filter — f(a) or f(b) or ...
        if (isinstance(t, tuple) and t[0] == "call" and t[1] in (("builtin", "any"), ("builtin", "all")) and len(t[2]) == 1 and not t[3] and t[2][0][0] == "comp" and t[2][0][1] in ("gen", "list")
                and len(t[2][0][4]) == 1 and not t[2][0][4][0][2] and t[2][0][4][0][1][0] in ("list", "tuple") and t[2][0][4][0][1][1] and len(t[2][0][4][0][1][1]) <= 12
                and not any(x[0] == "star" for x in t[2][0][4][0][1][1]) and isinstance(t[2][0][4][0][0], tuple) and t[2][0][4][0][0][0] == "bound"):
            c = t[2][0]
            tgt, elems = c[4][0][0], c[4][0][1][1]
            t = ("boolop", "or" if t[1][1] == "any" else "and", tuple(replace_terms(c[3], {tgt: e}) for e in elems))
        # a regex match object is always truthy: `if m:` is `if m is not None:`
        if isinstance(t, tuple) and t[0] == "call" and t[1][0] == "attr" and t[1][2] in ("search", "match", "fullmatch"):
            t, neg = ("compare", ("is",), (t, ("const", None))), not neg
        return t, neg

    @classmethod
    def _atoms_of(cls, t, out):
        t, _ = cls._norm_atom(t)
        if isinstance(t, tuple) and t[0] == "boolop":
            for x in t[2]:
                cls._atoms_of(x, out)
        elif t not in out:
            out.append(t)

    @classmethod
    def _eval(cls, t, asg):
        t, neg = cls._norm_atom(t)
        if isinstance(t, tuple) and t[0] == "boolop":
            vals = [cls._eval(x, asg) for x in t[2]]
            v = all(vals) if t[1] == "and" else any(vals)
        elif t[0] == "const":
            v = bool(t[1])
        else:
            v = asg[t]
        return (not v) if neg else v

    def possible(self, assume=None, limit=16):
        """Is there a truth assignment to the atomic conditions under which every branch decision of
        this path has the polarity it took AND every term of `assume` has the given truth value?
        Unit decisions are propagated first; only atoms occurring in undecided compound conditions are
        enumerated (truth table).  None if too many atoms remain."""
        fixed = {}
        compound = []
        todo = [(t, pol) for t, pol, _ in self.conds if not (isinstance(t, tuple) and t[0] in ("inloop", "loopbreak", "except"))]
        todo += list((assume or {}).items())
        while todo:
            t, pol = todo.pop()
            t, neg = self._norm_atom(t)
            if neg:
                pol = not pol
            if isinstance(t, tuple) and t[0] == "boolop":
                if (t[1] == "and" and pol) or (t[1] == "or" and not pol):
                    todo.extend((x, pol) for x in t[2])
                else:
                    compound.append((t, pol))
                continue
            if t[0] == "const":
                if bool(t[1]) != pol:
                    return False
                continue
            if fixed.setdefault(t, pol) != pol:
                return False
        if not self._atoms_consistent(fixed):
            return False
        free = []
        for t, pol in compound:
            self._atoms_of(t, free)
        free = [a for a in free if a not in fixed and a[0] != "const"]
        if not compound:
            return True
        if len(free) > limit:
            return None
        import itertools as _it
        for bits in _it.product((False, True), repeat=len(free)):
            asg = dict(fixed)
            asg.update(zip(free, bits))
            if not self._atoms_consistent(asg):
                continue
            if all(self._eval(t, asg) == pol for t, pol in compound):
                return True
        return False

    def entails(self, term, value=True):
        """Do the branch decisions of this path force `term` to have truth value `value`?"""
        t = self.truth(term)
        if t is not None:
            return t == value
        return self.possible({term: not value}) is False

    @staticmethod
    def _atoms_consistent(asg):
        eq = {}
        for a, v in asg.items():
            if not v and a[0] == "call" and a[1][0] == "attr" and a[1][2] in ("split", "rsplit") and len(a[2]) >= 1 and a[2][0][0] == "const" and a[2][0][1]:
                return False  # s.split(sep) has at least one element
            if a[0] == "const" and bool(a[1]) != v:
                return False
            if a[0] != "compare" or len(a[1]) != 1:
                continue
            op = a[1][0]
            if op in ("is", "==") and len(a[2]) == 2:
                x, k = a[2]
                if x[0] == "const" and k[0] == "const":
                    if (x[1] == k[1]) != v:
                        return False
                    continue
                if op == "is":
                    st = _sentinel_truth(x, k)
                    if st is None:
                        st = _sentinel_truth(k, x)
                    if st is not None and st != v:
                        return False
                if op == "is" and k == ("const", None) and v and (_never_none_call(x) or x[0] in ("list", "tuple", "dict", "set", "binop", "fstr", "comp", "lambda")):
                    return False
                if v:
                    # x is None / x == "" / x == 0 decide x's truthiness (and x == <truthy constant> too)
                    for y, c in ((x, k), (k, x)):
                        if c[0] == "const" and y[0] != "const" and y in asg:
                            try:
                                if asg[y] != bool(c[1]):
                                    return False
                            except Exception:
                                pass
                if v:
                    for y, c in ((x, k), (k, x)):
                        if _constant_like(c) and not _constant_like(y):
                            if eq.setdefault(y, c) != c:
                                return False
        return True

    def describe(self):
        return " & ".join(("" if pol else "not ") + "(" + show(t) + ")" for t, pol, _ in self.conds) or "true"


_SENTINELS = frozenset()  # (module, name) of identity markers of the program under analysis (set by Analysis)


def _sentinel_truth(x, k):
    """Truth of `x is k` for an identity marker k (module-level object() that never escapes): True for k itself,
    False for anything computed or read from a container, None when x may be a marker handed in from elsewhere."""
    if k[0] != "global" or (k[1], k[2]) not in _SENTINELS:
        return None
    if x == k:
        return True
    if x[0] in ("sub", "fstr", "binop", "const", "list", "tuple", "dict", "set", "comp", "lambda", "slice"):
        return False
    if x[0] == "global" and (x[1], x[2]) in _SENTINELS:
        return False
    if x[0] == "call" and (x[1][0] in ("builtin", "attr") or _never_none_call(x)):
        return False
    return None


_NEVER_NONE_FUNCS = frozenset()  # (module, name) of package functions whose every exit returns a freshly built container / text (set by Analysis)


_NEVER_NONE_BUILTINS = {"list", "set", "dict", "tuple", "sorted", "str", "int", "len", "frozenset", "bool", "float", "repr", "range", "enumerate", "zip", "reversed", "bytes"}
_NEVER_NONE_METHODS = {"split", "rsplit", "splitlines", "join", "format", "lower", "upper", "strip", "lstrip", "rstrip", "replace", "encode", "decode", "copy", "keys", "values", "items", "hexdigest", "title", "casefold"}


def _compute_never_none_funcs(program):
    out = set()
    for f in program.functions.values():
        if f.cls is not None:
            continue
        rets = [n for n in ast.walk(f.node) if isinstance(n, ast.Return)]
        body = f.node.body
        if not rets or not isinstance(body[-1], ast.Return):
            continue
        if all(isinstance(r.value, (ast.List, ast.ListComp, ast.Dict, ast.DictComp, ast.Set, ast.SetComp, ast.Tuple, ast.JoinedStr)) or (isinstance(r.value, ast.Constant) and r.value.value is not None) for r in rets):
            out.add((f.module.name, f.name))
    return frozenset(out)


def _never_none_call(t):
    if isinstance(t, tuple) and t and t[0] == "call" and t[1][0] == "global" and (t[1][1], t[1][2]) in _NEVER_NONE_FUNCS:
        return True
    return _never_none_call0(t)


def _never_none_call0(t):
    if t[0] != "call":
        return False
    f = t[1]
    if f[0] == "builtin" and f[1] in _NEVER_NONE_BUILTINS:
        return True
    if f[0] == "attr" and f[2] in _NEVER_NONE_METHODS:
        return True
    return False


def _constant_like(t):
    if t[0] == "const":
        return True
    if t[0] == "attr" and t[1][0] == "global":
        return True
    return False


def walk_effects(effects, deep=True, stack=()):
    for e in effects:
        yield e, stack
        if deep and e.kind == "loop":
            for bp in e.a.body_paths:
                for x in walk_effects(bp.effects, deep, stack + (e.a,)):
                    yield x


def assigned_names(stmts):
    """Names bound in these statements (same scope; not nested defs/lambdas/comprehensions)."""
    out = set()

    class V(ast.NodeVisitor):
        def visit_Name(self, n):
            if isinstance(n.ctx, (ast.Store, ast.Del)):
                out.add(n.id)

        def visit_FunctionDef(self, n):
            out.add(n.name)

        visit_AsyncFunctionDef = visit_FunctionDef

        def visit_ClassDef(self, n):
            out.add(n.name)

        def visit_Lambda(self, n):
            pass

        def visit_ListComp(self, n):
            # comprehension targets are in their own scope; but walrus is not used here
            pass

        visit_SetComp = visit_DictComp = visit_GeneratorExp = visit_ListComp

        def visit_ExceptHandler(self, n):
            if n.name:
                out.add(n.name)
            self.generic_visit(n)

        def visit_Import(self, n):
            for a in n.names:
                out.add((a.asname or a.name).split(".")[0])

        visit_ImportFrom = visit_Import

    for s in stmts:
        V().visit(s)
    return out


def mutated_names(stmts):
    """Local names whose object is mutated in these statements (x.append(..), x[k] = v, x += ..)."""
    out = set()
    for s in stmts:
        for n in ast.walk(s):
            if isinstance(n, (ast.Lambda,)):
                continue
            if isinstance(n, ast.Call) and isinstance(n.func, ast.Attribute) and isinstance(n.func.value, ast.Name) and n.func.attr in MUTATORS:
                out.add(n.func.value.id)
            if isinstance(n, ast.Subscript) and isinstance(n.ctx, (ast.Store, ast.Del)) and isinstance(n.value, ast.Name):
                out.add(n.value.id)
    return out


def may_raise_stmt(st):
    for n in ast.walk(st):
        if isinstance(n, (ast.Call, ast.Subscript, ast.Raise, ast.Attribute, ast.BinOp, ast.Assert)):
            return True
    return False


class Evaluator:
    """Evaluates one function (or lambda) to its path set."""

    _uid = itertools.count(1)

    def __init__(self, program, fn, inline_stack=(), analysis=None):
        self.p = program
        self.fn = fn
        self.inline_stack = tuple(inline_stack)
        self.analysis = analysis
        self.module = fn.module
        node = fn.node
        self.locals = set(fn.params) | set(fn.kwonly)
        if fn.vararg:
            self.locals.add(fn.vararg)
        if fn.kwarg:
            self.locals.add(fn.kwarg)
        body = node.body if isinstance(node.body, list) else []
        self.locals |= assigned_names(body)
        self.globals_decl = set()
        for n in ast.walk(node):
            if isinstance(n, (ast.Global, ast.Nonlocal)):
                self.globals_decl |= set(n.names)
        self.locals -= self.globals_decl
        self.loops = {}
        self.lambdas = {}
        self.comps = {}
        self.npaths = 0

    # ------------------------------------------------------------------
    def run(self):
        env = {}
        for p in self.fn.params + self.fn.kwonly:
            env[p] = ("param", p)
        if self.fn.vararg:
            env[self.fn.vararg] = ("param", "*" + self.fn.vararg)
        if self.fn.kwarg:
            env[self.fn.kwarg] = ("param", "**" + self.fn.kwarg)
        start = Path(env)
        paths = self.block(self.fn.node.body, [start], ())
        return paths

    def uid(self):
        return next(Evaluator._uid)

    # -- statements ------------------------------------------------------
    def block(self, stmts, paths, loops, before=None):
        for st in stmts:
            if before is not None:
                before(st, [p for p in paths if p.live])
            nxt = []
            for p in paths:
                if not p.live:
                    nxt.append(p)
                else:
                    nxt.extend(self.stmt(st, p, loops))
            paths = nxt
            if len(paths) > MAX_PATHS:
                raise AnalysisError("path explosion in %s" % self.fn.qualname)
        return paths

    def stmt(self, st, p, loops):
        """Evaluate one statement on path p.  Inlined calls with several callee paths fork the
        caller: the statement is re-evaluated from a snapshot once per choice vector."""
        results = []
        pending = [()]
        rounds = 0
        while pending:
            choices = pending.pop()
            rounds += 1
            if rounds > 4000:
                raise AnalysisError("inlining explosion in %s" % self.fn.qualname)
            q = p.fork()
            q._choices = list(choices)
            q._cpos = 0
            try:
                out = self._stmt(st, q, loops)
            except _NeedChoice as nc:
                for i in reversed(range(nc.k)):
                    pending.append(tuple(choices) + (i,))
                continue
            except _PathEnded as pe:
                out = [pe.path]
            results.extend(out)
        return results

    def _stmt(self, st, p, loops):
        if isinstance(st, (ast.Assign, ast.AnnAssign, ast.Return, ast.Expr, ast.AugAssign)):
            split = split_ifexp(st)
            if split is not None:
                return self.s_If(split, p, loops)
        m = getattr(self, "s_" + type(st).__name__, None)
        if m is None:
            raise AnalysisError("statement kind %s unsupported (%s:%d)" % (type(st).__name__, self.module.relpath, st.lineno))
        return m(st, p, loops)

    def s_Expr(self, st, p, loops):
        self.expr(st.value, p)
        return [p]

    def s_Pass(self, st, p, loops):
        return [p]

    def s_Import(self, st, p, loops):
        return [p]

    s_ImportFrom = s_Global = s_Nonlocal = s_Import

    def s_FunctionDef(self, st, p, loops):
        body = [x for x in st.body if not (isinstance(x, ast.Expr) and isinstance(x.value, ast.Constant))]
        if len(body) == 1 and isinstance(body[0], ast.Return) and body[0].value is not None and not st.decorator_list:
            lam = ast.Lambda(args=st.args, body=body[0].value)
            ast.copy_location(lam, st)
            p.env[st.name] = self.expr(lam, p)
        else:
            p.env[st.name] = ("unknown", "nested def %s" % st.name)
        return [p]

    def s_ClassDef(self, st, p, loops):
        p.env[st.name] = ("unknown", "nested class %s" % st.name)
        return [p]

    def s_Assert(self, st, p, loops):
        t = self.expr(st.test, p)
        p.effects.append(Effect("assert", t, node=st))
        return [p]

    def s_Delete(self, st, p, loops):
        for t in st.targets:
            if isinstance(t, ast.Name):
                p.env[t.id] = ("unbound", t.id)
            elif isinstance(t, ast.Subscript):
                p.effects.append(Effect("del", self.expr(t.value, p), self.index(t.slice, p), node=st))
        return [p]

    def s_Assign(self, st, p, loops):
        v = self.expr(st.value, p)
        for t in st.targets:
            self.assign(t, v, p, st, st.value)
        return [p]

    def s_AnnAssign(self, st, p, loops):
        if st.value is not None:
            v = self.expr(st.value, p)
            self.assign(st.target, v, p, st, st.value)
        return [p]

    def s_AugAssign(self, st, p, loops):
        load = ast.copy_location(_as_load(st.target), st.target)
        cur = self.expr(load, p)
        v = self.expr(st.value, p)
        new = ("binop", _BINOPS.get(type(st.op), "?"), cur, v)
        if isinstance(st.target, ast.Name) and isinstance(st.op, (ast.BitOr, ast.BitAnd)) and strip_mut(cur)[0] == "param":
            # `param |= x` mutates a set argument in place (and rebinds the local to the same object)
            new = ("mut", cur, "__ior__" if isinstance(st.op, ast.BitOr) else "__iand__", (v,))
        elif isinstance(st.target, ast.Name) and isinstance(st.op, ast.Add) and strip_mut(cur)[0] == "param" and (v[0] in ("param", "list", "comp") or (v[0] == "call" and v[1] == ("builtin", "list"))) and v[0:2] != ("comp", "gen"):
            # `param += [..]` / `param += other_list` extends a list argument in place
            new = ("mut", cur, "__iadd__", (v,))
        self.assign(st.target, new, p, st, None)
        return [p]

    def assign(self, target, v, p, st, value_node):
        if isinstance(target, ast.Name):
            if target.id in self.globals_decl:
                p.effects.append(Effect("store_global", target.id, None, v, node=st))
            p.env[target.id] = v
        elif isinstance(target, (ast.Tuple, ast.List)):
            n = len(target.elts)
            # the same at the syntax level, so that helper calls in the element are inlined like anywhere else: evaluate the element once per item
            if (isinstance(value_node, (ast.GeneratorExp, ast.ListComp)) and len(value_node.generators) == 1 and not value_node.generators[0].ifs and not value_node.generators[0].is_async
                    and isinstance(value_node.generators[0].target, ast.Name) and not any(isinstance(e, ast.Starred) for e in target.elts)):
                g_ = value_node.generators[0]
                items = None
                if isinstance(g_.iter, (ast.Tuple, ast.List)) and len(g_.iter.elts) == n and not any(isinstance(e, ast.Starred) for e in g_.iter.elts):
                    items = [self.expr(e, p) for e in g_.iter.elts]
                elif isinstance(g_.iter, ast.Name) and g_.iter.id in p.env and p.env[g_.iter.id][0] in ("tuple", "list") and len(p.env[g_.iter.id][1]) == n and not any(x[0] == "star" for x in p.env[g_.iter.id][1]):
                    items = list(p.env[g_.iter.id][1])
                if items is not None:
                    nm_ = g_.target.id
                    saved_ = p.env.get(nm_, None)
                    had_ = nm_ in p.env
                    outs_ = []
                    for it_ in items:
                        p.env[nm_] = it_
                        outs_.append(self.expr(value_node.elt, p))
                    if had_:
                        p.env[nm_] = saved_
                    else:
                        p.env.pop(nm_, None)
                    v = ("tuple", tuple(outs_))
            # a, b, c = (f(x) for x in (p, q, r)): a comprehension over a display of the same length, unpacked — element by element
            if (v[0] == "comp" and v[1] in ("gen", "list") and len(v[4]) == 1 and not v[4][0][2] and v[4][0][1][0] in ("list", "tuple") and len(v[4][0][1][1]) == n
                    and not any(x[0] == "star" for x in v[4][0][1][1]) and isinstance(v[4][0][0], tuple) and v[4][0][0][0] == "bound"):
                v = ("tuple", tuple(replace_terms(v[3], {v[4][0][0]: e}) for e in v[4][0][1][1]))
            if v[0] in ("tuple", "list") and len(v[1]) == n and not any(isinstance(e, ast.Starred) for e in target.elts):
                for t, x in zip(target.elts, v[1]):
                    if x[0] == "ifexp" and isinstance(t, ast.Name) and hasattr(p, "_choices"):
                        # a conditional expression unpacked into a name: decided per path, like `if`
                        idx = self.choose(p, 2)
                        p.conds.append((x[1], idx == 0, st))
                        x = x[2] if idx == 0 else x[3]
                    self.assign(t, x, p, st, None)
            else:
                for i, t in enumerate(target.elts):
                    if isinstance(t, ast.Starred):
                        self.assign(t.value, ("sub", v, ("slice", const(i), None, None)), p, st, None)
                    elif v[0] == "loopvar" and not any(isinstance(e, ast.Starred) for e in target.elts):
                        self.assign(t, ("loopvar", v[1], v[2], tuple(v[3]) + (i,)), p, st, None)  # a, b = pair  ==  for a, b in ...
                    else:
                        self.assign(t, self._path_split_part(v, const(i)) or ("sub", v, const(i)), p, st, None)
        elif isinstance(target, ast.Attribute):
            base = self.expr(target.value, p)
            p.effects.append(Effect("store_attr", base, target.attr, v, node=st))
            me = self._self_term()
            if me is not None and base == me:
                if not hasattr(p, "fields") or p.fields is None:
                    p.fields = {}
                if isinstance(st, ast.AugAssign) or any(x == ("attr", me, target.attr) for x in subterms(v)):
                    p.fields.pop(target.attr, None)
                else:
                    p.fields[target.attr] = v
        elif isinstance(target, ast.Subscript):
            base = self.expr(target.value, p)
            key = self.index(target.slice, p)
            p.effects.append(Effect("store_sub", base, key, v, node=st))
            if isinstance(target.value, ast.Name) and target.value.id in p.env:
                cur = p.env[target.value.id]
                if cur[0] == "dict" and key[0] == "const" and all(k[0] == "const" for k, _ in cur[1]):
                    p.env[target.value.id] = ("dict", tuple((k, x) for k, x in cur[1] if k != key) + ((key, v),))  # d = {...}; d["k"] = v
                else:
                    p.env[target.value.id] = ("mut", cur, "__setitem__", (key, v))
        elif isinstance(target, ast.Starred):
            self.assign(target.value, v, p, st, None)
        else:
            raise AnalysisError("assignment target %s" % type(target).__name__)

    def s_Return(self, st, p, loops):
        v = self.expr(st.value, p) if st.value is not None else NONE
        p.result = ("return", v, st)
        return [p]

    def s_Raise(self, st, p, loops):
        v = self.expr(st.exc, p) if st.exc is not None else ("const", "re-raise")
        p.result = ("raise", v, st)
        return [p]

    def s_Break(self, st, p, loops):
        p.result = ("break", None, st)
        return [p]

    def s_Continue(self, st, p, loops):
        p.result = ("continue", None, st)
        return [p]

    def s_If(self, st, p, loops):
        c = self.expr(st.test, p)
        a = p.fork()
        me = self._self_term()
        a.note_cond(c, True, st, me)
        b = p
        b.note_cond(c, False, st, me)
        out = self.block(st.body, [a], loops)
        out += self.block(st.orelse, [b], loops)
        return out

    def _self_term(self):
        """The term of `self` in a method analysed on its own (not inlined), else None."""
        if self.fn.cls is not None and self.fn.params and not self.fn.is_staticmethod and not self.fn.is_classmethod and not self.inline_stack:
            return ("param", self.fn.params[0])
        return None

    def s_With(self, st, p, loops):
        for item in st.items:
            v = self.expr(item.context_expr, p)
            p.effects.append(Effect("with", v, node=st))
            if item.optional_vars is not None:
                self.assign(item.optional_vars, v, p, st, None)
        return self.block(st.body, [p], loops)

    s_AsyncWith = s_With

    def _loop(self, st, p, loops, kind):
        uid = self.uid()
        info = LoopInfo(uid, kind, st)
        self.loops[uid] = info
        assigned = assigned_names(st.body) | mutated_names(st.body)
        enum_index = None
        if kind == "for":
            info.iter = self.expr(st.iter, p)
            info.target = st.target
            # `for i, x in enumerate(xs)` is `for x in xs` with a running index: the loop is over xs (the index is a value of its own)
            it_ = info.iter
            if (isinstance(it_, tuple) and it_[0] == "call" and it_[1] == ("builtin", "enumerate") and 1 <= len(it_[2]) <= 2 and all(k == "start" for k, _ in it_[3])
                    and isinstance(st.target, (ast.Tuple, ast.List)) and len(st.target.elts) == 2 and isinstance(st.target.elts[0], ast.Name)):
                info.iter = it_[2][0]
                info.enum_start = it_[2][1] if len(it_[2]) == 2 else (dict(it_[3]).get("start"))
                enum_index = st.target.elts[0].id
                info.target = st.target.elts[1]
        body_env = dict(p.env)
        pre = {}
        for n in assigned:
            if n in p.env:
                pre[n] = p.env[n]
                body_env[n] = ("carried", n, uid)
        head = Path(body_env)
        if kind == "for" and enum_index is not None:
            st_ = info.enum_start
            if isinstance(st_, tuple) and st_[0] == "const" and isinstance(st_[1], int) and not isinstance(st_[1], bool) and st_[1] != 0:
                # enumerate(xs, k): the index is the 0-based position plus k
                head.env[enum_index] = ("binop", "+", ("loopindex", uid), st_)
                info.enum_start = None
            else:
                head.env[enum_index] = ("loopindex", uid)
            self._bind_target(st.target.elts[1], ("loopvar", uid, info.iter, ()), head, st)
        elif kind == "for":
            self._bind_target(st.target, ("loopvar", uid, info.iter, ()), head, st)
        else:
            info.test = self.expr(st.test, head)
            head.conds.append((info.test, True, st))
        inner = loops + (uid,)
        bpaths = self.block(st.body, [head], inner)
        info.body_paths = bpaths
        info.has_else = bool(st.orelse)
        for n in pre:
            posts = []
            for bp in bpaths:
                if bp.result is None or bp.result[0] == "continue":
                    posts.append(bp.env.get(n, ("carried", n, uid)))
            info.carried[n] = (pre[n], posts)
        p.effects.append(Effect("loop", info, node=st))
        out = []
        # escaping paths (return / raise inside the body)
        for bp in bpaths:
            if bp.result is not None and bp.result[0] in ("return", "raise"):
                q = p.fork()
                q.conds.append((("inloop", uid), True, st))
                q.conds.extend(bp.conds)
                q.effects = q.effects[:-1] + [Effect("loop_partial", info, node=st)] + list(bp.effects)
                q.env = dict(bp.env)
                q.result = bp.result
                out.append(q)
        # normal completion
        for n in assigned | (assigned_names([_target_stmt(st.target)]) if kind == "for" else set()):
            if n in self.locals:
                p.env[n] = ("loopout", n, uid)
        has_break = any(bp.result is not None and bp.result[0] == "break" for bp in bpaths)
        if kind == "for":
            self._accumulator_as_comprehension(st, info, p, pre)
        if kind == "while" and info.test is not None and info.test[0] == "const" and info.test[1] and not has_break:
            return out  # `while True:` without break never completes normally
        if st.orelse:
            if has_break:
                q = p.fork()
                q.conds.append((("loopbreak", uid), True, st))
                out.append(q)
            p.conds.append((("loopbreak", uid), False, st))
            out.extend(self.block(st.orelse, [p], loops))
        else:
            out.append(p)
        return out

    def _accumulator_as_comprehension(self, st, info, p, pre):
        """`for x in it: [if c:] acc.append(e)`  ==  acc.extend([e for x in it if c])  (acc += comprehension).
        Normalises explicit accumulation loops and comprehensions to one form."""
        uid = info.uid
        for name, (pre_t, posts) in info.carried.items():
            carried = ("carried", name, uid)
            rows = []  # (conds, elt or None)
            ok = True
            kinds = set()
            for bp in info.body_paths:
                if not bp.feasible():
                    continue
                if bp.result is not None and bp.result[0] != "continue":
                    ok = False
                    break
                post = bp.env.get(name, carried)
                if post == carried:
                    elt = None
                elif post[0] == "mut" and post[1] == carried and post[2] == "append" and len(post[3]) == 1:
                    elt = post[3][0]
                    kinds.add("list")
                elif post[0] == "mut" and post[1] == carried and post[2] == "add" and len(post[3]) == 1:
                    elt = post[3][0]
                    kinds.add("set")
                elif post[0] == "mut" and post[1] == carried and post[2] == "__setitem__" and len(post[3]) == 2:
                    elt = ("tuple", (post[3][0], post[3][1]))  # d[k] = v per element: {k: v for ...}
                    kinds.add("dict")
                else:
                    ok = False
                    break
                # the body may do nothing else that matters: no stores, no other mutation, no other carried variable
                for e in bp.effects:
                    if e.kind in ("store_sub", "store_attr", "store_global", "loop", "del") and not (e.kind == "store_sub" and e.a == carried):
                        ok = False
                    if e.kind == "call" and e.a[1][0] == "attr" and e.a[1][2] in MUTATORS and not (e.a[1][2] in ("append", "add") and strip_mut(e.a[1][1]) == carried):
                        ok = False
                for other, (op, oposts) in info.carried.items():
                    if other != name and bp.env.get(other, ("carried", other, uid)) != ("carried", other, uid):
                        ok = False
                rows.append((bp, elt))
            if not ok or not rows or all(e is None for _, e in rows) or len(kinds) != 1:
                continue
            ckind = next(iter(kinds))
            empty = {"list": ("list", ()), "set": ("call", ("builtin", "set"), (), ()), "dict": ("dict", ())}[ckind]
            grow = {"list": "extend", "set": "update", "dict": "update"}[ckind]
            cuid = self.uid()
            tgt = st.target
            bound = ("bound", unparse(tgt), cuid)

            def rebind(t):
                if not isinstance(t, tuple) or not t:
                    return t
                if not isinstance(t[0], str):
                    return tuple(rebind(x) for x in t)
                if t[0] == "loopvar" and t[1] == uid:
                    out = bound
                    for i in t[3]:
                        out = ("sub", out, ("const", i))
                    return out
                if t[0] in ("const", "param", "global", "builtin"):
                    return t
                return tuple(rebind(x) if isinstance(x, tuple) else x for x in t)

            comp = None
            if len(rows) == 1 and not rows[0][0].conds:
                comp = ("comp", ckind, cuid, rebind(rows[0][1]), ((bound, info.iter, ()),))
            elif len(rows) == 2 and len(rows[0][0].conds) == 1 and len(rows[1][0].conds) == 1 and rows[0][0].conds[0][0] == rows[1][0].conds[0][0] and rows[0][0].conds[0][1] != rows[1][0].conds[0][1]:
                (a, ea), (b, eb) = rows
                if not a.conds[0][1]:
                    (a, ea), (b, eb) = (b, eb), (a, ea)
                c = a.conds[0][0]
                if ea is not None and eb is not None:
                    comp = ("comp", ckind, cuid, ("ifexp", rebind(c), rebind(ea), rebind(eb)), ((bound, info.iter, ()),))
                elif ea is not None:
                    comp = ("comp", ckind, cuid, rebind(ea), ((bound, info.iter, (rebind(c),)),))
                else:
                    comp = ("comp", ckind, cuid, rebind(eb), ((bound, info.iter, (("unop", "not", rebind(c)),)),))
            if comp is None:
                continue
            comp = fuse_comp(comp)
            self.comps[cuid] = (st, comp)
            if pre_t == empty:
                p.env[name] = comp
            else:
                p.env[name] = ("mut", pre_t, grow, (comp,))
            syn = Effect("call", ("call", ("attr", pre_t, grow), (comp,), ()), node=st, maybe=False)
            syn.origin = "synthetic"
            p.effects.append(syn)
            info.accumulates = getattr(info, "accumulates", {})
            info.accumulates[name] = comp

    def _class_display_elements(self, node):
        """`self.X` / `cls.X` / `Class.X` naming a class-level tuple/list/str of at most four constants that no instance replaces: its elements."""
        if not (isinstance(node, ast.Attribute) and isinstance(node.value, ast.Name)):
            return None
        cls = None
        if node.value.id in ("self", "cls") and self.fn.cls is not None and self.fn.params and node.value.id == self.fn.params[0] and not self.fn.is_staticmethod:
            cls = self.fn.cls  # (also when inlined into a caller of the same hierarchy: subclasses that re-define the attribute are excluded below)
        else:
            r = self.p.resolve_module_name(self.module, node.value.id) if node.value.id not in self.locals else None
            if r and r[0] == "class":
                cls = r[1]
        if cls is None:
            return None
        owner, expr = cls.find_assign(node.attr)
        if owner is None or any(node.attr in sc.assigns for sc in self.p.subclasses(cls)) or _attr_assigned_on_instances(self.p, cls, node.attr):
            return None
        if isinstance(expr, (ast.Tuple, ast.List)) and 0 < len(expr.elts) <= 4 and all(isinstance(e, ast.Constant) for e in expr.elts):
            return list(expr.elts)
        if isinstance(expr, ast.Constant) and isinstance(expr.value, str) and 0 < len(expr.value) <= 4:
            return [ast.Constant(value=c) for c in expr.value]
        return None

    def _const_table_elements(self, node):
        """AST elements (and defining module) of a module-level constant tuple/list display named by `node`."""
        if not isinstance(node, ast.Name) or node.id in self.locals:
            return None
        r = self.p.resolve_module_name(self.module, node.id)
        if not r or r[0] != "const":
            return None
        m, name = r[1], r[2]
        exprs = m.assigns.get(name, ())
        if len(exprs) != 1 or not isinstance(exprs[0], (ast.Tuple, ast.List)) or not (0 < len(exprs[0].elts) <= 24):
            return None
        if any(isinstance(e, ast.Starred) for e in exprs[0].elts):
            return None
        return m, list(exprs[0].elts)

    def _fuse_generator_loop(self, st, p):
        """`for T in gen(args): BODY` with gen a generator function of this module  ==  gen's body with every
        `yield e` replaced by `T = e; BODY` (what the interpreter does, interleaving included).  Returns the
        statement list, or None when the shape is not covered (then the eager list twin of gen is used)."""
        import copy
        if st.orelse or not isinstance(st.iter, ast.Call) or any(isinstance(a, ast.Starred) for a in st.iter.args) or any(k.arg is None for k in st.iter.keywords):
            return None
        try:
            f = self.expr(st.iter.func, Path(dict(p.env)))
        except AnalysisError:
            return None
        r = self.resolve_package_callee(f, p)
        if r is None:
            return None
        callee, skip = r
        if callee.gen_orig is None or callee.module is not self.module or callee is self.fn or callee.qualname in self.inline_stack or callee.vararg or callee.kwarg:
            return None
        if getattr(self, "_fusing", ()) and callee.qualname in self._fusing:
            return None

        def own_level(stmts):
            todo = list(stmts)
            while todo:
                n = todo.pop()
                yield n
                for c in ast.iter_child_nodes(n):
                    if not isinstance(c, (ast.For, ast.While, ast.AsyncFor, ast.FunctionDef, ast.AsyncFunctionDef, ast.Lambda, ast.ClassDef)):
                        todo.append(c)
                    elif isinstance(c, (ast.For, ast.While, ast.AsyncFor)):
                        todo.extend(c.orelse)
        if any(isinstance(n, (ast.Break, ast.Continue)) for n in own_level(st.body)):
            return None
        g = callee.gen_orig
        from .source import _own_nodes
        for n in _own_nodes(g):
            if isinstance(n, ast.Return):
                return None
            if isinstance(n, (ast.Yield, ast.YieldFrom)):
                pass
        suffix = "__g%d" % self.uid()
        names = set(callee.params) | set(callee.kwonly) | assigned_names(g.body)

        class Ren(ast.NodeTransformer):
            def visit_Name(self_, node):
                if node.id in names:
                    return ast.copy_location(ast.Name(id=node.id + suffix, ctx=node.ctx), node)
                return node

        outer = self

        class Rep(ast.NodeTransformer):
            ok = True

            def visit_FunctionDef(self_, node):
                return node
            visit_Lambda = visit_ClassDef = visit_AsyncFunctionDef = visit_FunctionDef

            def visit_Expr(self_, node):
                v = node.value
                if isinstance(v, ast.Yield):
                    asg = ast.Assign(targets=[copy.deepcopy(st.target)], value=v.value if v.value is not None else ast.Constant(value=None))
                    ast.fix_missing_locations(ast.copy_location(asg, node))
                    return [asg] + copy.deepcopy(list(st.body))
                if isinstance(v, ast.YieldFrom):
                    loop = ast.For(target=copy.deepcopy(st.target), iter=v.value, body=copy.deepcopy(list(st.body)), orelse=[])
                    return ast.fix_missing_locations(ast.copy_location(loop, node))
                return node

            def visit_Yield(self_, node):
                Rep.ok = False
                return node
            visit_YieldFrom = visit_Yield
        body = [Ren().visit(copy.deepcopy(x)) for x in g.body]
        if body and isinstance(body[0], ast.Expr) and isinstance(body[0].value, ast.Constant) and isinstance(body[0].value.value, str):
            body = body[1:]
        rep = Rep()
        out = []
        for x in body:
            y = rep.visit(x)
            out.extend(y if isinstance(y, list) else [y])
        if not Rep.ok:
            return None
        binds = []

        def bind(name, value):
            a = ast.Assign(targets=[ast.Name(id=name + suffix, ctx=ast.Store())], value=value)
            binds.append(ast.fix_missing_locations(ast.copy_location(a, st)))
        params = list(callee.params)
        if skip:
            if not isinstance(st.iter.func, ast.Attribute):
                return None
            bind(params[0], st.iter.func.value)
            params = params[1:]
        if len(st.iter.args) > len(params):
            return None
        given = set()
        for pn, a in zip(params, st.iter.args):
            bind(pn, a)
            given.add(pn)
        for k in st.iter.keywords:
            if k.arg not in params and k.arg not in callee.kwonly or k.arg in given:
                return None
            bind(k.arg, k.value)
            given.add(k.arg)
        for pn in params + list(callee.kwonly):
            if pn not in given:
                d = callee.defaults.get(pn)
                if d is None:
                    return None
                bind(pn, d)
        self.locals |= {n + suffix for n in names}
        self._fusing = tuple(getattr(self, "_fusing", ())) + (callee.qualname,)
        stats = _INLINE_STATS.setdefault(id(self.p), {"ok": set(), "fail": set()})
        stats["ok"].add(callee.qualname)
        return binds + out

    def s_For(self, st, p, loops):
        fused = self._fuse_generator_loop(st, p)
        if fused is not None:
            try:
                return self.block(fused, [p], loops)
            finally:
                self._fusing = self._fusing[:-1]
        tab = self._const_table_elements(st.iter) if not st.orelse else None
        if tab is not None and isinstance(st.target, (ast.Tuple, ast.List)):
            # a loop over a small module-level table of tuples is unrolled (table-driven code == if-chain)
            defmod, elts = tab
            live, done = [p], []
            for el in elts:
                nxt = []
                for q0 in live:
                    saved = self.module
                    self.module = defmod
                    try:
                        v = self.expr(el, q0)
                    finally:
                        self.module = saved
                    self.assign(st.target, v, q0, st, None)
                    for q in self.block(list(st.body), [q0], loops):
                        if q.result is None:
                            nxt.append(q)
                        elif q.result[0] == "continue":
                            q.result = None
                            nxt.append(q)
                        elif q.result[0] == "break":
                            q.result = None
                            done.append(q)
                        else:
                            done.append(q)
                live = nxt
                if len(live) + len(done) > MAX_PATHS:
                    raise AnalysisError("path explosion unrolling a table loop in %s" % self.fn.qualname)
            return live + done
        cls_elems = self._class_display_elements(st.iter) if not st.orelse else None
        if (isinstance(st.iter, (ast.Constant, ast.Tuple, ast.List)) or cls_elems is not None) and not st.orelse:
            elems = cls_elems
            if isinstance(st.iter, ast.Constant) and isinstance(st.iter.value, str) and 0 < len(st.iter.value) <= 4:
                elems = [ast.Constant(value=c) for c in st.iter.value]
            elif isinstance(st.iter, (ast.Tuple, ast.List)) and 0 < len(st.iter.elts) <= 4 and not any(isinstance(e, ast.Starred) for e in st.iter.elts):
                elems = list(st.iter.elts)
            if elems is not None:
                # `for bit in "01": body`  ==  body[bit="0"]; body[bit="1"]   (continue ends an iteration, break ends the loop)
                live = [p]
                done = []
                for c in elems:
                    asg = ast.Assign(targets=[st.target], value=c)
                    ast.copy_location(asg, st)
                    ast.fix_missing_locations(asg)
                    nxt = []
                    for q in self.block([asg] + list(st.body), live, loops):
                        if q.result is None:
                            nxt.append(q)
                        elif q.result[0] == "continue":
                            q.result = None
                            nxt.append(q)
                        elif q.result[0] == "break":
                            q.result = None
                            done.append(q)
                        else:
                            done.append(q)
                    live = nxt
                return live + done
        if isinstance(st.iter, ast.Name) and st.iter.id in p.env and p.env[st.iter.id][0] in ("tuple", "list") and 0 < len(p.env[st.iter.id][1]) <= 8 and not any(x[0] == "star" for x in p.env[st.iter.id][1]) and st.iter.id not in mutated_names(st.body) and (st.orelse or any(isinstance(n, ast.Break) for n in ast.walk(st)) or (p.env[st.iter.id][0] == "tuple" and len(p.env[st.iter.id][1]) <= 4)):
            # a SEARCH loop (break / for-else) over a local bound to a short display: unrolled like a literal (the else part runs when no iteration broke out)
            live, done = [p], []
            for el in p.env[st.iter.id][1]:
                nxt = []
                for q0 in live:
                    self.assign(st.target, el, q0, st, None)
                    for q in self.block(list(st.body), [q0], loops):
                        if q.result is None:
                            nxt.append(q)
                        elif q.result[0] == "continue":
                            q.result = None
                            nxt.append(q)
                        elif q.result[0] == "break":
                            q.result = None
                            done.append(q)
                        else:
                            done.append(q)
                live = nxt
                if len(live) + len(done) > MAX_PATHS:
                    raise AnalysisError("path explosion unrolling a loop in %s" % self.fn.qualname)
            if st.orelse:
                live = self.block(list(st.orelse), live, loops)
            return live + done
        return self._loop(st, p, loops, "for")

    s_AsyncFor = s_For

    def s_While(self, st, p, loops):
        return self._loop(st, p, loops, "while")

    def _bind_target(self, target, v, p, st):
        if isinstance(target, ast.Name):
            p.env[target.id] = v
        elif isinstance(target, (ast.Tuple, ast.List)):
            for i, t in enumerate(target.elts):
                if v[0] == "loopvar":
                    self._bind_target(t, ("loopvar", v[1], v[2], v[3] + (i,)), p, st)
                elif v[0] == "bound":
                    self._bind_target(t, ("sub", v, const(i)), p, st)
                else:
                    self._bind_target(t, ("sub", v, const(i)), p, st)
        elif isinstance(target, ast.Starred):
            self._bind_target(target.value, v, p, st)
        else:
            self.assign(target, v, p, st, None)

    @staticmethod
    def _log_and_reraise(h):
        """An except clause that only writes DEBUG messages and re-raises the exception it caught (bare `raise`)."""
        if not h.body or not (isinstance(h.body[-1], ast.Raise) and h.body[-1].exc is None and h.body[-1].cause is None):
            return False
        for s_ in h.body[:-1]:
            if not (isinstance(s_, ast.Expr) and isinstance(s_.value, ast.Call) and isinstance(s_.value.func, ast.Attribute) and s_.value.func.attr == "debug"
                    and isinstance(s_.value.func.value, ast.Name) and not any(isinstance(k_.value, ast.Call) for k_ in s_.value.keywords)
                    and not any(isinstance(x_, (ast.Call, ast.Subscript, ast.Await)) for a_ in s_.value.args for x_ in ast.walk(a_))):
                return False
        return True

    def s_Try(self, st, p, loops):
        if st.handlers and all(self._log_and_reraise(h) for h in st.handlers):
            # try: BODY / except E: <debug message>; raise / else: ELSE  ==  BODY; ELSE  (the exception leaves unchanged either way)
            out_ = self.block(list(st.body) + list(st.orelse), [p], loops)
            if st.finalbody:
                out2_ = []
                for q_ in out_:
                    res_ = q_.result
                    q_.result = None
                    for r_ in self.block(list(st.finalbody), [q_], loops):
                        if r_.result is None:
                            r_.result = res_
                        out2_.append(r_)
                out_ = out2_
            return out_
        uid = self.uid()
        snaps = []  # (stmt index, Path snapshot)

        def before(s, live):
            if may_raise_stmt(s):
                for lp in live:
                    snaps.append((s, lp.fork()))

        body_paths = self.block(st.body, [p], loops, before=before)
        out = []
        catch_all = False
        for h in st.handlers:
            if h.type is None:
                catch_all = True
            elif isinstance(h.type, ast.Name) and h.type.id in ("Exception", "BaseException"):
                catch_all = True
        normal = []
        raised_in_body = []
        for bp in body_paths:
            if bp.result is not None and bp.result[0] == "raise":
                raised_in_body.append(bp)
            else:
                normal.append(bp)
        # handler forks
        hpaths = []
        for h in st.handlers:
            htype = self._expr_pure(h.type, p) if h.type is not None else ("const", "bare")
            for s, snap in snaps:
                q = snap
                q = q.fork()
                q.conds.append((("except", uid, htype, getattr(s, "lineno", 0)), True, h))
                if h.name:
                    q.env[h.name] = ("exc", h.name, uid)
                hpaths.append((h, q))
            for bp in raised_in_body:
                q = bp.fork()
                q.result = None
                q.conds.append((("except", uid, htype, bp.conds and 0 or 0), True, h))
                if h.name:
                    q.env[h.name] = bp_result_term(bp)
                hpaths.append((h, q))
        handled = []
        for h, q in hpaths:
            handled.extend(self.block(h.body, [q], loops))
        if not catch_all:
            out.extend(raised_in_body)
        # else branch
        if st.orelse:
            cont = [x for x in normal if x.live]
            done = [x for x in normal if not x.live]
            normal = done + self.block(st.orelse, cont, loops)
        allp = normal + handled
        if st.finalbody:
            res = []
            for x in allp:
                if x.live:
                    res.extend(self.block(st.finalbody, [x], loops))
                else:
                    saved = x.result
                    x.result = None
                    for y in self.block(st.finalbody, [x], loops):
                        if y.live:
                            y.result = saved
                        res.append(y)
            allp = res
        out.extend(allp)
        self.tries = getattr(self, "tries", {})
        self.tries[uid] = (st, catch_all)
        return out

    s_TryStar = s_Try

    # -- expressions -----------------------------------------------------
    def _expr_pure(self, node, p):
        q = Path(dict(p.env))
        return self.expr(node, q)

    def index(self, node, p):
        if isinstance(node, ast.Slice):
            lo = self.expr(node.lower, p) if node.lower else None
            st = self.expr(node.step, p) if node.step else None
            # normal form: x[0:n] is x[:n] and a step of 1 is no step (for every sequence type)
            if lo == ("const", 0) and st in (None, ("const", 1)):
                lo = None
            if st == ("const", 1):
                st = None
            return ("slice", lo, self.expr(node.upper, p) if node.upper else None, st)
        return self.expr(node, p)

    def name(self, n, p):
        if n in p.env:
            return p.env[n]
        if n in self.locals:
            return ("unbound", n)
        r = self.p.resolve_module_name(self.module, n)
        if r is not None:
            return canonical_global(self.p, self.module, n, r)
        return ("builtin", n)

    def expr(self, node, p, maybe=False):
        ev = lambda n: self.expr(n, p, maybe)
        if node is None:
            return NONE
        if isinstance(node, ast.Constant):
            return ("const", node.value)
        if isinstance(node, ast.Name):
            return self.name(node.id, p)
        if isinstance(node, ast.Attribute):
            b = ev(node.value)
            if b[0] == "global":
                # attribute of a package module: name it by its defining module (aliases and import styles coincide)
                rb = self.p.resolve_module_name(self.p.modules[b[1]], b[2]) if b[1] in self.p.modules else None
                if rb and rb[0] == "module":
                    r2 = self.p.resolve_module_name(rb[1], node.attr)
                    if r2 is not None:
                        return canonical_global(self.p, rb[1], node.attr, r2)
            cc = self._class_scalar(b, node.attr)
            if cc is not None:
                return cc
            nt = self._record_field(b, node.attr)
            if nt is not None:
                return nt
            return ("attr", b, self.p.rename_map.get(node.attr, node.attr) if b[0] in ("param", "global", "attr", "call") and node.attr in self.p.rename_map and self._is_method_name(node.attr) else node.attr)
        if isinstance(node, ast.Call):
            f = ev(node.func)
            args = []
            for a in node.args:
                if isinstance(a, ast.Starred):
                    args.append(("star", ev(a.value)))
                else:
                    args.append(ev(a))
            kwargs = []
            for k in node.keywords:
                kwargs.append((k.arg, ev(k.value)))
            return self.call(f, args, kwargs, p, node, maybe)
        if isinstance(node, ast.BinOp):
            l = ev(node.left)
            r = ev(node.right)
            if isinstance(node.op, ast.Mod) and l[0] == "const" and isinstance(l[1], str):
                fs = percent_as_fstr(l[1], r)
                if fs is not None:
                    return fs
            # (i + k) - k  is  i   (a 1-based enumerate index brought back to 0-based)
            if isinstance(node.op, ast.Sub) and r[0] == "const" and isinstance(r[1], int) and not isinstance(r[1], bool) and l[0] == "binop" and l[1] == "+" and l[3] == r and l[2][0] == "loopindex":
                return l[2]
            return ("binop", _BINOPS.get(type(node.op), "?"), l, r)
        if isinstance(node, ast.UnaryOp):
            return ("unop", _UNOPS[type(node.op)], ev(node.operand))
        if isinstance(node, ast.BoolOp):
            items = [ev(node.values[0])]
            for v in node.values[1:]:
                items.append(self.expr(v, p, True))
            return ("boolop", "and" if isinstance(node.op, ast.And) else "or", tuple(items))
        if isinstance(node, ast.Compare):
            ops = tuple(_CMPOPS[type(o)] for o in node.ops)
            operands = [ev(node.left)] + [ev(c) for c in node.comparators]
            return ("compare", ops, tuple(operands))
        if isinstance(node, ast.Subscript):
            base_t = ev(node.value)
            idx_t = self.index(node.slice, p)
            if base_t[0] == "dict" and idx_t[0] == "const" and all(k[0] == "const" for k, _ in base_t[1]):
                hit = [v for k, v in base_t[1] if k == idx_t]
                if hit:
                    return hit[-1]  # {"a": x}["a"] is x
            if base_t[0] in ("tuple", "list") and idx_t[0] == "const" and isinstance(idx_t[1], int) and not isinstance(idx_t[1], bool) and -len(base_t[1]) <= idx_t[1] < len(base_t[1]) and not any(x[0] == "star" for x in base_t[1]):
                return base_t[1][idx_t[1]]
            sp_ = self._path_split_part(base_t, idx_t)
            if sp_ is not None:
                return sp_
            if M_is_call(base_t) and base_t[1][0] == "attr" and base_t[1][2] == "groupdict" and not base_t[2] and not base_t[3] and idx_t[0] == "const" and isinstance(idx_t[1], str):
                return ("call", ("attr", base_t[1][1], "group"), (idx_t,), ())  # m.groupdict()["name"] is m.group("name")
            t = ("sub", base_t, idx_t)
            if not isinstance(node.slice, ast.Slice):
                p.effects.append(Effect("subscript", t, node=node, maybe=maybe))
            return t
        if isinstance(node, ast.Tuple):
            return ("tuple", tuple(self._elts(node.elts, p, maybe)))
        if isinstance(node, ast.List):
            return ("list", tuple(self._elts(node.elts, p, maybe)))
        if isinstance(node, ast.Set):
            return ("set", tuple(self._elts(node.elts, p, maybe)))
        if isinstance(node, ast.Dict):
            return ("dict", tuple((ev(k) if k is not None else ("const", "**"), ev(v)) for k, v in zip(node.keys, node.values)))
        if isinstance(node, ast.IfExp):
            c = ev(node.test)
            a = self.expr(node.body, p, True)
            b = self.expr(node.orelse, p, True)
            return ("ifexp", c, a, b)
        if isinstance(node, ast.JoinedStr):
            parts = []
            for v in node.values:
                if isinstance(v, ast.Constant):
                    parts.append(("const", v.value))
                else:
                    spec = None
                    if v.format_spec is not None:
                        spec = ev(v.format_spec)
                        if spec[0] == "fstr" and len(spec[1]) == 1 and spec[1][0][0] == "const":
                            spec = spec[1][0]
                        elif spec == ("fstr", ()):
                            spec = None
                    parts.append(("fmt", ev(v.value), chr(v.conversion) if v.conversion and v.conversion > 0 else None, spec))
            return _merge_parts(parts)
        if isinstance(node, ast.FormattedValue):
            return ("fmt", ev(node.value), node.conversion, None)
        if isinstance(node, ast.Lambda):
            uid = self.uid()
            a = node.args
            params = [x.arg for x in a.posonlyargs + a.args + a.kwonlyargs]
            q = Path(dict(p.env))
            for n in params:
                q.env[n] = ("bound", n, uid)
            # a parameter with a default (`lambda m, repl=anon_val: repl`) is a value captured when the lambda is made: callers that pass only
            # the leading arguments (re.sub callbacks, sort keys, filter/map functions) see the default, so it is the default's term
            pos = a.posonlyargs + a.args
            bound_defaults = []
            for x, d in list(zip(pos[len(pos) - len(a.defaults):], a.defaults)) + [(x, d) for x, d in zip(a.kwonlyargs, a.kw_defaults) if d is not None]:
                bound_defaults.append((x.arg, self.expr(d, p)))
            if bound_defaults and len(bound_defaults) < len(params):
                for n, v in bound_defaults:
                    q.env[n] = v
                params = [n for n in params if n not in {b for b, _ in bound_defaults}]
            if a.vararg:
                q.env[a.vararg.arg] = ("bound", "*" + a.vararg.arg, uid)
            if a.kwarg:
                q.env[a.kwarg.arg] = ("bound", "**" + a.kwarg.arg, uid)
            body = self.expr(node.body, q)
            self.lambdas[uid] = LambdaInfo(uid, node, params, body, q.effects)
            return ("lambda", uid, tuple(params), body)
        if isinstance(node, (ast.ListComp, ast.SetComp, ast.GeneratorExp, ast.DictComp)):
            uid = self.uid()
            q = Path(dict(p.env))
            gens = []
            first = True
            for g in node.generators:
                it = self.expr(g.iter, p if first else q, maybe if first else True)
                first = False
                self._bind_target(g.target, ("bound", unparse(g.target), uid), q, node)
                conds = tuple(self.expr(c, q, True) for c in g.ifs)
                gens.append((("bound", unparse(g.target), uid), it, conds))
            if isinstance(node, ast.DictComp):
                elt = ("tuple", (self.expr(node.key, q, True), self.expr(node.value, q, True)))
            else:
                elt = self.expr(node.elt, q, True)
            for e in q.effects:
                e.maybe = True
                p.effects.append(e)
            kind = {ast.ListComp: "list", ast.SetComp: "set", ast.GeneratorExp: "gen", ast.DictComp: "dict"}[type(node)]
            t = fuse_comp(("comp", kind, uid, elt, tuple(gens)))
            if kind == "list" and len(t[4]) == 1 and not t[4][0][2] and t[4][0][1][0] in ("tuple", "list") and 0 < len(t[4][0][1][1]) <= 8 and not any(x[0] == "star" for x in t[4][0][1][1]):
                # comprehension over a short display: the list of its instances
                return ("list", tuple(replace_terms(t[3], {t[4][0][0]: x}) for x in t[4][0][1][1]))
            if kind == "gen" and len(t[4]) == 1 and not t[4][0][2] and t[3] == t[4][0][0]:
                return t[4][0][1]  # (x for x in xs): the elements of xs, one by one — for its single consumer the same as xs
            self.comps[uid] = (node, t)
            return t
        if isinstance(node, ast.Starred):
            return ("star", ev(node.value))
        if isinstance(node, ast.NamedExpr):
            v = ev(node.value)
            p.env[node.target.id] = v
            return v
        if isinstance(node, ast.Slice):
            return self.index(node, p)
        if isinstance(node, (ast.Await, ast.Yield, ast.YieldFrom)):
            return ("unknown", type(node).__name__)
        raise AnalysisError("expression kind %s (%s:%d)" % (type(node).__name__, self.module.relpath, getattr(node, "lineno", 0)))

    # -- calls ---------------------------------------------------------------
    _FACTORIES = ("operator.methodcaller", "operator.attrgetter", "operator.itemgetter", "functools.partial")

    def _path_split_part(self, base_t, idx_t):
        """os.path.split(p)[0] is os.path.dirname(p), [1] is os.path.basename(p) (that is how the library defines them)."""
        if (M_is_call(base_t) and base_t[1][0] == "attr" and base_t[1][2] == "split" and len(base_t[2]) == 1 and not base_t[3] and idx_t[0] == "const" and idx_t[1] in (0, 1)
                and self.ext_qualname(base_t[1]) in ("os.path.split", "posixpath.split", "ntpath.split")):
            return ("call", ("attr", base_t[1][1], "dirname" if idx_t[1] == 0 else "basename"), base_t[2], ())
        return None

    def ext_qualname(self, t):
        """Dotted name of an object from outside the package (through any import style), or None."""
        if not isinstance(t, tuple) or not t:
            return None
        if t[0] == "ext":
            return t[1]
        if t[0] == "global" and t[1] in self.p.modules:
            r = self.p.resolve_module_name(self.p.modules[t[1]], t[2])
            return r[1] if r and r[0] == "ext" else None
        if t[0] == "attr":
            b = self.ext_qualname(t[1])
            return b + "." + t[2] if b else None
        return None

    def choose(self, p, k):
        if p._cpos < len(p._choices):
            idx = p._choices[p._cpos]
            p._cpos += 1
            return idx
        raise _NeedChoice(k)

    def _expand_star(self, args):
        """f(*CONST_TUPLE) with a module-level constant tuple of scalars: positional constants."""
        out = []
        for a in args:
            if a[0] == "star":
                v = a[1]
                if v[0] in ("tuple", "list") and not any(x[0] == "star" for x in v[1]):
                    out.extend(v[1])
                    continue
                if v[0] == "global" and v[1] in self.p.modules:
                    from .fold import Unfoldable
                    try:
                        val = _folder_of(self.p).module_const(v[1], v[2])
                    except Unfoldable:
                        val = None
                    if isinstance(val, (tuple, list)) and len(val) <= 32 and all(isinstance(x, _SCALARS) for x in val):
                        out.extend(("const", x) for x in val)
                        continue
            out.append(a)
        return out

    def apply_callable(self, fn, args, p, node, maybe):
        """Term of fn(*args) for a callable TERM fn (lambda, functional factory object, anything else: a call term)."""
        if fn[0] == "lambda" and len(fn[2]) == len(args) and not any(a[0] == "star" for a in args):
            mp = {("bound", n, fn[1]): a for n, a in zip(fn[2], args)}
            return replace_terms(fn[3], mp)
        return self.call(fn, list(args), [], p, node, True if maybe else maybe)

    def call(self, f, args, kwargs, p, node, maybe):
        args = self._expand_star(args)
        if any(k is None for k, _ in kwargs):
            # f(**{"a": x, "b": y}) with a dict display (possibly a local built by a literal): keyword arguments a=x, b=y
            out = []
            for k, v in kwargs:
                if k is None and v[0] == "dict" and all(kk[0] == "const" and isinstance(kk[1], str) and kk[1] != "**" for kk, _ in v[1]):
                    out.extend((kk[1], vv) for kk, vv in v[1])
                else:
                    out.append((k, v))
            kwargs = out
        if f == ("builtin", "dict") and not args and kwargs and all(k is not None for k, _ in kwargs):
            return ("dict", tuple((("const", k), v) for k, v in kwargs))  # dict(a=x) is {"a": x}
        if f == ("builtin", "open") and len(args) == 1 and any(k == "mode" for k, _ in kwargs):
            args = list(args) + [v for k, v in kwargs if k == "mode"]
            kwargs = [(k, v) for k, v in kwargs if k != "mode"]
        if f[0] == "attr" and f[2] == "enter_context" and len(args) == 1 and not kwargs and M_is_call(args[0]) and args[0][1] == ("builtin", "open"):
            return args[0]  # stack.enter_context(open(...)): the file object itself (a file's __enter__ returns the file), closed when the stack unwinds
        if f == ("builtin", "len") and len(args) == 1 and not kwargs and args[0][0] == "global":
            # the length of a module-level constant table is a constant (`N = len(TABLE)` hoisted into a name and `len(TABLE)` in place are one term);
            # in-place changes of module-level objects are the global-state rule's business
            n_ = const_len(self.p, args[0])
            if n_ is not None:
                return ("const", n_)
        if f == ("builtin", "divmod") and len(args) == 2 and not kwargs:
            return ("tuple", (("binop", "//", args[0], args[1]), ("binop", "%", args[0], args[1])))
        nostar = not any(a[0] == "star" for a in args) and not any(k is None for k, _ in kwargs)
        # --- functional idioms -> the plain expression they stand for
        if f[0] == "call" and nostar and not any(a[0] == "star" for a in f[2]):
            fq = self.ext_qualname(f[1])
            if fq == "operator.methodcaller" and len(args) == 1 and not kwargs and f[2] and f[2][0][0] == "const" and isinstance(f[2][0][1], str):
                return self.call(("attr", args[0], f[2][0][1]), list(f[2][1:]), list(f[3]), p, node, maybe)
            if fq == "operator.attrgetter" and len(args) == 1 and not kwargs and f[2] and all(a[0] == "const" and isinstance(a[1], str) for a in f[2]):
                outs = []
                for a in f[2]:
                    t = args[0]
                    for part in a[1].split("."):
                        cc = self._class_scalar(t, part)
                        t = cc if cc is not None else ("attr", t, part)
                    outs.append(t)
                return outs[0] if len(outs) == 1 else ("tuple", tuple(outs))
            if fq == "operator.itemgetter" and len(args) == 1 and not kwargs and f[2]:
                outs = []
                for a in f[2]:
                    t = ("sub", args[0], a)
                    p.effects.append(Effect("subscript", t, node=node, maybe=maybe))
                    outs.append(t)
                return outs[0] if len(outs) == 1 else ("tuple", tuple(outs))
            if fq == "functools.partial" and f[2]:
                return self.call(f[2][0], list(f[2][1:]) + list(args), list(f[3]) + list(kwargs), p, node, maybe)
        if nostar and not kwargs:
            fq = self.ext_qualname(f)
            kind = None
            if f == ("builtin", "filter") and len(args) == 2:
                kind = "filter"
            elif fq == "itertools.filterfalse" and len(args) == 2:
                kind = "filterfalse"
            elif f == ("builtin", "map") and len(args) == 2:
                kind = "map"
            if kind is not None:
                uid = self.uid()
                b = ("bound", "_x", uid)
                q = Path(dict(p.env))
                q._choices, q._cpos = [], 0
                try:
                    if kind == "map":
                        elt, conds = self.apply_callable(args[0], [b], q, node, True), ()
                    else:
                        c = b if args[0] == NONE else self.apply_callable(args[0], [b], q, node, True)
                        elt, conds = b, ((c,) if kind == "filter" else (("unop", "not", c),))
                except (_NeedChoice, _PathEnded):
                    elt = None
                if elt is not None:
                    for e in q.effects:
                        e.maybe = True
                        p.effects.append(e)
                    t = fuse_comp(("comp", "gen", uid, elt, ((b, args[1], conds),)))
                    self.comps[uid] = (node, t)
                    return t
        if f[0] == "attr" and f[2] == "rsplit" and len(args) <= 1 and not kwargs:
            f = ("attr", f[1], "split")  # without maxsplit the direction does not matter
        rec = self._record_construct(f, args, kwargs)
        if rec is not None:
            return rec
        if f[0] == "attr" and f[1][0] == "global" and f[2] in ("search", "match", "fullmatch", "sub", "subn", "findall", "finditer", "split") and f[1][1] in self.p.modules:
            # P = re.compile(TEXT) at module level;  P.search(s)  ==  re.search(TEXT, s)
            m_ = self.p.modules[f[1][1]]
            vals = m_.assigns.get(f[1][2]) or []
            if len(vals) == 1 and isinstance(vals[0], ast.Call) and len(vals[0].args) == 1 and not vals[0].keywords:
                fr = self.p.resolve_global_expr(m_, vals[0].func)
                if fr and fr[0] == "ext" and fr[1] == "re.compile":
                    from .fold import Unfoldable
                    try:
                        text = _folder_of(self.p).eval(vals[0].args[0], m_)
                    except Unfoldable:
                        text = None
                    re_name = [k for k, v in m_.imports.items() if v == ("module", "re")]
                    if isinstance(text, str) and re_name and isinstance(vals[0].func, ast.Attribute):
                        return self.call(("attr", ("global", m_.name, re_name[0]), f[2]), [("const", text)] + list(args), kwargs, p, node, maybe)
        if f[0] == "attr" and f[2] == "get" and M_is_call(f[1]) and f[1][1][0] == "attr" and f[1][1][2] == "groupdict" and not f[1][2] and not f[1][3] and 1 <= len(args) <= 2 and not kwargs and nostar:
            # m.groupdict().get(k, d)  ==  m.group(k) if k in m.groupdict() else d
            m_t = f[1][1][1]
            return ("ifexp", ("compare", ("in",), (args[0], f[1])), ("call", ("attr", m_t, "group"), (args[0],), ()), args[1] if len(args) == 2 else NONE)
        if f == ("builtin", "list") and len(args) == 1 and not kwargs and (args[0][0] == "list" or (args[0][0] == "comp" and args[0][1] == "list")):
            return args[0]  # a copy of a list that nobody else holds
        callee = self.resolve_package_callee(f, p)
        if callee is not None and nostar:
            args, kwargs = canonical_args(callee[0], callee[1], args, kwargs)
        t = ("call", f, tuple(args), tuple(kwargs))
        if f[0] == "attr" and f[2] == "format" and f[1][0] == "const" and isinstance(f[1][1], str) and nostar:
            fs = format_call_as_fstr(f[1][1], list(args), list(kwargs))
            if fs is not None:
                return fs
        p.effects.append(Effect("call", t, node=node, maybe=maybe))
        if callee is not None and self.inlinable(callee[0]):
            stats = _INLINE_STATS.setdefault(id(self.p), {"ok": set(), "fail": set()})
            r = self.inline(callee[0], callee[1], t, p, node, maybe=maybe)
            if r is not NotImplemented:
                stats["ok"].add(callee[0].qualname)
                return r
            stats["fail"].add(callee[0].qualname)
        elif callee is not None and callee[0] is not self.fn and callee[0].name not in ANCHORS and not callee[0].name.startswith("__") and callee[0].qualname not in self.inline_stack:
            # a package function that could not be put in place here (nesting limit, generator, nested def): it is not a helper whose body
            # is seen through its callers — the closure scans must look at it as a function of its own
            _INLINE_STATS.setdefault(id(self.p), {"ok": set(), "fail": set()})["fail"].add(callee[0].qualname)
        # mutation of a local container through a method
        fnode = getattr(node, "func", None)
        if isinstance(fnode, ast.Attribute) and fnode.attr in MUTATORS and isinstance(fnode.value, ast.Name) and f[0] == "attr" and f[2] == fnode.attr:
            nm = fnode.value.id
            if nm in p.env:
                cur = p.env[nm]
                if cur[0] == "list" and fnode.attr == "append" and len(args) == 1 and not kwargs and args[0][0] != "star":
                    p.env[nm] = ("list", cur[1] + (args[0],))  # [a].append(b) is [a, b]
                elif cur[0] == "list" and fnode.attr == "extend" and len(args) == 1 and not kwargs and args[0][0] in ("list", "tuple") and not any(x[0] == "star" for x in args[0][1]):
                    p.env[nm] = ("list", cur[1] + tuple(args[0][1]))
                else:
                    p.env[nm] = ("mut", cur, fnode.attr, tuple(args))
        return t

    _NOT_RECORD_FIELDS = {"end", "start", "group", "groups", "span", "string", "pos", "endpos", "re", "count", "index", "real", "imag", "name", "value", "args", "keys", "values", "items", "get", "pattern", "flags", "inv", "inverse"}

    def _record_field(self, b, attr):
        """x.field for a record (namedtuple) value x == the tuple element: records are analysed as plain tuples."""
        prog = self.p
        if not getattr(prog, "namedtuples", None):
            return None
        idx = None
        if M_is_call(b):
            r = self.resolve_package_callee(b[1], None)
            if r is not None:
                fields = prog.nt_return_fields(r[0])
                if fields and attr in fields:
                    idx = fields.index(attr)
        if idx is None and b[0] == "param" and not self.inline_stack:
            # a parameter annotated with a record type
            a = self.fn.node.args
            for arg in a.posonlyargs + a.args + a.kwonlyargs:
                if arg.arg == b[1] and arg.annotation is not None:
                    r = prog.resolve_global_expr(self.module, arg.annotation) if isinstance(arg.annotation, (ast.Name, ast.Attribute)) else None
                    key = (r[1].name, r[2]) if r and r[0] == "const" else ((r[1].module.name, r[1].name) if r and r[0] == "class" else None)
                    fields = prog.namedtuples.get(key)
                    if fields and attr in fields:
                        idx = fields.index(attr)
        if idx is None:
            # by field name: only for a display, or an element taken out of a collection (loop variable, subscript)
            if attr not in prog.nt_field_index:
                return None
            if b[0] not in ("tuple", "loopvar", "bound", "carried", "loopout", "sub"):
                return None
            if b[0] != "tuple" and attr in self._NOT_RECORD_FIELDS:
                return None
            idx = prog.nt_field_index[attr]
        if b[0] == "tuple":
            if idx < len(b[1]) and not any(x[0] == "star" for x in b[1]):
                return b[1][idx]
            return None
        if b[0] == "loopvar":
            return ("loopvar", b[1], b[2], tuple(b[3]) + (idx,))
        return ("sub", b, ("const", idx))

    def _record_construct(self, f, args, kwargs):
        """RecordType(a, b=...) == the tuple (a, b)."""
        prog = self.p
        if f[0] != "global" or not getattr(prog, "namedtuples", None):
            return None
        fields = prog.namedtuples.get((f[1], f[2]))
        if fields is None:
            return None
        if any(a[0] == "star" for a in args) or any(k is None for k, _ in kwargs) or len(args) > len(fields):
            return None
        vals = dict(zip(fields, args))
        for k, v in kwargs:
            if k not in fields or k in vals:
                return None
            vals[k] = v
        if len(vals) != len(fields):
            return None
        return ("tuple", tuple(vals[x] for x in fields))

    def _elts(self, elts, p, maybe):
        return [self.expr(e, p, maybe) for e in elts]

    def _class_scalar(self, b, attr):
        cls = None
        if b[0] == "param" and self.fn.cls is not None and self.fn.params and b[1] == self.fn.params[0] and not self.fn.is_staticmethod and not self.inline_stack:
            cls = self.fn.cls
        elif b[0] == "global" and b[1] in self.p.modules:
            r = self.p.resolve_module_name(self.p.modules[b[1]], b[2])
            if r and r[0] == "class":
                cls = r[1]
        if cls is None:
            return None
        if any("Enum" in unparse(b) or "Flag" in unparse(b) for c in cls.mro() for b in c.base_exprs):
            return None  # members of an Enum are not their values
        owner, expr = cls.find_assign(attr)
        if owner is None or any(attr in sc.assigns for sc in self.p.subclasses(cls)):
            return None
        if b[0] == "param" and _attr_assigned_on_instances(self.p, cls, attr):
            return None  # a class-level default that instances replace: self.<attr> is the instance's field, not the constant
        from .fold import Unfoldable
        try:
            v = _folder_of(self.p).class_const(owner, attr)
        except Unfoldable:
            return None
        if isinstance(v, _SCALARS) and (not isinstance(v, str) or len(v) <= 400):
            return ("const", v)
        return None

    def _is_method_name(self, attr):
        old = self.p.rename_map.get(attr)
        return any(old in c.methods and getattr(c.methods[old], "renamed_from", None) == attr for c in self.p.classes.values()) or any(old in m.functions and getattr(m.functions[old], "renamed_from", None) == attr for m in self.p.modules.values())

    # -- package callees: canonical arguments and inlining ----------------
    def resolve_package_callee(self, f, p):
        """(FunctionInfo, number of leading parameters bound implicitly) for a call of a package
        function / method whose target is unambiguous, else None."""
        prog = self.p
        if f[0] == "global":
            r = prog.resolve_module_name(prog.modules[f[1]], f[2])
            if r and r[0] == "func":
                return r[1], 0
            return None
        if f[0] == "attr":
            b = f[1]
            if b[0] == "global":
                r = prog.resolve_module_name(prog.modules[b[1]], b[2])
                if r and r[0] == "module":
                    r2 = prog.resolve_module_name(r[1], f[2])
                    if r2 and r2[0] == "func":
                        return r2[1], 0
                if r and r[0] == "class":
                    m = r[1].find_method(f[2])
                    if m is not None and not any(f[2] in sc.methods for sc in prog.subclasses(r[1])):
                        return m, (1 if m.is_classmethod else 0)
                return None
            if b[0] == "call" and b[1][0] == "global" and b[1][1] in prog.modules:
                r = prog.resolve_module_name(prog.modules[b[1][1]], b[1][2])
                if r and r[0] == "class":
                    m = r[1].find_method(f[2])
                    if m is not None and not m.is_abstract and not m.is_staticmethod and not m.is_classmethod and not prog.subclasses(r[1]):
                        return m, 1
                return None
            if b[0] == "param" and self.fn.cls is not None and self.fn.params and b[1] == self.fn.params[0] and not self.fn.is_staticmethod:
                # (also inside a method that is itself being put in place in a caller: the receiver is an instance of this class or of a
                # subclass, and subclasses that re-define the method are excluded below)
                m = self.fn.cls.find_method(f[2])
                if m is None or m.is_abstract:
                    return None
                if any(f[2] in sc.methods for sc in prog.subclasses(self.fn.cls)):
                    return None
                if m.is_staticmethod:
                    return m, 0
                return m, 1
        return None

    def inlinable(self, callee):
        if callee.name in ANCHORS or callee.name.startswith("__"):
            return False
        if callee is self.fn or callee.qualname in self.inline_stack:
            return False
        if len(self.inline_stack) >= 3:
            return False
        for n in ast.walk(callee.node):
            if isinstance(n, (ast.Yield, ast.YieldFrom, ast.Await, ast.Global, ast.Nonlocal)):
                return False
            if isinstance(n, (ast.FunctionDef, ast.AsyncFunctionDef)) and n is not callee.node:
                return False
        return True

    def callee_paths(self, callee):
        key = (callee.qualname, len(self.inline_stack))
        cache = _INLINE_CACHE.setdefault(id(self.p), {})
        if key not in cache:
            ev = Evaluator(self.p, callee, inline_stack=self.inline_stack + (self.fn.qualname, callee.qualname))
            paths = [x for x in ev.run() if x.feasible()]
            cache[key] = (paths, ev)
        return cache[key]

    def inline(self, callee, skip, call_term, p, node, maybe=False):
        """Replace a call of a non-anchor package function by one of its paths (chosen by the
        statement driver), with parameters substituted by the argument terms."""
        try:
            paths, ev = self.callee_paths(callee)
        except AnalysisError:
            return NotImplemented
        if not paths or len(paths) > 64:
            return NotImplemented
        # bind
        params = callee.params[skip:]
        args, kwargs = call_term[2], call_term[3]
        mapping = {}
        if skip:
            recv = call_term[1][1] if call_term[1][0] == "attr" else None
            if recv is None:
                return NotImplemented
            mapping[("param", callee.params[0])] = recv
        if any(a[0] == "star" for a in args) or any(k is None for k, _ in kwargs):
            return NotImplemented
        if len(args) > len(params):
            if not callee.vararg:
                return NotImplemented
            mapping[("param", "*" + callee.vararg)] = ("tuple", tuple(args[len(params):]))  # *rest receives the extra positional arguments
            args = args[:len(params)]
        elif callee.vararg:
            mapping[("param", "*" + callee.vararg)] = ("tuple", ())
        for pn, a in zip(params, args):
            mapping[("param", pn)] = a
        extra_kw = []
        for k, v in kwargs:
            if k not in params and k not in callee.kwonly:
                if not callee.kwarg:
                    return NotImplemented
                extra_kw.append((("const", k), v))
                continue
            mapping[("param", k)] = v
        if callee.kwarg:
            mapping[("param", "**" + callee.kwarg)] = ("dict", tuple(extra_kw))
        for pn in list(params) + list(callee.kwonly):
            if ("param", pn) not in mapping:
                d = callee.defaults.get(pn)
                if d is None:
                    return NotImplemented
                dq = Path({})
                dev = Evaluator(self.p, callee, inline_stack=self.inline_stack + (callee.qualname,))
                try:
                    mapping[("param", pn)] = dev.expr(d, dq)
                except AnalysisError:
                    return NotImplemented
        k = len(paths)
        if maybe or not hasattr(p, "_choices"):
            # (also: a position that has no path of its own to fork — a lambda body, a comprehension element)
            # conditionally evaluated position (comprehension element, short-circuit operand): only a helper that is one straight expression —
            # a single path, no decisions, nothing stored — can be put in place there
            if k != 1 or paths[0].conds or paths[0].result is None or paths[0].result[0] != "return" or any(e.kind not in ("call", "subscript") for e in paths[0].effects):
                return NotImplemented
        if k == 1:
            idx = 0
        else:
            if p._cpos < len(p._choices):
                idx = p._choices[p._cpos]
                p._cpos += 1
            else:
                raise _NeedChoice(k)
        cp = paths[idx]
        sub = _Subst(mapping, self)
        for t, pol, n in cp.conds:
            p.conds.append((sub.term(t), pol, n))
        for e in cp.effects:
            ne = sub.effect(e)
            ne.origin = getattr(e, "origin", None) or callee
            if maybe:
                ne.maybe = True
            p.effects.append(ne)
        # mutations of arguments that are caller locals (list.extend on a parameter ...)
        for pn, a_node in zip(params, getattr(node, "args", [])):
            fin = cp.env.get(pn)
            if fin is not None and fin[0] == "mut" and isinstance(a_node, ast.Name) and a_node.id in p.env:
                p.env[a_node.id] = sub.term(fin)
        for uid, li in ev.lambdas.items():
            pass
        if cp.result is None:
            return NONE
        kind, val, rnode = cp.result
        if kind == "return":
            return sub.term(val)
        if kind == "raise":
            p.result = ("raise", sub.term(val), rnode)
            raise _PathEnded(p)
        return NotImplemented


class _IfExpFinder(ast.NodeVisitor):
    """First conditional expression of a statement that is evaluated at statement level
    (not inside a lambda / comprehension, and not in a short-circuited operand)."""

    def __init__(self):
        self.found = None

    def visit(self, node):
        if self.found is not None:
            return
        if isinstance(node, (ast.Lambda, ast.ListComp, ast.SetComp, ast.DictComp, ast.GeneratorExp)):
            return
        if isinstance(node, ast.IfExp):
            self.found = node
            return
        if isinstance(node, ast.BoolOp):
            self.visit(node.values[0])  # later operands are conditional
            return
        self.generic_visit(node)


class _Replace(ast.NodeTransformer):
    def __init__(self, target, repl):
        self.target, self.repl = target, repl

    def visit(self, node):
        if node is self.target:
            return self.repl
        return self.generic_visit(node)


def split_ifexp(st):
    """`x = f(a if c else b)`  ->  `if c: x = f(a) else: x = f(b)` (same value on each path).
    Normalises conditional expressions and if-statements to one form."""
    import copy
    value = getattr(st, "value", None)
    if value is None:
        return None
    f = _IfExpFinder()
    f.visit(value)
    if f.found is None:
        return None
    ie = f.found
    a = copy.copy(st)
    b = copy.copy(st)
    a.value = _Replace(ie, ie.body).visit(copy.deepcopy(value)) if value is not ie else ie.body
    b.value = _Replace(ie, ie.orelse).visit(copy.deepcopy(value)) if value is not ie else ie.orelse
    if value is not ie:
        # deepcopy broke node identity: redo on the copy
        v1 = copy.deepcopy(value)
        f1 = _IfExpFinder(); f1.visit(v1)
        a.value = _Replace(f1.found, f1.found.body).visit(v1) if v1 is not f1.found else f1.found.body
        v2 = copy.deepcopy(value)
        f2 = _IfExpFinder(); f2.visit(v2)
        b.value = _Replace(f2.found, f2.found.orelse).visit(v2) if v2 is not f2.found else f2.found.orelse
    node = ast.If(test=ie.test, body=[a], orelse=[b])
    ast.copy_location(node, st)
    ast.fix_missing_locations(node)
    return node


def _merge_parts(parts):
    out = []
    for x in parts:
        if x[0] == "const" and isinstance(x[1], str):
            if x[1] == "":
                continue
            if out and out[-1][0] == "const":
                out[-1] = ("const", out[-1][1] + x[1])
                continue
        out.append(x)
    return ("fstr", tuple(out))


def format_call_as_fstr(fmt, args, kwargs):
    """'..{}..'.format(a, b) as the equivalent f-string term; None if the template uses features we do not model."""
    import string as _string
    parts = []
    auto = 0
    kw = dict(kwargs)
    try:
        fields = list(_string.Formatter().parse(fmt))
    except ValueError:
        return None
    for lit, name, spec, conv in fields:
        if lit:
            parts.append(("const", lit))
        if name is None:
            continue
        if name == "":
            if auto is None:
                return None
            idx = auto
            auto += 1
            if idx >= len(args):
                return None
            val = args[idx]
        elif name.isdigit():
            auto = None if auto == 0 else auto
            if int(name) >= len(args):
                return None
            val = args[int(name)]
        elif name.isidentifier():
            if name not in kw:
                return None
            val = kw[name]
        else:
            return None
        if spec and ("{" in spec):
            return None
        parts.append(("fmt", val, conv or None, ("const", spec) if spec else None))
    return _merge_parts(parts)


def percent_as_fstr(fmt, right):
    """'..%s..' % x  /  % (a, b) as the equivalent f-string term (only bare %s / %d / %r / %%)."""
    import re as _re
    args = list(right[1]) if right[0] == "tuple" else [right]
    parts = []
    pos = 0
    i = 0
    for m in _re.finditer(r"%(.)", fmt):
        parts.append(("const", fmt[pos:m.start()]))
        pos = m.end()
        c = m.group(1)
        if c == "%":
            parts.append(("const", "%"))
            continue
        if c not in "sdr" or i >= len(args):
            return None
        parts.append(("fmt", args[i], {"s": None, "r": "r", "d": "d"}[c], None))
        i += 1
    if i != len(args):
        return None
    parts.append(("const", fmt[pos:]))
    return _merge_parts(parts)


class _NeedChoice(Exception):
    def __init__(self, k):
        self.k = k


class _PathEnded(Exception):
    def __init__(self, path):
        self.path = path


_INLINE_CACHE = {}
_INLINE_STATS = {}

# functions the rules refer to by name: never inlined (every other package function is a helper
# whose extraction or removal must not change any verdict, so calls to it are inlined, depth <= 3)
ANCHORS = {
    "_anonymize_bits", "_deanonymize_bits", "anonymize", "deanonymize", "_generate_bit_from_hash", "should_anonymize", "_is_mask",
    "make_addr", "make_addr_from_int", "get_addr_pattern", "_ip_to_str", "dump_to_file", "_anonymize_match", "anonymize_ip_addr",
    "replace_matching_item", "_anonymize_value", "_extract_enclosing_text", "_check_sensitive_item_format", "_split_line",
    "generate_default_sensitive_item_regexes", "anonymize_as_numbers", "get_as_number_pattern", "_generate_as_number_replacement",
    "_lookup_anon_word", "_get_or_generate_sensitive_word_replacement",
    "_generate_sensitive_word_regex", "_generate_conflicting_reserved_word_list", "juniper_decrypt", "juniper_nonrandom_encrypt",
    "_gap", "_gap_decode", "_gap_encode", "_nibble", "_fixedc", "anonymize_files", "anonymize_io",
    "main", "_parse_args", "host_bits",
}


def _attr_assigned_on_instances(prog, cls, attr):
    """Does any method of the class, its bases or its subclasses store `<first parameter>.<attr>` (or any `x.<attr>` for a name bound to an instance)?"""
    cache = prog.__dict__.setdefault("_inst_attr_stores", {})
    key = (cls.qualname, attr)
    if key in cache:
        return cache[key]
    found = False
    for c in set(cls.mro()) | set(prog.subclasses(cls)):
        for n in ast.walk(c.node):
            if isinstance(n, ast.Attribute) and n.attr == attr and isinstance(n.ctx, (ast.Store, ast.Del)) and not (isinstance(n.value, ast.Name) and n.value.id in ("cls", c.name)):
                found = True
    cache[key] = found
    return found


def canon_ext(prog, t):
    """The term with every reference to an object outside the package written as ("ext", dotted name), whatever the import style
    (`from binascii import b2a_hex` / `import binascii; binascii.b2a_hex` / an alias): for comparing a term with an expected shape."""
    if not isinstance(t, tuple) or not t:
        return t
    if t[0] == "global" and len(t) == 3 and t[1] in prog.modules:
        r = prog.resolve_module_name(prog.modules[t[1]], t[2])
        if r and r[0] == "ext":
            return ("ext", r[1])
        return t
    out = tuple(canon_ext(prog, x) if isinstance(x, tuple) else x for x in t)
    if out[0] == "attr" and isinstance(out[1], tuple) and out[1] and out[1][0] == "ext":
        return ("ext", out[1][1] + "." + out[2])
    return out


def const_len(prog, t):
    """len() of a module-level constant sequence / mapping / string of the package, or None."""
    if not (isinstance(t, tuple) and len(t) == 3 and t[0] == "global" and t[1] in prog.modules):
        return None
    m = prog.modules[t[1]]
    if len(m.assigns.get(t[2], ())) != 1:
        return None
    from .fold import Unfoldable
    try:
        v = _folder_of(prog).module_const(t[1], t[2])
    except Unfoldable:
        return None
    except Exception:
        return None
    if isinstance(v, (list, tuple, str, dict, set, frozenset)):
        return len(v)
    return None


def _folder_of(prog):
    f = getattr(prog, "_folder", None)
    if f is None:
        from .fold import Folder
        f = prog._folder = Folder(prog)
    return f


_SCALARS = (str, int, bool, bytes, float, type(None))


def canonical_global(prog, module, name, r):
    """Term for a module-level name: ("global", <defining package module>, <its name there>) for package
    objects, ("global", <using module>, <local name>) for anything imported from outside the package.
    A module-level name bound once to a scalar constant is replaced by the constant (constant propagation),
    so hoisting a literal into a named constant changes no term."""
    k = r[0]
    if k == "const" and len(r[1].assigns.get(r[2], ())) == 1:
        from .fold import Unfoldable
        try:
            v = _folder_of(prog).module_const(r[1].name, r[2])
            if isinstance(v, _SCALARS) and (not isinstance(v, str) or len(v) <= 400):
                return ("const", v)
        except Unfoldable:
            pass
        # a module-level callable built by a functional factory (operator.methodcaller("startswith", ".")): the factory call itself
        node = r[1].assigns[r[2]][0] if isinstance(r[1].assigns.get(r[2]), (list, tuple)) else None
        node = getattr(node, "value", node)
        if isinstance(node, ast.Call) and not node.keywords:
            fr = prog.resolve_global_expr(r[1], node.func)
            if fr and fr[0] == "ext" and fr[1] in Evaluator._FACTORIES[:3]:
                args = []
                okc = True
                for a in node.args:
                    try:
                        if isinstance(a, ast.Starred):
                            v = _folder_of(prog).eval(a.value, r[1])
                            if not isinstance(v, (tuple, list)) or not all(isinstance(x, _SCALARS) for x in v):
                                okc = False
                                break
                            args.extend(("const", x) for x in v)
                        else:
                            v = _folder_of(prog).eval(a, r[1])
                            if not isinstance(v, _SCALARS):
                                okc = False
                                break
                            args.append(("const", v))
                    except Exception:
                        okc = False
                        break
                if okc:
                    return ("call", ("ext", fr[1]), tuple(args), ())
    if k == "func":
        f = r[1]
        if f.cls is None:
            return ("global", f.module.name, f.name)
    if k == "class":
        return ("global", r[1].module.name, r[1].name)
    if k == "const":
        return ("global", r[1].name, r[2])
    return ("global", module.name, name)


def canonical_args(callee, skip, args, kwargs):
    """Keyword arguments of a call to a package function moved to their positional slot
    (as far as the positional prefix stays contiguous)."""
    params = callee.params[skip:]
    pos = list(args)
    kw = dict(kwargs)
    if len(pos) > len(params):
        return args, kwargs
    while len(pos) < len(params) and params[len(pos)] in kw:
        pos.append(kw.pop(params[len(pos)]))
    rest = tuple((k, v) for k, v in kwargs if k in kw)
    return pos, list(rest)


class _Subst:
    """Substitutes parameter leaves by argument terms and renames loop / lambda / comprehension ids
    (each inlined instance gets fresh ids)."""

    def __init__(self, mapping, evaluator):
        self.mapping = mapping
        self.ev = evaluator
        self.uids = {}
        self.loops = {}

    def uid(self, u):
        if u not in self.uids:
            self.uids[u] = self.ev.uid()
        return self.uids[u]

    def term(self, t):
        if t is None or not isinstance(t, tuple) or not t:
            return t
        if not isinstance(t[0], str):
            return tuple(self.term(x) for x in t)
        tag = t[0]
        if tag == "param":
            return self.mapping.get(t, t)
        if tag in ("const", "global", "builtin", "unknown", "unbound"):
            return t
        if tag == "loopvar":
            return ("loopvar", self.uid(t[1]), self.term(t[2]), t[3])
        if tag in ("carried", "loopout", "bound", "exc"):
            return (tag, t[1], self.uid(t[2]))
        if tag in ("inloop", "loopbreak", "loopindex"):
            return (tag, self.uid(t[1]))
        if tag == "except":
            return ("except", self.uid(t[1]), self.term(t[2]), t[3])
        if tag == "lambda":
            return ("lambda", self.uid(t[1]), t[2], self.term(t[3]))
        if tag == "comp":
            return ("comp", t[1], self.uid(t[2]), self.term(t[3]), tuple((self.term(g[0]), self.term(g[1]), tuple(self.term(c) for c in g[2])) for g in t[4]))
        if tag == "slice":
            return ("slice",) + tuple(self.term(x) if isinstance(x, tuple) else x for x in t[1:])
        out = [tag]
        for x in t[1:]:
            out.append(self.term(x) if isinstance(x, tuple) else x)
        if tag == "call" and len(out) == 4:
            # f(*rest) / f(**extra) where the substituted value is now a display: plain arguments
            if any(isinstance(a, tuple) and a and a[0] == "star" and a[1][0] in ("tuple", "list") for a in out[2]):
                flat = []
                for a in out[2]:
                    if a[0] == "star" and a[1][0] in ("tuple", "list") and not any(x[0] == "star" for x in a[1][1]):
                        flat.extend(a[1][1])
                    else:
                        flat.append(a)
                out[2] = tuple(flat)
            if any(k is None and isinstance(v, tuple) and v[0] == "dict" for k, v in out[3]):
                kws = []
                for k, v in out[3]:
                    if k is None and v[0] == "dict" and all(kk[0] == "const" and isinstance(kk[1], str) for kk, _ in v[1]):
                        kws.extend((kk[1], vv) for kk, vv in v[1])
                    else:
                        kws.append((k, v))
                out[3] = tuple(kws)
        return tuple(out)

    def effect(self, e):
        if e.kind in ("loop", "loop_partial"):
            ne = Effect(e.kind, self.loop(e.a), node=e.node, maybe=e.maybe)
        else:
            ne = Effect(e.kind, self.term(e.a) if isinstance(e.a, tuple) else e.a, self.term(e.b) if isinstance(e.b, tuple) else e.b,
                        self.term(e.c) if isinstance(e.c, tuple) else e.c, node=e.node, maybe=e.maybe)
        ne.origin = getattr(e, "origin", None)
        return ne

    def path(self, bp):
        q = Path({k: self.term(v) for k, v in bp.env.items()}, [(self.term(t), pol, n) for t, pol, n in bp.conds], [self.effect(e) for e in bp.effects])
        if bp.result is not None:
            q.result = (bp.result[0], self.term(bp.result[1]) if isinstance(bp.result[1], tuple) else bp.result[1], bp.result[2])
        return q

    def loop(self, li):
        if li.uid in self.loops:
            return self.loops[li.uid]
        nl = LoopInfo(self.uid(li.uid), li.kind, li.node)
        self.loops[li.uid] = nl
        nl.iter = self.term(li.iter) if li.iter is not None else None
        nl.test = self.term(li.test) if li.test is not None else None
        nl.target = li.target
        nl.has_else = li.has_else
        nl.enum_start = self.term(li.enum_start) if isinstance(li.enum_start, tuple) else li.enum_start
        nl.body_paths = [self.path(bp) for bp in li.body_paths]
        nl.carried = {n: (self.term(pre), [self.term(x) for x in posts]) for n, (pre, posts) in li.carried.items()}
        self.ev.loops[nl.uid] = nl
        return nl


def M_is_call(t):
    return isinstance(t, tuple) and len(t) == 4 and t[0] == "call"


def replace_terms(t, mapping):
    """Structural replacement of sub-terms (keys of `mapping`) everywhere in t."""
    if not isinstance(t, tuple) or not t:
        return t
    if t in mapping:
        return mapping[t]
    return tuple(replace_terms(x, mapping) if isinstance(x, tuple) else x for x in t)


def fuse_comp(t):
    """[e(y) for y in (g(x) for x in it if c) if d(y)]  ==  [e(g(x)) for x in it if c if d(g(x))]:
    a comprehension over a one-generator generator/list comprehension is fused into one comprehension."""
    while t[0] == "comp" and len(t[4]) == 1:
        b, it, conds = t[4][0]
        if not (isinstance(it, tuple) and it and it[0] == "comp" and it[1] in ("gen", "list") and len(it[4]) == 1):
            break
        b2, it2, conds2 = it[4][0]
        mp = {b: it[3]}
        t = ("comp", t[1], t[2], replace_terms(t[3], mp), ((b2, it2, tuple(conds2) + tuple(replace_terms(c, mp) for c in conds)),))
    return t


def bp_result_term(bp):
    return bp.result[1] if bp.result else NONE


def _target_stmt(target):
    return ast.Expr(value=target)


def _as_load(node):
    import copy

    n = copy.deepcopy(node)
    for x in ast.walk(n):
        if hasattr(x, "ctx"):
            x.ctx = ast.Load()
    return n


# ----------------------------------------------------------------------
# term utilities
# ----------------------------------------------------------------------
def subterms(t):
    """All subterms (including t) of a term, depth first."""
    if t is None:
        return
    if not isinstance(t, tuple):
        return
    if t and isinstance(t[0], str):
        yield t
        tag = t[0]
        if tag in ("const", "param", "global", "builtin", "unbound", "bound", "carried", "loopout", "exc", "unknown", "inloop", "loopbreak", "loopindex"):
            return
        if tag == "loopvar":
            for x in subterms(t[2]):
                yield x
            return
        for x in t[1:]:
            if isinstance(x, tuple):
                for y in _sub_any(x):
                    yield y
    else:
        for x in t:
            for y in _sub_any(x):
                yield y


def _sub_any(x):
    if isinstance(x, tuple):
        if x and isinstance(x[0], str) and x[0] in _TAGS:
            for y in subterms(x):
                yield y
        else:
            for e in x:
                for y in _sub_any(e):
                    yield y


_TAGS = {
    "const", "param", "global", "builtin", "unbound", "attr", "call", "binop", "unop",
    "boolop", "compare", "sub", "slice", "tuple", "list", "set", "dict", "ifexp", "comp",
    "lambda", "fstr", "fmt", "bound", "loopvar", "carried", "loopout", "mut", "exc", "star",
    "unknown", "inloop", "loopbreak", "except", "loopindex",
}


def leaves(t):
    """Root leaves of a term: params, globals, attrs-of-params (fields), loop vars, consts excluded."""
    out = set()
    for s in subterms(t):
        if s[0] in ("param", "global", "builtin", "unbound", "bound", "carried", "loopout", "exc", "unknown"):
            out.add(s)
        elif s[0] == "loopvar":
            out.add(("loopvar", s[1]))
    return out


def contains(t, sub):
    for s in subterms(t):
        if s == sub:
            return True
    return False


def strip_mut(t):
    while isinstance(t, tuple) and t and t[0] == "mut":
        t = t[1]
    return t


def is_attr(t, base, name=None):
    return isinstance(t, tuple) and t[0] == "attr" and t[1] == base and (name is None or t[2] == name)


def self_attr(name, selfname="self"):
    return ("attr", ("param", selfname), name)


def show(t, depth=0):
    if t is None:
        return ""
    if not isinstance(t, tuple) or not t:
        return repr(t)
    tag = t[0]
    if depth > 12:
        return "…"
    s = lambda x: show(x, depth + 1)
    if tag == "const":
        r = repr(t[1])
        return r if len(r) < 60 else r[:57] + "…"
    if tag == "param":
        return t[1]
    if tag == "global":
        return t[2]
    if tag == "builtin":
        return t[1]
    if tag == "unbound":
        return "?%s" % t[1]
    if tag == "attr":
        return "%s.%s" % (s(t[1]), t[2])
    if tag == "call":
        args = [s(a) for a in t[2]] + ["%s=%s" % (k, s(v)) for k, v in t[3]]
        return "%s(%s)" % (s(t[1]), ", ".join(args))
    if tag == "binop":
        return "(%s %s %s)" % (s(t[2]), t[1], s(t[3]))
    if tag == "unop":
        return "(%s %s)" % (t[1], s(t[2]))
    if tag == "boolop":
        return "(" + (" %s " % t[1]).join(s(x) for x in t[2]) + ")"
    if tag == "compare":
        out = s(t[2][0])
        for op, x in zip(t[1], t[2][1:]):
            out += " %s %s" % (op, s(x))
        return "(" + out + ")"
    if tag == "sub":
        return "%s[%s]" % (s(t[1]), s(t[2]))
    if tag == "slice":
        return "%s:%s%s" % (s(t[1]) if t[1] else "", s(t[2]) if t[2] else "", (":" + s(t[3])) if t[3] else "")
    if tag in ("tuple", "list", "set"):
        o, c = {"tuple": "()", "list": "[]", "set": "{}"}[tag]
        return o + ", ".join(s(x) for x in t[1]) + c
    if tag == "dict":
        return "{" + ", ".join("%s: %s" % (s(k), s(v)) for k, v in t[1]) + "}"
    if tag == "ifexp":
        return "(%s if %s else %s)" % (s(t[2]), s(t[1]), s(t[3]))
    if tag == "comp":
        gens = " ".join("for %s in %s%s" % (g[0][1], s(g[1]), "".join(" if " + s(c) for c in g[2])) for g in t[4])
        return "<%s %s %s>" % (t[1], s(t[3]), gens)
    if tag == "lambda":
        return "(lambda %s: %s)" % (",".join(t[2]), s(t[3]))
    if tag == "fstr":
        return "f'" + "".join(x[1] if x[0] == "const" and isinstance(x[1], str) else "{" + s(x[1]) + "}" for x in t[1]) + "'"
    if tag == "fmt":
        return s(t[1])
    if tag == "bound":
        return t[1]
    if tag == "loopvar":
        return "each(%s)%s" % (s(t[2]), "".join("[%d]" % i for i in t[3]))
    if tag == "carried":
        return "%s@head" % t[1]
    if tag == "loopout":
        return "%s@after-loop" % t[1]
    if tag == "mut":
        return "%s.%s(%s)" % (s(t[1]), t[2], ", ".join(s(x) for x in t[3]))
    if tag == "exc":
        return "exc:%s" % t[1]
    if tag == "star":
        return "*" + s(t[1])
    if tag == "unknown":
        return "<unknown %s>" % t[1]
    if tag in ("inloop", "loopbreak", "loopindex"):
        return "%s#%s" % (tag, t[1])
    if tag == "except":
        return "except %s" % s(t[2])
    return repr(t)


class FunctionPaths:
    """Cached evaluation of one function."""

    def __init__(self, program, fn):
        self.fn = fn
        ev = Evaluator(program, fn)
        self.paths = ev.run()
        self.loops = ev.loops
        self.lambdas = ev.lambdas
        self.comps = ev.comps
        self.tries = getattr(ev, "tries", {})

    def returns(self):
        return [p for p in self.paths if p.kind in ("return", "fall")]

    def raises(self):
        return [p for p in self.paths if p.kind == "raise"]

    def all_effects(self):
        """Every effect of the function, de-duplicated by node identity."""
        seen = {}
        for p in self.paths:
            if not p.feasible():
                continue
            for e, ls in walk_effects(p.effects):
                key = (id(e.node), e.kind, repr(e.a) if e.kind != "loop" and e.kind != "loop_partial" else id(e.a), repr(e.c) if e.kind in ("store_attr", "store_sub", "store_global") else None)
                if key not in seen:
                    seen[key] = (e, ls, p)
        for li in self.lambdas.values():
            for e in li.effects:
                key = (id(e.node), e.kind, repr(e.a))
                if key not in seen:
                    seen[key] = (e, (), None)
        return list(seen.values())


class Analysis:
    """Program + folder + lazily computed per-function path sets."""

    def __init__(self, program):
        from .fold import Folder

        self.p = program
        self.folder = Folder(program)
        self._fp = {}
        global _SENTINELS, _NEVER_NONE_FUNCS
        _SENTINELS = frozenset(getattr(program, "sentinels", ()))
        _NEVER_NONE_FUNCS = _compute_never_none_funcs(program)

    def paths(self, fn):
        if fn.qualname not in self._fp:
            self._fp[fn.qualname] = FunctionPaths(self.p, fn)
        return self._fp[fn.qualname]
