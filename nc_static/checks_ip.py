"""C01-C05, C17: the address-mapping properties (netconan/ip_anonymization.py and its wiring)."""
import ast
import ipaddress

from .flow import show, subterms, strip_mut, walk_effects
from .ipmodel import IpModel, memo_uses, where, SELF
from .calls import bind_args
from .fold import Unfoldable
from . import match as M

EXPECTED_DEFAULT_PREFIXES = (
    "0.0.0.0/1", "128.0.0.0/2", "192.0.0.0/3", "224.0.0.0/4", "240.0.0.0/4",
    "10.0.0.0/8", "172.16.0.0/12", "192.168.0.0/16",
)
EXPECTED_PRIVATE = ("10.0.0.0/8", "172.16.0.0/12", "192.168.0.0/16")

TRUST_IP = [
    "hashlib.md5(b).hexdigest(): pure function of b, 32 lowercase hex digits (hashlib docs)",
    "bidict: .inv is the inverse view of the same mapping; a duplicate value raises ValueDuplicationError (bidict docs)",
    "str.format('{:0Nb}', i): zero-padded binary text of exactly N digits for 0 <= i < 2**N (format spec)",
    "ipaddress.ip_network(s): .network_address / .prefixlen of the CIDR text (CPython ipaddress)",
]


def c01(ctx, rep):
    m = IpModel(ctx)
    rep.explanation = (
        "Static proof obligations that ip_anonymization.py has the shape of the canonical prefix-preserving scheme "
        "F(eps)=eps, F(h.x)=F(h).(x XOR f_salt(h)) with identity pins closed under ancestor and sibling: "
        "def-use terms of every path of _anonymize_bits/anonymize/_generate_bit_from_hash/the constructors are matched "
        "against the scheme (prefix recursion, flip bit independent of the current bit and of all state, xor, memo soundness, "
        "base case, pure one-bit salter, pins identity/siblings/all depths, host-bit split, width, no overriding). "
        "Given the obligations, prefix-length preservation and bijectivity follow for every salt, option set and address by induction on bit length."
    )
    rep.rule = "one obligation per (clause, function path); non-trivial = a term/shape comparison on a real path"
    rep.trust(*TRUST_IP)
    rep.assume("bidict never raises ValueDuplicationError on stores of (k, F(k)) pairs (follows from injectivity, not re-proved)",
               "md5 output bits are not required to be uniform: the argument is independent of hash values")
    m.check_walk(rep, "C01")
    m.check_walk(rep, "C01.inv", inverse=True)  # the inverse walk writes the shared memo too
    _gate_content(ctx, m, rep, "C01")
    m.check_salter(rep, "C01")
    m.check_base_init(rep, "C01")
    m.check_subclasses(rep, "C01")
    m.check_split(rep, "C01")
    m.check_full_store(rep, "C01")
    m.pin_facts(rep, "C01")
    _pin_iterable(m, rep, "C01")
    memo_uses(m, rep, "C01")
    _no_cross_state(m, rep, "C01")
    _gate_v6(m, rep, "C01")
    from .checks_misc import stage_state_rule
    stage_state_rule(ctx, rep, "C01", IP_STAGE_ROOTS)
    _private_merge(ctx, m, rep, "C01")  # the listed networks are pinned only if the merged list reaches the constructor as a list (collisions with a preserved block otherwise)
    _cli_binding_networks(ctx, m, rep, "C01")
    _one_anonymizer_per_run(ctx, m, rep, "C01")  # two addresses of one run are mapped by one function (a rebuilt anonymizer draws a new salt when none was given)


IP_STAGE_ROOTS = ["_BaseIpAnonymizer", "IpAnonymizer", "IpV6Anonymizer", "anonymize_ip_addr", "_anonymize_match"]


def _is_copy(t):
    """list(x) / tuple(x) / x[:] / x.copy(): a fresh sequence with the elements of x, in order."""
    if M.builtin_call(t, "list", 1) or M.builtin_call(t, "tuple", 1):
        return t[2][0]
    if t[0] == "sub" and t[2] == ("slice", None, None, None):
        return t[1]
    if t[0] == "call" and t[1][0] == "attr" and t[1][2] == "copy" and not t[2]:
        return t[1][1]
    return None


def _concat_parts(t):
    """Element sources of a sequence term, in order: a + b, x.extend(y), copies; [*a, *b] is not used by any known form."""
    inner = _is_copy(t)
    if inner is not None:
        return _concat_parts(inner)
    if t[0] == "binop" and t[1] == "+":
        return _concat_parts(t[2]) + _concat_parts(t[3])
    if t[0] == "mut" and t[2] in ("extend", "__iadd__") and len(t[3]) == 1:
        return _concat_parts(t[1]) + _concat_parts(t[3][0])
    if t[0] == "mut":
        return [("opaque", t)]
    return [t]


def _pin_iterable(m, rep, cl):
    """The pin loop iterates every element of the effective prefix list (and of the preserved networks)."""
    fn = m.f_v4init
    fp = m.A.paths(fn)
    pp = ("param", "preserve_prefixes")
    pa = ("param", "preserve_addresses")
    for path in fp.paths:
        if path.kind == "raise":
            continue
        loops = [e.a for e in path.effects if e.kind == "loop" and any(x.kind == "store_sub" and m.cacheref(x.a) for bp in e.a.body_paths for x, _ in walk_effects(bp.effects))]
        if len(loops) != 1:
            continue
        it = loops[0].iter
        w = where(fn, loops[0].node)
        root = strip_mut(it)
        # the caller's prefix collection is consumed by the pin loop only (a one-shot iterable must not be exhausted before it)
        early = []
        for e in path.effects:
            if e.kind == "loop" and e.a is loops[0]:
                break
            ts = [e.a] if e.kind == "call" else []
            for t in ts:
                for x in subterms(t):
                    if x[0] == "comp" and any(strip_mut(g[1]) == pp for g in x[4]):
                        early.append(show(x)[:80])
                    if x[0] == "call" and x[1][0] in ("builtin",) and x[1][1] in ("list", "tuple", "sorted", "set", "len", "sum", "any", "all", "iter", "next") and x[2] and strip_mut(x[2][0]) == pp:
                        early.append(show(x)[:80])
                    if x[0] == "call" and M.callee_name(x) == "join" and x[2] and strip_mut(x[2][0]) == pp:
                        early.append(show(x)[:80])
        in_iter = {show(x)[:80] for x in subterms(it)}
        early = [x for x in early if x not in in_iter]  # a copy that the pin loop itself iterates is the one consumption
        rep.ob(cl + ".prefix-list-consumed-once", fn.name, not early, "the given prefix collection is iterated before the pin loop by %s: a one-shot iterable (generator, map) would be exhausted and nothing pinned" % sorted(set(early)), w,
               key=cl + ".prefix-list-consumed-once|" + fn.name, nontrivial=False)
        # which defaulting branch is this path on?
        pp_none = None
        pa_none = None
        for t, pol, _ in path.conds:
            nt = M.is_none_test(t, pp)
            if nt is not None:
                pp_none = nt if pol else not nt
            nt = M.is_none_test(t, pa)
            if nt is not None:
                pa_none = nt if pol else not nt
            if t == pp or (t[0] == "unop" and t[1] == "not" and t[2] == pp):
                rep.fail(cl + ".prefix-defaulting", fn.name, "preserve_prefixes is tested for truthiness (%s): an explicitly empty list would be replaced by the defaults" % show(t), w,
                         key=cl + ".prefix-defaulting|truthiness")
        parts = _concat_parts(it)
        if pp_none is True:
            ok = len(parts) >= 1 and parts[0][0] == "attr" and parts[0][2] == "DEFAULT_PRESERVED_PREFIXES" and all(x == pa for x in parts[1:])
            # (whether the default list object is shared does not matter here: a mutation of it is reported by global-state / arguments-left-alone)
            rep.ob(cl + ".prefix-defaulting", fn.name + "[None]", ok,
                   "with preserve_prefixes=None the pin loop iterates %s; expected the elements of DEFAULT_PRESERVED_PREFIXES (plus the preserved networks)" % show(it), w,
                   key=cl + ".prefix-defaulting|default-copy")
        elif pp_none is False:
            ok = len(parts) >= 1 and parts[0] == pp and all(x == pa for x in parts[1:])
            rep.ob(cl + ".prefix-defaulting", fn.name + "[given]", ok,
                   "with a given list the pin loop iterates %s; expected the caller's prefixes (plus the preserved networks)" % show(it), w,
                   key=cl + ".prefix-defaulting|given")
        else:
            rep.fail(cl + ".prefix-defaulting", fn.name, "no `preserve_prefixes is None` test on path %s" % path.describe(), w)
        # anti-collision: preserved networks are pinned too
        if pa_none is False:
            rep.ob(cl + ".preserved-networks-pinned", fn.name, pa in parts[1:],
                   "with preserve_addresses given the pin loop iterates %s; every preserved network must also be a pinned prefix (anti-collision)" % show(it), w,
                   key=cl + ".preserved-networks-pinned|" + fn.name)
        elif pa_none is True:
            rep.ob(cl + ".preserved-networks-pinned", fn.name + "[none]", pa not in parts, "without preserve_addresses the pin loop iterates %s" % show(it), w, nontrivial=False)
        rep.sample({"pin_loop_iterable": show(it), "path": path.describe()})


def _no_cross_state(m, rep, cl):
    """Outside constructors the anonymizer classes assign no field; mapping functions read only constructor fields + memo."""
    ctor_fields = set(m.init_stores)
    for c in [m.base] + m.p.subclasses(m.base):
        for name, f in c.methods.items():
            fp = m.A.paths(f)
            for e, ls, path in fp.all_effects():
                if e.kind == "store_attr":
                    ok = name == "__init__"
                    rep.ob(cl + ".field-write", "%s.%s.%s" % (c.name, name, e.b), ok, "field %s assigned in %s" % (e.b, f.qualname), where(f, e.node), nontrivial=False)
                if e.kind == "store_sub" and not m.cacheref(e.a):
                    root = strip_mut(e.a)
                    if root[0] in ("attr", "global"):
                        rep.fail(cl + ".state-write", "%s.%s" % (c.name, name), "store into non-memo state: %r" % e, where(f, e.node))
                if e.kind == "store_global":
                    rep.fail(cl + ".state-write", "%s.%s" % (c.name, name), "global %s assigned" % e.a, where(f, e.node))
    # module-level functions of the ip module that run per match must not keep state either
    for f in (m.f_match, m.f_addr, m.f_salter):
        fp = m.A.paths(f)
        for e, ls, path in fp.all_effects():
            if e.kind in ("store_sub", "store_attr", "store_global"):
                rep.fail(cl + ".state-write", f.name, "per-match function writes state: %r" % e, where(f, e.node))
            if e.kind == "call" and M.callee_name(e.a) in ("setdefault", "update", "append", "add", "setattr", "put", "forceput"):
                rep.fail(cl + ".state-write", f.name, "per-match function mutates state: %s" % show(e.a), where(f, e.node))
    # reads of mapping functions: only constructor-only fields and the memo
    allowed = ctor_fields | {m.f_fwd.name, m.f_inv.name, m.f_anon.name, m.f_dean.name, "_ip_to_str", "make_addr_from_int", "make_addr", "_is_mask", "should_anonymize", "get_addr_pattern"}
    for c in [m.base] + m.p.subclasses(m.base):
        allowed |= set(c.methods)
    for f in (m.f_anon, m.f_fwd, m.f_dean, m.f_inv):
        fp = m.A.paths(f)
        seen = set()
        for e, ls, path in fp.all_effects():
            for t in [x for x in (e.a, e.b, e.c) if isinstance(x, tuple)]:
                for s in subterms(t):
                    if s[0] == "attr" and s[1] == SELF:
                        seen.add(s[2])
                    if s[0] == "global":
                        r = m.p.resolve_module_name(m.p.modules[s[1]], s[2])
                        if r and r[0] == "const":
                            rep.fail(cl + ".global-read", f.name, "mapping function reads module-level state %s" % s[2], where(f, e.node))
        for path in fp.paths:
            if path.result and isinstance(path.result[1], tuple):
                for s in subterms(path.result[1]):
                    if s[0] == "attr" and s[1] == SELF:
                        seen.add(s[2])
        extra = seen - allowed
        rep.ob(cl + ".reads", f.name, not extra, "fields read by %s: %s (not set in the constructor: %s)" % (f.name, sorted(seen), sorted(extra)), where(f))


# ----------------------------------------------------------------------
def _undo_threading(ctx, m, rep, cl):
    """Value flow of the undo flag from main to _anonymize_match, and direction dispatch."""
    p, A, G = ctx.p, ctx.A, ctx.G
    f_match = m.f_match
    rep.analysed(f_match)
    fp = A.paths(f_match)
    anonp, matchp, undop = [("param", x) for x in f_match.params[:3]]
    dirs = {}
    for path in fp.paths:
        w = where(f_match, path.result[2] if path.result else f_match.node)
        if path.kind != "return":
            rep.fail(cl + ".match-total", f_match.name, "a path of _anonymize_match does not return a string", w)
            continue
        r = path.returned()
        # gate
        gate = None
        for t, pol, _ in path.conds:
            u = t
            neg = False
            if u[0] == "unop" and u[1] == "not":
                u, neg = u[2], True
            if M.is_call(u) and u[1] == ("attr", anonp, "should_anonymize"):
                gate = (pol != neg)
        if gate is None:
            rep.fail(cl + ".gate", f_match.name, "path %s is not guarded by should_anonymize" % path.describe(), w)
            continue
        if gate is False:
            rep.ob(cl + ".gate-identity", f_match.name, r == matchp,
                   "skipped values return %s; expected the matched text itself (exactly as written)" % show(r), w,
                   key=cl + ".gate-identity|" + f_match.name)
            continue
        # direction
        pol_undo = None
        for t, pol, _ in path.conds:
            if t == undop:
                pol_undo = pol
            elif t[0] == "unop" and t[1] == "not" and t[2] == undop:
                pol_undo = not pol
        calls = [e.a for e, ls in path.calls()]
        dean = [c for c in calls if c[1] == ("attr", anonp, m.f_dean.name)]
        anon = [c for c in calls if c[1] == ("attr", anonp, m.f_anon.name)]
        if pol_undo is None:
            rep.fail(cl + ".dispatch", f_match.name, "path %s does not branch on the undo flag" % path.describe(), w)
            continue
        want, other = (dean, anon) if pol_undo else (anon, dean)
        ok = len(want) == 1 and not other
        rep.ob(cl + ".dispatch", "%s[undo=%s]" % (f_match.name, pol_undo), ok,
               "undo=%s calls %s" % (pol_undo, [show(c) for c in dean + anon]), w, key="%s.dispatch|%s" % (cl, pol_undo))
        if ok:
            call = want[0]
            ipint = ("call", ("builtin", "int"), (("call", ("attr", anonp, "make_addr"), (matchp,), ()),), ())
            rep.ob(cl + ".dispatch-arg", "%s[undo=%s]" % (f_match.name, pol_undo), call[2] == (ipint,), "argument %s; expected int(make_addr(match))" % show(call[2][0]), w)
            exp = ("call", ("builtin", "str"), (("call", ("attr", anonp, "make_addr_from_int"), (call,), ()),), ())
            rep.ob(cl + ".canonical-text", "%s[undo=%s]" % (f_match.name, pol_undo), r == exp, "returns %s; expected str(make_addr_from_int(<image>))" % show(r), w)
            # gate evaluated on the same integer
            for t, pol, _ in path.conds:
                u = t[2] if (t[0] == "unop" and t[1] == "not") else t
                if M.is_call(u) and u[1] == ("attr", anonp, "should_anonymize"):
                    rep.ob(cl + ".gate-arg", f_match.name, u[2] == (ipint,), "gate argument %s" % show(u[2][0]) if u[2] else "none", w)
    # anonymize_ip_addr: callable replacement passing the flag through
    f_addr = m.f_addr
    rep.analysed(f_addr)
    fa = A.paths(f_addr)
    ap, lp, up = [("param", x) for x in f_addr.params[:3]]
    for path in fa.paths:
        r = path.returned()
        w = where(f_addr, path.result[2] if path.result else f_addr.node)
        ns = M.norm_sub(r)
        if ns is None or ns[3] is not None:
            rep.fail(cl + ".sub-plumbing", f_addr.name, "returns %s; expected pattern.sub(callable, line)" % show(r), w)
            continue
        pat, repl, line = ns[0], ns[1], ns[2]
        rep.ob(cl + ".sub-pattern", f_addr.name, pat == ("call", ("attr", ap, "get_addr_pattern"), (), ()), "pattern is %s; expected the anonymizer's own pattern" % show(pat), w)
        rep.ob(cl + ".sub-line", f_addr.name, line == lp, "substitution runs over %s; expected the whole line parameter" % show(line), w)
        if repl[0] != "lambda":
            rep.fail(cl + ".sub-callable", f_addr.name, "replacement is %s; must be a callable (a template string would be interpreted)" % show(repl), w)
            continue
        body = repl[3]
        mvar = ("bound", repl[2][0], repl[1])
        okb = M.is_call(body) and body[1] == ("global", f_match.module.name, f_match.name)
        b = bind_args(body, f_match) if okb else None
        okb = okb and b is not None and b.get(f_match.mparams[0]) == ap and b.get(f_match.mparams[1]) is not None and M.group0(b.get(f_match.mparams[1]), mvar) and b.get(f_match.mparams[2]) == up
        rep.ob(cl + ".sub-callable", f_addr.name, okb,
               "callback is %s; expected _anonymize_match(anonymizer, match.group(0), undo_ip_anon)" % show(repl), w, key=cl + ".sub-callable|" + f_addr.name)
    # a caller that does not mention the direction anonymizes: every default of an undo parameter is False
    for f_ in (f_addr, p.find_function("FileAnonymizer.__init__"), p.find_function("anonymize_files")):
        for pn, d in f_.defaults.items():
            if "undo" in pn:
                okv, dv = ctx.folder.try_eval(d, f_.module)
                okd = (isinstance(d, ast.Constant) and d.value is False) or (okv and dv is False)  # a named constant that folds to False is the same default
                rep.ob(cl + ".undo-default", "%s(%s)" % (f_.name, pn), okd, "default of %s in %s is %s; a call that does not give the direction must anonymize, not undo" % (pn, f_.qualname, ast.unparse(d)), where(f_, d), key="%s.undo-default|%s" % (cl, f_.name))
    # FileAnonymizer.anonymize_io: both IP call sites receive self.undo_ip_anon
    f_io = p.find_function("FileAnonymizer.anonymize_io")
    f_fa = p.find_function("FileAnonymizer.__init__")
    rep.analysed(f_io)
    sites = [cs for cs in G.by_owner.get(f_io.qualname, []) if f_addr in cs.funcs()]
    seen = {}
    for cs in sites:
        b = bind_args(cs.term, f_addr)
        an = b.get(f_addr.mparams[0]) if b else None
        fl = b.get(f_addr.mparams[2]) if b else None
        seen[show(an)] = fl
        ok = fl is not None and fl[0] == "attr" and fl[1] == SELF
        rep.ob(cl + ".undo-at-call-site", "anonymize_io:%s" % show(an), ok, "%s receives undo flag %s; expected the constructor's undo field" % (show(an), show(fl)), cs.where,
               key="%s.undo-at-call-site|%s" % (cl, show(an)))
    rep.ob(cl + ".undo-call-sites", "anonymize_io", len(seen) >= 2, "IP stage call sites found for %s" % sorted(seen), where(f_io))
    flags = {show(v) for v in seen.values() if v}
    rep.ob(cl + ".undo-same-flag", "anonymize_io", len(flags) == 1, "both IP stages receive the same flag: %s" % sorted(flags), where(f_io))
    # the field is the constructor parameter
    undo_field = None
    for path in A.paths(f_fa).paths:
        for e, ls in path.stores():
            if e.kind == "store_attr" and e.a == SELF and e.c == ("param", "undo_ip_anon"):
                undo_field = e.b
    rep.ob(cl + ".undo-field", "FileAnonymizer.__init__", undo_field is not None and flags == {"self.%s" % undo_field}, "self.%s = undo_ip_anon (flag used at call sites: %s)" % (undo_field, sorted(flags)), where(f_fa))
    # anonymizers exist when anon_ip or undo_ip_anon
    _ip_stage_condition(ctx, m, rep, cl)
    # anonymize_files -> FileAnonymizer, main -> anonymize_files
    f_files = p.find_function("anonymize_files")
    f_main = p.find_function("netconan.main")
    for cs in G.by_owner.get(f_files.qualname, []):
        if any(c.name == "FileAnonymizer" for c in cs.classes()):
            b = bind_args(cs.term, f_fa, 1)
            rep.ob(cl + ".undo-files", "anonymize_files", b is not None and b.get("undo_ip_anon") == ("param", "undo_ip_anon"), "FileAnonymizer(undo_ip_anon=%s)" % (show(b.get("undo_ip_anon")) if b else None), cs.where)
    for cs in G.by_owner.get(f_main.qualname, []):
        if f_files in cs.funcs():
            b = bind_args(cs.term, f_files)
            v = b.get("undo_ip_anon") if b else None
            ok = v is not None and v[0] == "attr" and v[2] == "undo"
            rep.ob(cl + ".undo-main", "main", ok, "anonymize_files(undo_ip_anon=%s); expected args.undo" % show(v), cs.where, key=cl + ".undo-main|main")
            break


def _ip_stage_condition(ctx, m, rep, cl):
    """FileAnonymizer creates the address anonymizers iff anon_ip or undo_ip_anon; arguments independent of undo."""
    p, A, G = ctx.p, ctx.A, ctx.G
    f_fa = p.find_function("FileAnonymizer.__init__")
    fp = A.paths(f_fa)
    created_when = {}
    for path in fp.paths:
        if path.kind == "raise":
            continue
        made = set()
        for e, ls in path.calls():
            ts = G.types_of(e.a[1], f_fa)
            for t in ts:
                if t[0] == "cls" and m.base in t[1].mro():
                    made.add(t[1].name)
                    args = e.a[2] + tuple(v for k, v in e.a[3])
                    dep = [show(a) for a in args if any(s == ("param", "undo_ip_anon") or (s[0] == "attr" and s[2] == "undo_ip_anon") for s in subterms(a))]
                    rep.ob(cl + ".same-options-both-ways", t[1].name, not dep, "constructor arguments of %s that depend on the undo flag: %s" % (t[1].name, dep), where(f_fa, e.node), nontrivial=False)
        cond = None
        for t, pol, _ in path.conds:
            leaves = {s for s in subterms(t) if s in (("param", "anon_ip"), ("param", "undo_ip_anon"))}
            if leaves:
                t, neg = type(path)._norm_atom(t)  # `if not enabled: return None` is the same decision with the arms swapped
                cond = (t, (not pol) if neg else pol)
        key = (show(cond[0]), cond[1]) if cond else None
        created_when.setdefault(key, set()).update(made or {"-"})
    ok = False
    for (k, made) in created_when.items():
        pass
    want = ("boolop", "or", (("param", "anon_ip"), ("param", "undo_ip_anon")))
    want2 = ("boolop", "or", (("param", "undo_ip_anon"), ("param", "anon_ip")))
    good = True
    for k, made in created_when.items():
        if k is None:
            good = False
            continue
        t_s, pol = k
        is_or = t_s in (show(want), show(want2))
        if not is_or:
            good = False
        if pol and made != {m.v4.name, m.v6.name}:
            good = False
        if not pol and made != {"-"}:
            good = False
    rep.ob(cl + ".ip-stage-condition", "FileAnonymizer.__init__", good and bool(created_when),
           "address anonymizers created under: %s; expected both families exactly when (anon_ip or undo_ip_anon)" % {str(k): sorted(v) for k, v in created_when.items()}, where(f_fa),
           key=cl + ".ip-stage-condition|FileAnonymizer.__init__")


def c02(ctx, rep):
    m = IpModel(ctx)
    rep.explanation = (
        "Static obligations that the inverse walk recomputes each flip bit from the RECOVERED original prefix (so it is the exact inverse of the forward map "
        "on a cold cache, for every salt/options/address), that forward and inverse are sibling implementations agreeing on salter, salt, xor idiom, slices, host-bit field "
        "and guard, that the memo is read/written only through the view of its direction (bidict .inv), and that the undo flag flows main -> anonymize_files -> FileAnonymizer "
        "-> both address call sites -> _anonymize_match where it selects deanonymize/anonymize behind the same should_anonymize gate; constructor arguments do not depend on the flag."
    )
    rep.rule = "one obligation per (clause, path/call site); compares def-use terms of the two walks and the call-argument bindings of the undo flag"
    rep.trust(*TRUST_IP)
    rep.assume("C01's obligations (F is a bijection at every node) — re-checked here for the forward walk as the sibling reference")
    _stage_families(ctx, m, rep, "C02")
    from .checks_misc import argument_mutation_rule as _amr
    _amr(ctx, rep, "C02", [f for f in [c.find_method("__init__") for c in [m.base] + m.p.subclasses(m.base)] if f is not None])  # "the same options": the caller's lists are what they were when the undo run is set up
    m.check_subclasses(rep, "C02")  # both directions run the base's functions for both families (method resolution order)
    fwd = m.check_walk(rep, "C02.fwd")
    inv = m.check_walk(rep, "C02", inverse=True)
    m.check_split(rep, "C02.fwd")
    m.check_split(rep, "C02", inverse=True)
    # sibling agreement on the xor idiom class
    if fwd and inv:
        same = {f["bit"].replace(m.f_fwd.name, "W") for f in fwd}
        rep.ob("C02.sibling-agreement", "walks", len(fwd) == len(inv), "forward miss paths %d, inverse miss paths %d" % (len(fwd), len(inv)), where(m.f_inv))
    m.check_salter(rep, "C02")
    m.check_base_init(rep, "C02")
    _undo_threading(ctx, m, rep, "C02")
    memo_uses(m, rep, "C02")
    from .checks_misc import stage_state_rule
    stage_state_rule(ctx, rep, "C02", IP_STAGE_ROOTS)
    # deanonymize must not store a full entry through the direct view keyed by anonymized bits
    fp = m.A.paths(m.f_dean)
    for path in [x for x in fp.paths if x.feasible()]:
        for e, ls in path.stores():
            if e.kind == "store_sub" and m.cacheref(e.a) == "direct":
                rep.fail("C02.direction", m.f_dean.name, "deanonymize writes the direct view: %r" % e, where(m.f_dean, e.node))
        for e, ls in path.calls():
            lk = m.lookup(e.a)
            if lk and lk[0] == "direct":
                rep.fail("C02.direction", m.f_dean.name, "deanonymize reads the memo through the direct (forward) view: %s" % show(e.a), where(m.f_dean, e.node), key="C02.direction|deanonymize-direct-read")
    fp = m.A.paths(m.f_anon)
    for path in [x for x in fp.paths if x.feasible()]:
        for e, ls in path.calls():
            lk = m.lookup(e.a)
            if lk and lk[0] == "inverse":
                rep.fail("C02.direction", m.f_anon.name, "anonymize reads the memo through the inverse view: %s" % show(e.a), where(m.f_anon, e.node))
    _private_merge(ctx, m, rep, "C02.private-both-ways", undo_independent_only=True)
    _salt_defaulting(ctx, rep, "C02")
    _gate_content(ctx, m, rep, "C02")
    m.pin_facts(rep, "C02")  # an exempt (preserved) block that is not pinned lets images land in it, which are then never undone
    _pin_iterable(m, rep, "C02")
    # file-level round trip: both address stages run on every line, whatever the line contains, in both directions
    from .checks_pipe import line_loop_rules, independent_wiring
    line_loop_rules(ctx, rep, "C02")
    from .checks_pipe import stream_open_rule
    stream_open_rule(ctx, rep, "C02")
    _gate_v6(m, rep, "C02")  # an image that lands in a block the gate skips is never undone
    from .checks_pipe import import_clauses
    from . import checks_rx as _rx
    from .checks_pipe import c19 as _c19
    import_clauses(ctx, rep, "C02", "C19", _c19, ("C19.binding", "C19.options-not-rewritten"))  # "the same salt and options": what the user gave is what both runs use (salt="" is a salt)
    import_clauses(ctx, rep, "C02", "C06", _rx.c06, ("C06.ipv6-body", "C06.ipv6-hex-", "C06.ipv4-body", "C06.ipv4-complete", "C06.ipv4-exact"))  # undo on files finds every image again only if every address text is matched
    independent_wiring(ctx, rep, "C02", only=("anonymizer4", "anonymizer6"))


def c03(ctx, rep):
    m = IpModel(ctx)
    rep.explanation = (
        "Invariant 'every memo entry is (k, F(k))': complete inventory of every reference to the memo field in the package (writers, readers, escapes), "
        "each writer's stored pair compared with the value its function returns for that key, no other cross-request state (field-write inventory of the anonymizer classes, "
        "no module-level mutable state read by mapping functions, no nondeterministic callee), stratification of full-length entries when host bits are kept, "
        "and one anonymizer pair per anonymize_files call constructed before the file loop."
    )
    rep.rule = "one obligation per memo reference / field write / stored pair; non-trivial = writer or escape classification"
    rep.trust(*TRUST_IP)
    rep.assume("bidict duplicate-value exceptions do not occur for (k, F(k)) pairs")
    m.check_walk(rep, "C03")
    m.check_walk(rep, "C03.inv", inverse=True)
    m.check_full_store(rep, "C03")
    m.check_base_init(rep, "C03")
    m.check_salter(rep, "C03")
    m.pin_facts(rep, "C03")
    uses = memo_uses(m, rep, "C03")
    rep.stat("memo_references", len(uses))
    writers = sorted({q for k, q in uses if k == "write"})
    rep.ob("C03.writer-floor", "memo", len(writers) >= 4, "memo writers found: %s (floor 4 confirmed by hand)" % writers, "", nontrivial=False)
    _no_cross_state(m, rep, "C03")
    # stratification: the walks are only called with the full bits (s == 0) or bits[:-s]
    for f in m.p.all_functions():
        for cs in m.G.by_owner.get(f.qualname, []):
            for callee in cs.funcs():
                if callee in (m.f_fwd, m.f_inv) and f not in (m.f_fwd, m.f_inv, m.f_anon, m.f_dean) and f.qualname not in ctx.helpers:
                    rep.fail("C03.stratification", f.qualname, "the recursive walk is called from outside anonymize/deanonymize: %s" % show(cs.term), cs.where)
    # file level: one FileAnonymizer per anonymize_files, before the loop
    _one_anonymizer_per_run(ctx, m, rep, "C03")
    m.check_subclasses(rep, "C03")  # the functions analysed are the functions every family object runs (method resolution order)
    # salt defaulting must not replace a given salt
    _salt_defaulting(ctx, rep, "C03")
    _pin_iterable(m, rep, "C03")
    from .checks_misc import argument_mutation_rule, stage_state_rule
    stage_state_rule(ctx, rep, "C03", IP_STAGE_ROOTS)
    _undo_threading(ctx, m, rep, "C03")
    from .checks_pipe import line_loop_rules as _llr
    _llr(ctx, rep, "C03")  # the image of an address does not depend on where in a (long) line it stands
    _gate_content(ctx, m, rep, "C03")  # whether an address is mapped at all depends on the address and the options only, not on the memo
    argument_mutation_rule(ctx, rep, "C03", [f for f in [c.find_method("__init__") for c in [m.base] + m.p.subclasses(m.base)] if f is not None])
    m.check_split(rep, "C03")
    m.check_split(rep, "C03.undo", inverse=True)
    for f, bad in ((m.f_dean, "direct"), (m.f_inv, "direct"), (m.f_anon, "inverse"), (m.f_fwd, "inverse")):
        for path in [x for x in m.A.paths(f).paths if x.feasible()]:
            for e, ls in path.calls():
                lk = m.lookup(e.a)
                if lk and lk[0] == bad:
                    rep.fail("C03.direction", f.name, "%s reads the memo through the %s view: %s (a request of the other direction can then change this answer)" % (f.name, bad, show(e.a)), where(f, e.node), key="C03.direction|%s" % f.name)


def _one_anonymizer_per_run(ctx, m, rep, cl):
    p, A, G = ctx.p, ctx.A, ctx.G
    f_files = p.find_function("anonymize_files")
    rep.analysed(f_files)
    fp = A.paths(f_files)
    n = 0
    for path in fp.paths:
        if path.kind == "raise":
            continue
        ctor = []
        for e, ls in walk_effects(path.effects):
            if e.kind == "call" and any(t[0] == "cls" and t[1].name == "FileAnonymizer" for t in G.types_of(e.a[1], f_files)):
                ctor.append((e, ls))
        n += 1
        ok = len(ctor) == 1 and not ctor[0][1]
        rep.ob(cl + ".one-anonymizer", "anonymize_files", ok, "FileAnonymizer constructions on path: %d, inside a loop: %s" % (len(ctor), [bool(ls) for _, ls in ctor]), where(f_files), nontrivial=False)
    # module-level registries of anonymizers (a cache shared between runs) are forbidden
    f_fa = p.find_function("FileAnonymizer.__init__")
    for path in A.paths(f_fa).paths:
        for e, ls in path.stores():
            if e.kind == "store_attr" and e.b in ("anonymizer4", "anonymizer6") and e.c != ("const", None):
                ts = G.types_of(e.c, f_fa)
                fresh = M.is_call(e.c) and all(t[0] == "inst" for t in ts) and bool(ts)
                rep.ob(cl + ".fresh-anonymizer", "FileAnonymizer.%s" % e.b, fresh, "self.%s = %s; must be a freshly constructed anonymizer (no registry / reuse across runs)" % (e.b, show(e.c)), where(f_fa, e.node),
                       key="%s.fresh-anonymizer|%s" % (cl, e.b))
    _stage_families(ctx, m, rep, cl)


def _stage_families(ctx, m, rep, cl):
    """The field the IPv4 pass reads holds the IPv4 anonymizer and the field the IPv6 pass reads the IPv6 one (the passes are told apart
    by field in the line loop; two objects swapped behind the names swap the order of the passes and the width of the walk)."""
    p, A, G = ctx.p, ctx.A, ctx.G
    f_fa = p.find_function("FileAnonymizer.__init__")
    want = {"anonymizer4": m.v4, "anonymizer6": m.v6}
    seen = set()
    for path in A.paths(f_fa).paths:
        for e, ls in path.stores():
            if e.kind == "store_attr" and e.b in want and e.c != ("const", None) and (e.b, e.c) not in seen:
                seen.add((e.b, e.c))
                ts = G.types_of(e.c, f_fa)
                ok = bool(ts) and all(t[0] == "inst" and t[1] is want[e.b] for t in ts)
                rep.ob(cl + ".stage-family", "FileAnonymizer.%s" % e.b, ok, "self.%s = %s (%s); expected an instance of %s" % (e.b, show(e.c)[:80], sorted(str(t[1]) for t in ts), want[e.b].name), where(f_fa, e.node),
                       key="%s.stage-family|%s" % (cl, e.b))
    rep.ob(cl + ".stage-family-found", "FileAnonymizer.__init__", {b for b, _ in seen} == set(want), "stores to the address-stage fields examined: %s" % sorted(b for b, _ in seen), where(f_fa), nontrivial=False)


def _random_call(t):
    return any(x[0] == "call" and (M.callee_name(x) in ("choice", "choices", "random", "randint", "urandom", "token_hex", "token_urlsafe", "uuid4", "getrandbits", "sample", "randrange", "token_bytes")) for x in subterms(t))


def _salt_defaulting(ctx, rep, cl):
    """self.salt is the given salt; it is replaced by a generated one only when the parameter is None
    (an explicit empty salt is a salt)."""
    p, A = ctx.p, ctx.A
    f_fa = p.find_function("FileAnonymizer.__init__")
    fp = A.paths(f_fa)
    seen = False
    ps = ("param", "salt")
    for path in fp.paths:
        if not path.feasible() or path.kind == "raise":
            continue
        stores = [e for e, ls in path.stores() if e.kind == "store_attr" and e.a == SELF and e.b == "salt"]
        if not stores:
            rep.fail(cl + ".salt-field", "FileAnonymizer.__init__", "no store to self.salt on path %s" % path.describe()[:100], where(f_fa), key=cl + ".salt-field|FileAnonymizer.__init__")
            continue
        final = stores[-1].c
        none_p = path.truth(("compare", ("is",), (ps, ("const", None))))
        none_f = path.truth(("compare", ("is",), (("attr", SELF, "salt"), ("const", None))))
        if _random_call(final):
            seen = True
            guard = none_p is True or none_f is True
            rep.ob(cl + ".salt-default-only-none", "FileAnonymizer.__init__", guard,
                   "the salt is generated under %s; must be exactly `salt is None` (an explicit empty salt must be kept)" % path.describe()[:200], where(f_fa, stores[-1].node),
                   key=cl + ".salt-default-only-none|FileAnonymizer.__init__", nontrivial=False)
        else:
            ok = final == ps and none_p is not True and none_f is not True
            rep.ob(cl + ".salt-kept", "FileAnonymizer.__init__", ok, "a given salt is stored as is (self.salt = %s under %s)" % (show(final)[:60], path.describe()[:120]), where(f_fa, stores[-1].node),
                   key=cl + ".salt-kept|FileAnonymizer.__init__", nontrivial=False)
    rep.ob(cl + ".salt-default-found", "FileAnonymizer.__init__", seen, "salt generation path found", where(f_fa), nontrivial=False)


# ----------------------------------------------------------------------
def _cli_defaults(ctx, rep, cl):
    """--preserve-prefixes / --preserve-host-bits defaults and their flow to both suffix parameters."""
    p, A, G, folder = ctx.p, ctx.A, ctx.G, ctx.folder
    f_parse = p.find_function("_parse_args")
    opts = cli_options(ctx)
    hb = opts.get("--preserve-host-bits")
    pp = opts.get("--preserve-prefixes")
    if hb is None or pp is None:
        rep.fail(cl + ".cli-options", "_parse_args", "options --preserve-host-bits / --preserve-prefixes not found", where(f_parse))
        return
    rep.ob(cl + ".host-bits-default", "--preserve-host-bits", hb["default"] == ("ok", 8), "default folds to %r; documented default is 8" % (hb["default"],), hb["where"])
    v4 = p.find_class("IpAnonymizer")
    try:
        dflt = tuple(folder.class_const(v4, "DEFAULT_PRESERVED_PREFIXES"))
    except Unfoldable as e:
        dflt = None
    ok = pp["default"][0] == "ok" and isinstance(pp["default"][1], str) and dflt is not None and pp["default"][1].split(",") == list(dflt)
    rep.ob(cl + ".prefixes-default", "--preserve-prefixes", ok, "default folds to %r; expected the comma-joined DEFAULT_PRESERVED_PREFIXES" % (pp["default"][1] if pp["default"][0] == "ok" else pp["default"],), pp["where"])
    f_main = p.find_function("netconan.main")
    f_files = p.find_function("anonymize_files")
    f_fa = p.find_function("FileAnonymizer.__init__")
    for cs in G.by_owner.get(f_main.qualname, []):
        if f_files in cs.funcs():
            b = bind_args(cs.term, f_files)
            for prm in ("preserve_suffix_v4", "preserve_suffix_v6"):
                v = b.get(prm) if b else None
                ok = v is not None and v[0] == "attr" and v[2] == hb["dest"]
                rep.ob(cl + ".host-bits-flow", "main:%s" % prm, ok, "%s = %s; expected args.%s" % (prm, show(v), hb["dest"]), cs.where, key="%s.host-bits-flow|main:%s" % (cl, prm))
            break
    for cs in G.by_owner.get(f_files.qualname, []):
        if any(c.name == "FileAnonymizer" for c in cs.classes()):
            b = bind_args(cs.term, f_fa, 1)
            for prm in ("preserve_suffix_v4", "preserve_suffix_v6", "preserve_prefixes", "preserve_networks"):
                v = b.get(prm) if b else None
                rep.ob(cl + ".host-bits-flow", "anonymize_files:%s" % prm, v == ("param", prm), "FileAnonymizer(%s=%s)" % (prm, show(v)), cs.where, key="%s.host-bits-flow|anonymize_files:%s" % (cl, prm))
    v6 = p.find_class("IpV6Anonymizer")
    for cs in G.by_owner.get(f_fa.qualname, []):
        for c in cs.classes():
            init = c.find_method("__init__")
            if c is v4:
                b = bind_args(cs.term, init, 1)
                base_b = b or {}
                checks = {"preserve_prefixes": ("param", "preserve_prefixes"), "preserve_addresses": ("param", "preserve_networks")}
                for prm, want in checks.items():
                    rep.ob(cl + ".binding", "IpAnonymizer(%s)" % prm, base_b.get(prm) == want, "IpAnonymizer(%s=%s); expected %s" % (prm, show(base_b.get(prm)), show(want)), cs.where, key="%s.binding|IpAnonymizer:%s" % (cl, prm))
                v = base_b.get("**preserve_suffix") or base_b.get("preserve_suffix")
                rep.ob(cl + ".binding", "IpAnonymizer(preserve_suffix)", v == ("param", "preserve_suffix_v4"), "IpAnonymizer(preserve_suffix=%s); expected preserve_suffix_v4" % show(v), cs.where, key="%s.binding|IpAnonymizer:preserve_suffix" % cl)
            elif c is v6:
                b = bind_args(cs.term, init, 1) or {}
                v = b.get("**preserve_suffix") or b.get("preserve_suffix")
                rep.ob(cl + ".binding", "IpV6Anonymizer(preserve_suffix)", v == ("param", "preserve_suffix_v6"), "IpV6Anonymizer(preserve_suffix=%s); expected preserve_suffix_v6" % show(v), cs.where, key="%s.binding|IpV6Anonymizer:preserve_suffix" % cl)


def _fold_term(ctx, t):
    """(True, value) for a term that denotes a compile-time constant (constants, displays, class/module constants, sep.join of those)."""
    from .fold import Unfoldable
    if t[0] == "const":
        return True, t[1]
    if t[0] in ("list", "tuple"):
        vals = [_fold_term(ctx, x) for x in t[1]]
        if all(ok for ok, _ in vals):
            return True, [v for _, v in vals] if t[0] == "list" else tuple(v for _, v in vals)
        return False, None
    try:
        if t[0] == "global" and t[1] in ctx.p.modules:
            r = ctx.p.resolve_module_name(ctx.p.modules[t[1]], t[2])
            if r and r[0] == "const":
                return True, ctx.folder.module_const(r[1].name, r[2])
        if t[0] == "attr" and t[1][0] == "global" and t[1][1] in ctx.p.modules:
            r = ctx.p.resolve_module_name(ctx.p.modules[t[1][1]], t[1][2])
            if r and r[0] == "class":
                return True, ctx.folder.class_const(r[1], t[2])
    except Unfoldable:
        return False, None
    if M.is_call(t) and t[1][0] == "attr" and t[1][2] == "join" and len(t[2]) == 1 and not t[3]:
        oks, sep = _fold_term(ctx, t[1][1])
        oka, arg = _fold_term(ctx, t[2][0])
        if oks and oka and isinstance(sep, str) and isinstance(arg, (list, tuple)) and all(isinstance(x, str) for x in arg):
            return True, sep.join(arg)
    return False, None


def parser_function(ctx):
    """The function whose paths declare the options and call parse_args: _parse_args when main calls it, main itself when main builds
    (or obtains) the parser and calls parse_args directly."""
    cached = ctx.__dict__.get("_parser_fn")
    if cached is not None:
        return cached
    p, A, G = ctx.p, ctx.A, ctx.G
    f_parse = p.find_function("_parse_args")
    f_main = p.find_function("netconan.main")
    res = f_parse
    calls_parse = any(f_parse in cs.funcs() for cs in G.by_owner.get(f_main.qualname, []))
    if not calls_parse:
        for path in A.paths(f_main).paths[:1]:
            for e, ls in path.calls():
                if M.callee_name(e.a) == "parse_args":
                    res = f_main
    ctx.__dict__["_parser_fn"] = res
    return res


def _cli_options_from_effects(ctx):
    """The add_argument calls as they are actually made: read off the call effects of _parse_args after helper inlining and
    table-loop unrolling, so declarations made through a helper, a table of specs or **kwargs are seen like literal ones."""
    p, A = ctx.p, ctx.A
    f = parser_function(ctx)
    out = {}
    for e, ls, path in A.paths(f).all_effects():
        if e.kind != "call" or not (e.a[1][0] == "attr" and e.a[1][2] == "add_argument"):
            continue
        if any(a[0] == "star" for a in e.a[2]) or any(k is None for k, _ in e.a[3]):
            return None  # an argument list that is not known statically
        flags = [a[1] for a in e.a[2] if a[0] == "const" and isinstance(a[1], str)]
        longs = [x for x in flags if x.startswith("--")]
        kw = {}
        for k, v in e.a[3]:
            ok, val = _fold_term(ctx, v)
            if ok:
                kw[k] = ("ok", val)
            elif v[0] == "global":
                kw[k] = ("node", v[2])
            else:
                kw[k] = ("node", show(v))
        name = longs[0] if longs else (flags[0] if flags else "?")
        dest = kw.get("dest", ("ok", None))[1] or (longs[0][2:].replace("-", "_") if longs else name.lstrip("-"))
        node = e.node
        out[name] = {
            "kwargs": sorted(k for k, _ in e.a[3]), "env_var": kw.get("env_var"), "nargs": kw.get("nargs"), "const": kw.get("const"),
            "flags": flags, "longs": longs, "default": kw.get("default", ("absent", None)), "type": kw.get("type"),
            "action": kw.get("action"), "required": kw.get("required"), "is_config_file": kw.get("is_config_file"),
            "choices": kw.get("choices"), "dest": dest, "where": "%s:%d (_parse_args)" % (f.module.relpath, getattr(node, "lineno", f.node.lineno)), "node": node,
        }
    return out


def cli_options(ctx):
    """Fold the add_argument calls of _parse_args: {option: {flags, default, type, action, required, dest, ...}}."""
    cached = ctx.__dict__.get("_cli_options")
    if cached is not None:
        return cached
    eff = _cli_options_from_effects(ctx)
    lit = _cli_options_literal(ctx)
    res = eff if (eff is not None and len(eff) >= len(lit)) else lit
    ctx.__dict__["_cli_options"] = res
    return res


def _cli_options_literal(ctx):
    """add_argument calls written out literally in _parse_args and the helpers it calls."""
    p, A, G, folder = ctx.p, ctx.A, ctx.G, ctx.folder
    f = parser_function(ctx)
    out = {}
    # _parse_args and the helper functions of its module it (transitively) calls
    nodes = []
    todo, seenf = [f], set()
    while todo:
        g = todo.pop()
        if g.qualname in seenf:
            continue
        seenf.add(g.qualname)
        for n in ast.walk(g.node):
            nodes.append(n)
            if isinstance(n, ast.Call) and isinstance(n.func, ast.Name):
                r = p.resolve_module_name(g.module, n.func.id)
                if r and r[0] == "func":
                    todo.append(r[1])
    for n in nodes:
        if isinstance(n, ast.Call) and isinstance(n.func, ast.Attribute) and n.func.attr == "add_argument":
            flags = []
            for a in n.args:
                ok, v = folder.try_eval(a, f.module)
                if ok and isinstance(v, str):
                    flags.append(v)
            longs = [x for x in flags if x.startswith("--")]
            kw = {}
            for k in n.keywords:
                ok, v = folder.try_eval(k.value, f.module)
                if ok:
                    kw[k.arg] = ("ok", v)
                else:
                    kw[k.arg] = ("node", ast.unparse(k.value))
            name = longs[0] if longs else (flags[0] if flags else "?")
            dest = kw.get("dest", ("ok", None))[1] or (longs[0][2:].replace("-", "_") if longs else name.lstrip("-"))
            out[name] = {
                "kwargs": sorted(k.arg or "**" for k in n.keywords), "env_var": kw.get("env_var"), "nargs": kw.get("nargs"), "const": kw.get("const"),
                "flags": flags, "longs": longs, "default": kw.get("default", ("absent", None)), "type": kw.get("type"),
                "action": kw.get("action"), "required": kw.get("required"), "is_config_file": kw.get("is_config_file"),
                "choices": kw.get("choices"), "dest": dest, "where": "%s:%d (_parse_args)" % (f.module.relpath, n.lineno), "node": n,
            }
    return out


_KNOWN_ADD_ARGUMENT_KW = {"help", "default", "action", "type", "required", "dest", "choices", "is_config_file", "metavar", "version"}


def option_spec_rule(ctx, rep, cl, only=None):
    """What the user types is what the program gets: no option converts its value (type=) except the host-bits range check, takes its value from
    somewhere else (env_var=), or swallows several words (nargs=/const=); keywords outside the reviewed set are reported, not guessed at."""
    opts = cli_options(ctx)
    n = 0
    for name, o in sorted(opts.items()):
        if only is not None and name not in only:
            continue
        n += 1
        typ = o.get("type")
        typ_ok = typ is None or (name == "--preserve-host-bits" and typ[0] == "node" and typ[1] == "host_bits") or typ == ("node", "str")
        rep.ob(cl + ".option-value-as-typed", name, typ_ok, "%s has type=%s; only --preserve-host-bits may convert its value (through host_bits): a type function runs at parse time, before validation, and changes what reaches the anonymizers" % (name, typ[1] if typ else None), o["where"],
               key="%s.option-value-as-typed|%s" % (cl, name))
        act = o.get("action")
        act_ok = act in (None, ("ok", "store"), ("ok", "store_true"), ("ok", "version"), ("ok", "help")) or (isinstance(act, tuple) and act[0] == "absent")
        rep.ob(cl + ".option-action", name, act_ok, "%s is declared with action=%s; an option holds the one value given last (command line over config file): accumulating, counting or custom actions merge values from both sources" % (name, act), o["where"],
               key="%s.option-action|%s" % (cl, name))
        extra = [k for k in o.get("kwargs", []) if k not in _KNOWN_ADD_ARGUMENT_KW]
        rep.ob(cl + ".option-source", name, not extra, "%s is declared with %s; keywords that change where the value comes from or how many words it takes (env_var, nargs, const, ...) are not part of the reviewed interface" % (name, extra), o["where"],
               key="%s.option-source|%s" % (cl, name))
    rep.ob(cl + ".option-specs", "_parse_args", n >= (len(only) if only else 12), "option declarations examined: %d" % n, "", nontrivial=False)
    # parser-level environment sources
    f = parser_function(ctx)
    for node in ast.walk(f.module.tree):  # wherever in the module the parser is created
        if isinstance(node, ast.Call) and any(k.arg in ("auto_env_var_prefix", "default_config_files", "fromfile_prefix_chars", "allow_abbrev", "prefix_chars") for k in node.keywords):
            kws = [k.arg for k in node.keywords if k.arg in ("auto_env_var_prefix", "default_config_files", "fromfile_prefix_chars", "allow_abbrev", "prefix_chars")]
            rep.fail(cl + ".option-source", "parser", "the parser is created with %s: option values would come from places the property does not mention" % kws, where(f, node), key="%s.option-source|parser" % cl)


def _merge_alternatives(v, given, depth=0):
    """All values the merge expression can take, each as a list of (kind, term) element sources; kind is
    'rfc' (the RFC 1918 table), 'user' (the user's networks), 'empty', 'none' or 'opaque'."""
    if depth > 12:
        return [[("opaque", v)]]
    inner = _is_copy(v)
    if inner is not None:
        return _merge_alternatives(inner, given, depth + 1)
    if v[0] == "attr" and v[2] == "RFC_1918_NETWORKS":
        return [[("rfc", v)]]
    if any(x[0] == "attr" and x[2] == "preserve_addresses" for x in subterms(v)) and not any(x[0] == "attr" and x[2] == "RFC_1918_NETWORKS" for x in subterms(v)) and v[0] in ("attr", "call", "sub"):
        # the user's option value (raw, or split into a list)
        return [[("user", v)]] if given else [[("none", v)]]
    if v[0] in ("list", "tuple"):
        if not v[1]:
            return [[("empty", v)]]
        return [[("opaque", v)]]
    if v[0] == "const" and v[1] is None:
        return [[("none", v)]]
    if v[0] == "binop" and v[1] == "+":
        out = []
        for a in _merge_alternatives(v[2], given, depth + 1):
            for b in _merge_alternatives(v[3], given, depth + 1):
                if any(k == "none" for k, _ in a + b):
                    out.append([("opaque", v)])  # None + list raises
                else:
                    out.append([x for x in a + b if x[0] != "empty"])
        return out
    if v[0] == "mut" and v[2] in ("extend", "__iadd__") and len(v[3]) == 1:
        return _merge_alternatives(("binop", "+", v[1], v[3][0]), given, depth + 1)
    if v[0] == "boolop":
        out = []
        items = list(v[2])
        for i, x in enumerate(items):
            last = i == len(items) - 1
            for a in _merge_alternatives(x, given, depth + 1):
                kinds = {k for k, _ in a}
                truthy = bool(kinds & {"rfc", "user", "opaque"})
                falsy = not a or kinds <= {"empty", "none"} or "opaque" in kinds
                if v[1] == "or":
                    if truthy or last:
                        out.append([y for y in a if y[0] not in ("empty", "none")])
                    if not falsy:
                        return out  # evaluation stops here on every input
                else:
                    if falsy or last:
                        out.append([y for y in a if y[0] not in ("empty", "none")])
                    if not truthy:
                        return out
        return out
    if v[0] == "ifexp":
        c = v[1]
        nt = None
        if c[0] == "compare":
            for x in subterms(c):
                if x[0] == "attr" and x[2] == "preserve_addresses" or x[0] in ("call", "sub") and any(y[0] == "attr" and y[2] == "preserve_addresses" for y in subterms(x)):
                    r = M.is_none_test(c, x)
                    if r is not None:
                        nt = r
                        break
        if nt is not None and given is not None:
            is_none = not given
            take_first = (nt and is_none) or (not nt and not is_none)
            return _merge_alternatives(v[2] if take_first else v[3], given, depth + 1)
        return _merge_alternatives(v[2], given, depth + 1) + _merge_alternatives(v[3], given, depth + 1)
    return [[("opaque", v)]]


def _private_merge(ctx, m, rep, cl, undo_independent_only=False):
    """--preserve-private-addresses merges RFC 1918 into preserve_addresses on both branches, independent of direction."""
    p, A, G, folder = ctx.p, ctx.A, ctx.G, ctx.folder
    f_main = p.find_function("netconan.main")
    f_files = p.find_function("anonymize_files")
    fp = A.paths(f_main)
    try:
        rfc = tuple(folder.class_const(m.v4, "RFC_1918_NETWORKS"))
    except Unfoldable:
        rfc = None
    if not undo_independent_only:
        ok = rfc is not None and {ipaddress.ip_network(x) for x in rfc} == {ipaddress.ip_network(x) for x in EXPECTED_PRIVATE}
        rep.ob(cl + ".rfc1918", "RFC_1918_NETWORKS", ok, "folds to %r; expected the networks 10/8, 172.16/12, 192.168/16" % (rfc,), "%s:%d" % (m.v4.module.relpath, m.v4.node.lineno))
    n_paths = 0
    for path in fp.paths:
        if path.kind == "raise" or not path.feasible():
            continue
        call = None
        for e, ls in path.calls():
            if f_files in [t[1] for t in G.resolve_callee(e.a[1], f_main) if t[0] == "func"]:
                call = e
        if call is None:
            continue
        b = bind_args(call.a, f_files)
        v = b.get("preserve_networks") if b else None
        flag = None
        given = None
        extra_flag_conds = []
        for t, pol, _ in path.conds:
            leaves = [s for s in subterms(t) if s[0] == "attr" and s[2] == "preserve_private_addresses"]
            if leaves:
                if t == leaves[0]:
                    flag = pol
                elif t[0] == "unop" and t[1] == "not" and t[2] == leaves[0]:
                    flag = not pol
                else:
                    extra_flag_conds.append(show(t))
                    flag = pol if flag is None else flag
            nt = None
            if t[0] == "compare":
                for s in subterms(t):
                    if s[0] == "attr" and s[2] == "preserve_addresses":
                        nt = M.is_none_test(t, s)
                        if nt is not None:
                            given = (not nt) if pol else nt
        n_paths += 1
        if extra_flag_conds:
            rep.fail(cl + ".private-unconditional", "main", "the private-address merge is guarded by more than the flag itself: %s" % extra_flag_conds, where(f_main, call.node), key=cl + ".private-unconditional|main")
            continue
        if flag is None:
            rep.fail(cl + ".private-flag", "main", "path to anonymize_files does not test --preserve-private-addresses: %s" % path.describe()[:200], where(f_main, call.node))
            continue
        vs = show(v)
        has_rfc = v is not None and any(s[0] == "attr" and s[2] == "RFC_1918_NETWORKS" for s in subterms(v))
        has_user = v is not None and any(s[0] == "attr" and s[2] == "preserve_addresses" for s in subterms(v))
        none_valued = [show(x)[:60] for x in subterms(v) if x[0] == "call" and M.callee_name(x) in ("extend", "append", "update", "insert", "sort", "reverse", "add", "clear")] if v is not None else []
        if none_valued:
            rep.fail(cl + ".private-merged", "main[mutator-as-value]", "preserve_networks is computed from %s: list.extend/append return None, so nothing would be preserved" % none_valued, where(f_main, call.node), key=cl + ".private-merged|mutator-as-value")
            continue
        mism = []
        for x in subterms(v) if v is not None else []:
            if x[0] == "binop" and x[1] == "+":
                lt = {t[1] for t in G.types_of(x[2], f_main) if t[0] == "xinst"}
                rt = {t[1] for t in G.types_of(x[3], f_main) if t[0] == "xinst"}
                if (lt == {"list"} and rt == {"tuple"}) or (lt == {"tuple"} and rt == {"list"}):
                    mism.append("%s + %s" % (sorted(lt), sorted(rt)))
        if mism:
            rep.fail(cl + ".private-merged", "main[list+tuple]", "preserve_networks is computed as %s (%s): concatenating a list and a tuple raises TypeError when both options are given" % (vs[:120], mism), where(f_main, call.node), key=cl + ".private-merged|list-plus-tuple")
            continue
        if flag:
            ok = has_rfc and (has_user if given else True)
            # value semantics, not containment: every way the expression can evaluate (x or y, conditional expressions, concatenation)
            # yields the RFC 1918 networks, and the user's networks when they were given
            alts = _merge_alternatives(v, given) if v is not None else []
            for parts in alts:
                kinds = {k for k, _ in parts}
                if "rfc" not in kinds or (given and "user" not in kinds) or "opaque" in kinds:
                    ok = False
                    vs = vs + "  [evaluates to %s when the user's list is %s]" % (" + ".join(show(t)[:40] for _, t in parts) or "nothing", "given" if given else "absent")
                    break
            rep.ob(cl + ".private-merged", "main[flag,%s]" % ("given" if given else "absent"), ok,
                   "with the flag set and --preserve-addresses %s, preserve_networks = %s; must contain the RFC 1918 networks%s" % ("given" if given else "absent", vs, " and the user's networks" if given else ""),
                   where(f_main, call.node), key="%s.private-merged|%s" % (cl, "given" if given else "absent"))
        else:
            ok = not has_rfc
            rep.ob(cl + ".private-not-merged", "main[no-flag,%s]" % ("given" if given else "absent"), ok, "without the flag preserve_networks = %s" % vs, where(f_main, call.node), nontrivial=False)
    rep.ob(cl + ".private-paths", "main", n_paths >= 4, "paths of main reaching anonymize_files examined: %d" % n_paths, where(f_main), nontrivial=False)


def c04(ctx, rep):
    m = IpModel(ctx)
    rep.explanation = (
        "Pinned-node analysis: the pin loop stores identity entries for BOTH children at EVERY depth of EVERY element of the effective prefix list "
        "(terms of the loop iterable, range, slices and stored pairs); the folded DEFAULT_PRESERVED_PREFIXES induces exactly the pinned-node set of the documented classes "
        "A-E and RFC 1918 blocks (set comparison on induced bit strings, not on text); None-only defaulting with a copy; host-bit split keeps the suffix verbatim with the same "
        "count in both slices; CLI default 8 reaches both families' preserve_suffix; positional/keyword binding of the constructor arguments."
    )
    rep.rule = "one obligation per clause instance; pinned-node sets compared as sets of bit strings"
    rep.trust(*TRUST_IP)
    rep.assume("C01 obligations (F prefix-monotone and bijective); re-checked here where shared")
    m.pin_facts(rep, "C04")
    _pin_iterable(m, rep, "C04")
    m.check_split(rep, "C04")
    m.check_split(rep, "C04.undo", inverse=True)
    m.check_walk(rep, "C04")
    m.check_base_init(rep, "C04")
    m.check_subclasses(rep, "C04")
    _stage_families(ctx, m, rep, "C04")
    from .checks_misc import argument_mutation_rule
    argument_mutation_rule(ctx, rep, "C04", [f for f in [c.find_method("__init__") for c in [m.base] + m.p.subclasses(m.base)] if f is not None])  # the default prefix table stays the default
    # default list as a set of pinned nodes
    try:
        dflt = tuple(ctx.folder.class_const(m.v4, "DEFAULT_PRESERVED_PREFIXES"))
        got = m.default_pinned_nodes(dflt)
        want = m.default_pinned_nodes(EXPECTED_DEFAULT_PREFIXES)
        missing = sorted(want - got, key=lambda s: (len(s), s))
        extra = sorted(got - want, key=lambda s: (len(s), s))
        rep.ob("C04.default-list", "DEFAULT_PRESERVED_PREFIXES", not missing and not extra,
               "folded default list %r pins %d nodes; documented classes A-E + RFC 1918 pin %d; missing %s extra %s" % (dflt, len(got), len(want), missing[:4], extra[:4]),
               "%s:%d" % (m.v4.module.relpath, m.v4.node.lineno), witness={"missing": missing[:8], "extra": extra[:8]}, key="C04.default-list|DEFAULT_PRESERVED_PREFIXES")
        rep.stat("default_pinned_nodes", len(got))
        mutable = isinstance(ctx.folder.class_const(m.v4, "DEFAULT_PRESERVED_PREFIXES"), list)
    except (Unfoldable, ValueError) as e:
        rep.fail("C04.default-list", "DEFAULT_PRESERVED_PREFIXES", "does not fold to a list of CIDR texts: %s" % e, "")
    _cli_defaults(ctx, rep, "C04")
    memo_uses(m, rep, "C04")
    _undo_threading(ctx, m, rep, "C04")  # the image text is computed once from the parsed integer (no re-mapping loop that looks at host bits)
    _no_cross_state(m, rep, "C04")
    option_spec_rule(ctx, rep, "C04", only=("--preserve-prefixes", "--preserve-host-bits"))
    from .checks_pipe import import_clauses, c19 as _c19
    import_clauses(ctx, rep, "C04", "C19", _c19, ("C19.list-options",))  # every listed prefix reaches the constructor (split on ',' only)
    _private_merge(ctx, m, rep, "C04")  # the private blocks reach the preserved networks (and so the pinned prefixes) whatever else is given
    from .checks_misc import stage_state_rule
    stage_state_rule(ctx, rep, "C04", IP_STAGE_ROOTS)



def _gate_content(ctx, m, rep, cl):
    """should_anonymize = not (mask(ip_int) or any(ip in n for n in ALL preserved networks)); mask predicate pure."""
    f = m.method(m.v4, "should_anonymize")
    rep.analysed(f)
    ipint = ("param", f.mparams[1])
    fpaths = [x for x in m.A.paths(f).paths if x.feasible()]
    if len(fpaths) > 1 and all(x.kind == "return" and x.returned()[0] == "const" and isinstance(x.returned()[1], bool) for x in fpaths):
        # decision form: guard clauses / an early-exit loop returning constants
        mask_t = ("call", ("attr", SELF, "_is_mask"), (ipint,), ())
        ipobj = ("call", ("attr", ("global", f.module.name, "ipaddress"), "ip_address"), (ipint,), ())
        fploops = m.A.paths(f).loops
        by_mask = by_member = plain_true = other = 0
        for x in fpaths:
            val = x.returned()[1]
            atoms = [(t, pol) for t, pol in x.atoms()]
            mask_pol = [pol for t, pol in atoms if t == mask_t]
            inl = [t for t, pol in atoms if t[0] == "inloop" and pol]
            rest = [(t, pol) for t, pol in atoms if t != mask_t and t[0] not in ("inloop", "loopbreak")]
            if val is False and mask_pol == [True] and not inl and not rest:
                by_mask += 1
            elif val is False and mask_pol == [False] and len(inl) == 1 and len(rest) == 1 and rest[0][1] is True:
                li = fploops.get(inl[0][1])
                t0 = rest[0][0]
                okm_ = li is not None and li.iter == ("attr", SELF, "_preserve_addresses") and t0[0] == "compare" and t0[1] == ("in",) and t0[2][0] == ipobj and t0[2][1] == ("loopvar", li.uid, li.iter, ())
                by_member += okm_
                other += (not okm_)
            elif val is True and mask_pol == [False] and not inl and not rest:
                plain_true += 1
            else:
                other += 1
        okd = by_mask == 1 and by_member == 1 and plain_true == 1 and other == 0
        rep.ob(cl + ".gate-shape", f.name, okd, "gate as a decision: refused for masks (%d path), refused for a member of ANY preserved network (%d), accepted otherwise (%d), other paths %d" % (by_mask, by_member, plain_true, other), where(f),
               key=cl + ".gate-shape|should_anonymize")
        rep.ob(cl + ".gate-mask", f.name, by_mask == 1, "the mask test is applied to the same integer", where(f), key=cl + ".gate-mask|should_anonymize")
        rep.ob(cl + ".gate-membership", f.name, by_member == 1, "membership is tested against every preserved network (early exit on the first hit)", where(f), key=cl + ".gate-membership|should_anonymize")
        fpaths = []
    for path in (fpaths if fpaths else ([] if len(m.A.paths(f).paths) > 1 and not fpaths else m.A.paths(f).paths)):
        w = where(f, path.result[2] if path.result else f.node)
        r = path.returned()
        if path.kind != "return" or path.conds:
            rep.fail(cl + ".gate-shape", f.name, "unrecognised gate: %s under %s" % (show(r), path.describe()), w)
            continue
        ok = r[0] == "unop" and r[1] == "not" and r[2][0] == "boolop" and r[2][1] == "or"
        if not ok:
            rep.fail(cl + ".gate-shape", f.name, "gate returns %s; expected not (mask(ip_int) or any(ip in n for n in preserved))" % show(r), w, key=cl + ".gate-shape|should_anonymize")
            continue
        dis = r[2][2]
        mask = [d for d in dis if M.is_call(d) and d[1] == ("attr", SELF, "_is_mask")]
        rep.ob(cl + ".gate-mask", f.name, len(mask) == 1 and mask[0][2] == (ipint,), "mask disjunct: %s; expected self._is_mask(<the same integer>)" % [show(x) for x in mask], w, key=cl + ".gate-mask|should_anonymize")
        memb = [d for d in dis if M.builtin_call(d, "any", 1)]
        okm = False
        detail = [show(x) for x in memb]
        if len(memb) == 1:
            a = memb[0][2][0]
            if a[0] == "comp" and len(a[4]) == 1:
                tgt, it, conds = a[4][0]
                elt = a[3]
                ipobj = ("call", ("attr", ("global", f.module.name, "ipaddress"), "ip_address"), (ipint,), ())
                okm = it == ("attr", SELF, "_preserve_addresses") and not conds and elt[0] == "compare" and elt[1] == ("in",) and elt[2][1] == tgt and elt[2][0] in (ipobj,)
        rep.ob(cl + ".gate-membership", f.name, okm, "membership disjunct: %s; expected any(ip in n for n in self._preserve_addresses) over ALL preserved networks" % detail, w, key=cl + ".gate-membership|should_anonymize")
        rep.ob(cl + ".gate-disjuncts", f.name, len(dis) == 2, "gate has %d disjuncts" % len(dis), w, nontrivial=False)
    # mask predicate: pure function of its integer, and one of the known "at most one 0/1 transition" idioms
    fm = m.method(m.v4, "_is_mask")
    rep.analysed(fm)
    for path in m.A.paths(fm).paths:
        rep.ob(cl + ".mask-idiom", fm.name, path.kind == "return" and not path.conds and _mask_idiom(path.returned(), ("param", fm.mparams[1])),
               "mask predicate returns %s; expected a known idiom for 'the 31 adjacent-bit transitions (x ^ (x >> 1)) & 0x7FFFFFFF contain at most one set bit' "
               "(d & ((0xFFFFFFFF ^ d) + 1)) == d, (d & (d - 1)) == 0 or (d & -d) == d — the arithmetic identity itself is a trusted fact, the constants and shape are checked" % show(path.returned())[:200],
               where(fm), key=cl + ".mask-idiom|_is_mask")
        r = path.returned()
        leaves = {s for s in subterms(r) if s[0] in ("param", "global", "attr", "builtin", "unbound")} if r else set()
        real_calls = [e for e, ls in path.calls() if getattr(e, "origin", None) is None and not _is_inlined_helper_call(ctx, e.a, fm)]
        ok = path.kind == "return" and leaves <= {("param", fm.mparams[1])} and not real_calls
        rep.ob(cl + ".mask-pure", fm.name, ok, "mask predicate is a call-free function of its integer argument only (leaves %s)" % sorted(show(x) for x in leaves), where(fm))


def _is_inlined_helper_call(ctx, t, f):
    """the call itself was replaced by the callee's body (helper inlining): it is not an effect of its own"""
    for tt in ctx.G.resolve_callee(t[1], f):
        if tt[0] == "func" and tt[1].qualname in ctx.helpers:
            return True
    return False


def _comm(t, op):
    """operands of a commutative binop, in both orders"""
    if t[0] == "binop" and t[1] == op:
        return [(t[2], t[3]), (t[3], t[2])]
    return []


def _mask_idiom(r, x):
    """r is a recognised 'at most one transition between adjacent bits of the 32-bit word x' predicate."""
    if not (r[0] == "compare" and r[1] == ("==",) and len(r[2]) == 2):
        return False
    for lhs, rhs in ((r[2][0], r[2][1]), (r[2][1], r[2][0])):
        # d candidates: any subterm of lhs of the form (x ^ (x >> 1)) & 0x7FFFFFFF
        for d in set(subterms(lhs)):
            ok_d = False
            for a, b in _comm(d, "&"):
                if b == ("const", 0x7FFFFFFF):
                    for p, q in _comm(a, "^"):
                        if p == x and q == ("binop", ">>", x, ("const", 1)):
                            ok_d = True
            if not ok_d:
                continue
            # A: (d & ((0xFFFFFFFF ^ d) + 1)) == d     C: (d & -d) == d
            if rhs == d:
                for a, b in _comm(lhs, "&"):
                    if a == d:
                        for u, v in _comm(b, "+"):
                            if v == ("const", 1) and (d, ("const", 0xFFFFFFFF)) in _comm(u, "^"):
                                return True
                            if v == ("const", 1) and u == ("unop", "~", d):
                                return True
                            if v == ("const", 1) and u == ("binop", "-", ("const", 0xFFFFFFFF), d):
                                return True  # 0xFFFFFFFF - d == 0xFFFFFFFF ^ d for 0 <= d <= 0xFFFFFFFF (d is masked with 0x7FFFFFFF)
                    if a == d and b == ("binop", "-", ("const", 0x100000000), d):
                        return True  # 2**32 - d: the same two's complement
                        if b == ("unop", "-", d):
                            return True
            # B: (d & (d - 1)) == 0
            if rhs == ("const", 0):
                for a, b in _comm(lhs, "&"):
                    if a == d and b == ("binop", "-", d, ("const", 1)):
                        return True
    return False


def c05(ctx, rep):
    m = IpModel(ctx)
    rep.explanation = (
        "Gate analysis: _anonymize_match consults should_anonymize on the parsed integer before either direction and returns the matched text itself on the negative branch; "
        "IpAnonymizer.should_anonymize is not(mask-test(ip_int) or any(ip in n for n in ALL preserved networks)); the preserved networks list is built from every element of the parameter; "
        "on every constructor path with preserve_addresses given, all of its elements flow into the pin-loop iterable (anti-collision, then C04's pins); "
        "--preserve-private-addresses merges the folded RFC 1918 set on both branches. The mask predicate's bit arithmetic is NOT decided (integer identity; other technique family)."
    )
    rep.rule = "one obligation per clause instance on real paths/terms"
    rep.trust(*TRUST_IP)
    rep.assume("the recognised bit idioms ('d & (~d + 1) == d' etc. on the 31 adjacent-bit transitions) accept exactly the 64 mask/wildcard words: the arithmetic identity is trusted, only shape and constants are checked")
    _undo_threading(ctx, m, rep, "C05")
    m.check_subclasses(rep, "C05")
    _stage_families(ctx, m, rep, "C05")
    _gate_content(ctx, m, rep, "C05")
    # _preserve_addresses built from every element
    fn = m.f_v4init
    for path in m.A.paths(fn).paths:
        if path.kind == "raise":
            continue
        stores = [e for e, ls in path.stores() if e.kind == "store_attr" and e.b == "_preserve_addresses"]
        pa = ("param", "preserve_addresses")
        given = None
        for t, pol, _ in path.conds:
            nt = M.is_none_test(t, pa)
            if nt is not None:
                given = (not nt) if pol else nt
            elif t == pa:
                rep.fail("C05.preserved-list", fn.name, "preserve_addresses tested for truthiness", where(fn))
        if given:
            last = stores[-1].c if stores else None
            ok = last is not None and last[0] == "comp" and last[1] == "list" and len(last[4]) == 1 and last[4][0][1] == pa and not last[4][0][2] and M.is_call(last[3]) and M.callee_name(last[3]) == "ip_network" and last[3][2][:1] == (last[4][0][0],)
            rep.ob("C05.preserved-list", fn.name, ok, "self._preserve_addresses = %s; expected [ip_network(n) for n in preserve_addresses] (every element, unfiltered)" % show(last), where(fn, stores[-1].node if stores else fn.node),
                   key="C05.preserved-list|IpAnonymizer.__init__")
        elif given is False:
            last = stores[-1].c if stores else None
            rep.ob("C05.preserved-list-empty", fn.name, last == ("list", ()), "without preserve_addresses the list is %s" % show(last), where(fn), nontrivial=False)
    for f2 in m.p.all_functions():
        if f2 is fn:
            continue
        for e, ls, path in m.A.paths(f2).all_effects():
            if e.kind == "store_attr" and e.b == "_preserve_addresses":
                rep.fail("C05.preserved-list-writer", f2.qualname, "_preserve_addresses assigned outside the constructor", where(f2, e.node))
            if e.kind == "call" and e.a[1][0] == "attr" and e.a[1][1][0] == "attr" and e.a[1][1][2] == "_preserve_addresses" and e.a[1][2] in ("append", "extend", "remove", "clear", "pop", "insert"):
                rep.fail("C05.preserved-list-writer", f2.qualname, "_preserve_addresses mutated: %s" % show(e.a), where(f2, e.node))
    _pin_iterable(m, rep, "C05")
    m.pin_facts(rep, "C05")
    memo_uses(m, rep, "C05")  # pins must stay in the memo: nobody else writes, rebinds or clears it
    _no_cross_state(m, rep, "C05")
    _private_merge(ctx, m, rep, "C05")
    _cli_binding_networks(ctx, m, rep, "C05")
    _gate_v6(m, rep, "C05")
    option_spec_rule(ctx, rep, "C05", only=("--preserve-addresses", "--preserve-private-addresses"))
    from .checks_misc import stage_state_rule
    stage_state_rule(ctx, rep, "C05", IP_STAGE_ROOTS)
    from .checks_pipe import import_clauses, c12 as _c12
    import_clauses(ctx, rep, "C05", "C01", c01, ("C01.inv.memo-",))  # undo finds the pinned (identity) entries only through the inverse memo, at every length
    from .checks_pipe import line_loop_rules as _llr5
    _llr5(ctx, rep, "C05")  # a mask or a preserved address is recognised as a whole token only if the stages see whole lines
    import_clauses(ctx, rep, "C05", "C12", _c12, ("C12.group-loop", "C12.line-reassembled"))  # the secret stage rewrites nothing but the secret's own position (a mask elsewhere on the line stays as written)


def _gate_v6(m, rep, cl):
    """IPv6 has no masks/preserved networks and no pinned block of its own: the gate must be constant True
    (an address left alone without its block being pinned collides with the image of another address)."""
    f6 = m.method(m.v6, "should_anonymize")
    for path in m.A.paths(f6).paths:
        rep.ob(cl + ".gate-v6", f6.name, path.returned() == ("const", True) and not path.conds, "IPv6 gate returns %s under %s; nothing pins an IPv6 block, so every skipped address can collide with an image" % (show(path.returned()), path.describe()[:80]), where(f6),
               key=cl + ".gate-v6|should_anonymize")


def _cli_binding_networks(ctx, m, rep, cl):
    p, G = ctx.p, ctx.G
    f_fa = p.find_function("FileAnonymizer.__init__")
    f_files = p.find_function("anonymize_files")
    for cs in G.by_owner.get(f_fa.qualname, []):
        for c in cs.classes():
            if c is m.v4:
                b = bind_args(cs.term, c.find_method("__init__"), 1) or {}
                rep.ob(cl + ".binding", "IpAnonymizer(preserve_addresses)", b.get("preserve_addresses") == ("param", "preserve_networks"),
                       "IpAnonymizer(preserve_addresses=%s); expected preserve_networks" % show(b.get("preserve_addresses")), cs.where, key=cl + ".binding|IpAnonymizer:preserve_addresses")
    for cs in G.by_owner.get(f_files.qualname, []):
        if any(c.name == "FileAnonymizer" for c in cs.classes()):
            b = bind_args(cs.term, f_fa, 1) or {}
            rep.ob(cl + ".binding", "FileAnonymizer(preserve_networks)", b.get("preserve_networks") == ("param", "preserve_networks"), "FileAnonymizer(preserve_networks=%s)" % show(b.get("preserve_networks")), cs.where)


def c17(ctx, rep):
    m = IpModel(ctx)
    p, A, G = ctx.p, ctx.A, ctx.G
    rep.explanation = (
        "Must-store analysis: every forward request leaves a full-length memo entry (unsplit path: the walk's own store under the full bits; split path: an explicit, unconditional "
        "store of (full bits, returned bits)); dump_to_file iterates the direct view's items(), filters on len(key) == width and writes render(key) TAB render(value) NL with the family's "
        "own renderer; the memo is a bidict (unique keys and values); anonymize_files dumps after the file loop, both families, into the dump path; every entry is (k, F(k)) by C03's writer inventory."
    )
    rep.rule = "one obligation per clause instance on real paths/terms"
    rep.trust(*TRUST_IP)
    m.check_walk(rep, "C17")
    m.check_split(rep, "C17")
    m.check_full_store(rep, "C17")
    m.check_base_init(rep, "C17")
    m.check_subclasses(rep, "C17")
    memo_uses(m, rep, "C17")
    # dump
    fn = m.f_dump
    rep.analysed(fn)
    fp = A.paths(fn)
    outp = ("param", fn.mparams[1])
    for path in fp.paths:
        w = where(fn)
        if path.kind not in ("fall", "return"):
            rep.fail("C17.dump-total", fn.name, "dump has a raising path", w)
            continue
        loops = [e.a for e in path.effects if e.kind == "loop"]
        writes_outside = [e for e in path.effects if e.kind == "call" and M.callee_name(e.a) == "write"]
        wl = [e for e in path.effects if e.kind == "call" and e.a[1] == ("attr", outp, "writelines") and len(e.a[2]) == 1 and not e.a[3]]
        if not loops and not writes_outside and len(wl) == 1 and wl[0].a[2][0][0] == "comp" and wl[0].a[2][0][1] in ("gen", "list") and len(wl[0].a[2][0][4]) == 1:
            # form D: file_out.writelines(<line> for key, value in self.cache.items() if len(key) == self.length) — the same lines, handed over lazily
            cmp_ = wl[0].a[2][0]
            tgt, src, conds = cmp_[4][0]
            items = ("call", ("attr", ("attr", SELF, m.CACHE), "items"), (), ())
            k, v = ("sub", tgt, ("const", 0)), ("sub", tgt, ("const", 1))
            lf = (("compare", ("==",), (("call", ("builtin", "len"), (k,), ()), ("attr", SELF, m.LENGTH))), ("compare", ("==",), (("attr", SELF, m.LENGTH), ("call", ("builtin", "len"), (k,), ()))))
            rep.ob("C17.dump-source", fn.name, src == items, "dump source is %s; expected the direct view self.%s.items() in insertion order" % (show(src)[:120], m.CACHE), where(fn, wl[0].node), key="C17.dump-source|dump_to_file")
            rep.ob("C17.dump-filter", fn.name, len(conds) == 1 and conds[0] in lf, "dump filter: %s; expected exactly len(key) == self.%s (full-length entries, all of them)" % ([show(c) for c in conds], m.LENGTH), where(fn, wl[0].node), key="C17.dump-filter|dump_to_file")
            r1 = ("call", ("attr", SELF, "_ip_to_str"), (k,), ())
            r2 = ("call", ("attr", SELF, "_ip_to_str"), (v,), ())
            line = cmp_[3]
            okl = line == M.fstr(r1, "\t", r2, "\n") or M.text_parts(line) == [r1, ("const", "\t"), r2, ("const", "\n")]
            rep.ob("C17.dump-line", fn.name, okl, "line is %s; expected '{}\\t{}\\n'.format(render(key), render(value))" % show(line), where(fn, wl[0].node), key="C17.dump-line|dump_to_file")
            rep.ob("C17.dump-writes", fn.name, True, "writelines over the full-length entries", where(fn, wl[0].node), nontrivial=False)
            continue
        if len(loops) != 1 or writes_outside:
            rep.fail("C17.dump-shape", fn.name, "expected one loop writing lines (loops %d, writes outside %d)" % (len(loops), len(writes_outside)), w)
            continue
        li = loops[0]
        it = li.iter
        items = ("call", ("attr", ("attr", SELF, m.CACHE), "items"), (), ())
        filt_ok = src_ok = False
        key_t = val_t = None
        write_paths = []
        lenfilter = lambda k: (("compare", ("==",), (("call", ("builtin", "len"), (k,), ()), ("attr", SELF, m.LENGTH))), ("compare", ("==",), (("attr", SELF, m.LENGTH), ("call", ("builtin", "len"), (k,), ()))))
        if it[0] == "comp" and len(it[4]) == 1:
            # form A: a generator / list of (key, value) filtered on the key length, then a loop over it
            tgt, src, conds = it[4][0]
            src_ok = src == items
            k = ("sub", tgt, ("const", 0))
            v = ("sub", tgt, ("const", 1))
            filt_ok = len(conds) == 1 and conds[0] in lenfilter(k)
            elt_ok = it[3] == ("tuple", (k, v))
            key_t = ("loopvar", li.uid, it, (0,))
            val_t = ("loopvar", li.uid, it, (1,))
            rep.ob("C17.dump-pairs", fn.name, elt_ok, "dump iterates pairs %s; expected (key, value) in this order (original first)" % show(it[3]), where(fn, li.node))
            write_paths = [bp for bp in li.body_paths]
            for bp in write_paths:
                if bp.conds or bp.result is not None:
                    filt_ok = False
        elif it == items or it in (("attr", SELF, m.CACHE), ("call", ("attr", ("attr", SELF, m.CACHE), "keys"), (), ())):
            # form B: a loop over items() whose body writes only when the key has full length
            # form C: a loop over the memo's keys, the value read back with memo[key]
            src_ok = True
            if it == items:
                key_t = ("loopvar", li.uid, it, (0,))
                val_t = ("loopvar", li.uid, it, (1,))
            else:
                key_t = ("loopvar", li.uid, it, ())
                val_t = ("sub", ("attr", SELF, m.CACHE), key_t)
            f1, f2 = lenfilter(key_t)
            filt_ok = True
            for bp in li.body_paths:
                if not bp.feasible():
                    continue
                tv = bp.truth(f1)
                if tv is None:
                    tv = bp.truth(f2)
                wr = [e for e in bp.effects if e.kind == "call" and M.callee_name(e.a) == "write"]
                other = [t for t, pol in bp.atoms() if t not in (f1, f2)]
                if tv is True and not other and bp.result is None:
                    write_paths.append(bp)
                elif tv is False and not wr and not other:
                    pass
                else:
                    filt_ok = False
        rep.ob("C17.dump-source", fn.name, src_ok, "dump source is %s; expected the direct view self.%s.items() in insertion order" % (show(it)[:120], m.CACHE), where(fn, li.node), key="C17.dump-source|dump_to_file")
        rep.ob("C17.dump-filter", fn.name, filt_ok, "dump filter: %s; expected exactly len(key) == self.%s (full-length entries, all of them)" % (show(it)[:160], m.LENGTH), where(fn, li.node), key="C17.dump-filter|dump_to_file")
        rep.ob("C17.dump-writes", fn.name, len(write_paths) >= 1, "writing paths in the dump loop: %d" % len(write_paths), where(fn, li.node), nontrivial=False)
        for bp in write_paths:
            wr = [e for e in bp.effects if e.kind == "call" and M.callee_name(e.a) == "write"]
            okw = len(wr) == 1 and wr[0].a[1] == ("attr", outp, "write")
            rep.ob("C17.dump-one-line", fn.name, okw, "each full-length entry writes exactly one line (writes %d, conds %s)" % (len(wr), bp.describe()[:80]), where(fn, li.node))
            if okw and key_t is not None:
                line = wr[0].a[2][0]
                r1 = ("call", ("attr", SELF, "_ip_to_str"), (key_t,), ())
                r2 = ("call", ("attr", SELF, "_ip_to_str"), (val_t,), ())
                okl = line == M.fstr(r1, "\t", r2, "\n") or M.text_parts(line) == [r1, ("const", "\t"), r2, ("const", "\n")]
                rep.ob("C17.dump-line", fn.name, okl, "line is %s; expected '{}\\t{}\\n'.format(render(key), render(value))" % show(line), where(fn, wr[0].node), key="C17.dump-line|dump_to_file")
    # renderer: str(cls.make_addr_from_int(int(bits, 2))) — the family's own renderer
    fr = m.method(m.base, "_ip_to_str")
    rep.analysed(fr)
    for path in A.paths(fr).paths:
        r = path.returned()
        if len(fr.params) < 2:
            rep.fail("C17.renderer", fr.name, "renderer signature changed: %s" % fr.params, where(fr), key="C17.renderer|_ip_to_str")
            continue
        bp = ("param", fr.mparams[1])
        want = ("call", ("builtin", "str"), (("call", ("attr", ("param", fr.mparams[0]), "make_addr_from_int"), (("call", ("builtin", "int"), (bp, ("const", 2)), ()),), ()),), ())
        rep.ob("C17.renderer", fr.name, r == want, "renderer returns %s; expected str(cls.make_addr_from_int(int(bits, 2))) (the family's own address type)" % show(r), where(fr), key="C17.renderer|_ip_to_str")
    # when and what in anonymize_files
    f_files = p.find_function("anonymize_files")
    rep.analysed(f_files)
    df = ("param", "dumpfile")
    n = 0
    for path in A.paths(f_files).paths:
        if path.kind == "raise":
            continue
        dump_calls = [(i, e) for i, e in enumerate(path.effects) if e.kind == "call" and M.callee_name(e.a) == m.f_dump.name]
        loop_idx = [i for i, e in enumerate(path.effects) if e.kind == "loop" and any(M.callee_name(x.a) == "anonymize_io" for bp in e.a.body_paths for x, _ in walk_effects(bp.effects) if x.kind == "call")]
        want_dump = None
        for t, pol, _ in path.conds:
            nt = M.is_none_test(t, df)
            if nt is not None:
                want_dump = (not nt) if pol else nt
        inside = [e for e, ls in walk_effects(path.effects) if ls and e.kind == "call" and M.callee_name(e.a) == m.f_dump.name]
        if inside:
            rep.fail("C17.dump-after-loop", "anonymize_files", "dump_to_file is called inside a loop", where(f_files, inside[0].node))
        if want_dump:
            n += 1
            fams = sorted(show(e.a[1][1]) for i, e in dump_calls)
            ok = len(dump_calls) == 2 and any("anonymizer4" in x for x in fams) and any("anonymizer6" in x for x in fams)
            rep.ob("C17.dump-both-families", "anonymize_files", ok, "dump calls: %s; expected both anonymizer4 and anonymizer6" % fams, where(f_files), key="C17.dump-both-families|anonymize_files")
            after = bool(loop_idx) and all(i > max(loop_idx) for i, e in dump_calls)
            rep.ob("C17.dump-after-loop", "anonymize_files", after, "dump happens after the file loop (loop at effect %s, dumps at %s)" % (loop_idx, [i for i, e in dump_calls]), where(f_files), key="C17.dump-after-loop|anonymize_files")
            opens = [e for e in path.effects if e.kind == "call" and e.a[1] == ("builtin", "open") and e.a[2][:1] == (df,)]
            okm = len(opens) == 1 and (len(opens[0].a[2]) > 1 and opens[0].a[2][1] in (("const", "w"),) or dict(opens[0].a[3]).get("mode") == ("const", "w"))
            rep.ob("C17.dump-file", "anonymize_files", okm, "dump file opened: %s; expected open(dumpfile, 'w') once" % [show(e.a) for e in opens], where(f_files))
            for i, e in dump_calls:
                fobj = e.a[2][0] if e.a[2] else None
                rep.ob("C17.dump-target", "anonymize_files", bool(opens) and fobj == opens[0].a, "dump written to %s" % show(fobj), where(f_files, e.node), nontrivial=False)
        elif want_dump is False:
            rep.ob("C17.no-dump", "anonymize_files", not dump_calls, "no dump without a dump path", where(f_files), nontrivial=False)
        elif loop_idx and path.feasible():
            # the files were processed and the function returns without ever asking whether a dump was requested
            rep.fail("C17.dump-decided-on-every-path", "anonymize_files", "a path that processes the files returns without testing `dumpfile is not None` (%s): replaced addresses without their line in the map" % path.describe()[:140],
                     where(f_files, path.result[2] if path.result else f_files.node), key="C17.dump-decided-on-every-path|anonymize_files")
    rep.ob("C17.dump-paths", "anonymize_files", n >= 1, "paths with a dump file examined: %d" % n, where(f_files), nontrivial=False)
    # main allows a dump only with --anonymize-ips
    _dump_requires_ips(ctx, rep, "C17")
    _one_anonymizer_per_run(ctx, m, rep, "C17")  # the dumped memo must be the one every file was processed with
    _cli_defaults(ctx, rep, "C17")
    _undo_threading(ctx, m, rep, "C17")
    # the listed pair is the pair that was used: the gate decides per address from the address alone, the text is parsed the one way, and the inverse walk records what it returns
    _gate_content(ctx, m, rep, "C17")
    from .checks_pipe import import_clauses
    from . import checks_rx as _rx
    import_clauses(ctx, rep, "C17", "C06", _rx.c06, ("C06.ipv4-drop-zeros-call", "C06.ipv6-parse-call"))
    import_clauses(ctx, rep, "C17", "C01", c01, ("C01.inv.memo-",))
    from .checks_misc import stage_state_rule
    stage_state_rule(ctx, rep, "C17", IP_STAGE_ROOTS)


def _dump_requires_ips(ctx, rep, cl):
    p, A, G = ctx.p, ctx.A, ctx.G
    f_main = p.find_function("netconan.main")
    f_files = p.find_function("anonymize_files")
    bad = 0
    n = 0
    for path in A.paths(f_main).paths:
        if path.kind == "raise":
            continue
        reaches = any(f_files in [t[1] for t in G.resolve_callee(e.a[1], f_main) if t[0] == "func"] for e, ls in path.calls())
        if not reaches:
            continue
        if not path.feasible():
            continue
        args_t = None
        direct = parser_function(ctx) is f_main
        for e, ls in path.calls():
            if M.callee_name(e.a) == "_parse_args" or (direct and M.callee_name(e.a) == "parse_args"):
                args_t = e.a
        if args_t is None:
            continue
        n += 1
        dump_none = ("compare", ("is",), (("attr", args_t, "dump_ip_map"), ("const", None)))
        if path.possible({dump_none: False, ("attr", args_t, "anonymize_ips"): False}) is not False:
            bad += 1
    rep.ob(cl + ".dump-requires-ips", "main", n >= 1 and bad == 0, "paths of main reaching anonymize_files with a dump path: %d, of which without --anonymize-ips established: %d" % (n, bad), where(f_main), key=cl + ".dump-requires-ips|main")
