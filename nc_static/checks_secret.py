"""C07-C10: secrets and sensitive words."""
import re

from .flow import show, subterms, strip_mut, walk_effects
from .source import AnalysisError
from .fold import Unfoldable
from .calls import bind_args
from . import match as M
from . import secret_struct, secret_flow, secret_rmi, classifier
from .secret_flow import W
from .checks_rx import stage_order

SELF = ("param", "self")
TRUST_SECRET = [
    "re.Pattern.sub(repl: str, s): repl is a template (backslash escapes / group references are interpreted, bad ones raise re.error); a callable's result is inserted verbatim (re docs)",
    "re.Pattern.sub replaces the whole match (group 0) of every non-overlapping match",
    "passlib md5_crypt/sha512_crypt/cisco_type7 .using(salt=..).hash(x): output '$1$<salt>$<22 chars>' / '$6$<salt>$<86 chars>' / '<2-digit salt><hex pairs>' (passlib docs)",
    "dict: `k in d`, d[k], d[k] = v, len(d) (language reference)",
]


def _perline_functions(ctx):
    p, G = ctx.p, ctx.G
    roots = [p.find_function("FileAnonymizer.anonymize_io").qualname]
    qs = G.reachable(roots)
    return [p.functions[q] for q in sorted(qs)]


SECRET_PARAMS = {
    "replace_matching_item": {"input_line"},
    "_anonymize_value": {"raw_val"},
    "_extract_enclosing_text": {"in_val", "head", "tail"},
    "_check_sensitive_item_format": {"val"},
    "_split_line": {"line"},
    "anonymize_io": set(),
    "anonymize": {"line"},
    "anonymize_as_numbers": {"line"},
    "anonymize_ip_addr": {"line"},
    "_anonymize_match": {"match"},
    "juniper_decrypt": {"crypt"},
    "juniper_nonrandom_encrypt": {"plain"},
    "_gap_encode": {"pc"},
    "_gap_decode": {"gaps"},
    "_lookup_anon_word": {"match"},
    "_get_or_generate_sensitive_word_replacement": {"sensitive_word"},
}


def _enclosing_lists(ctx, rep, cl):
    """_extract_enclosing_text only ever moves elements of the constant lists into head/tail."""
    p, A, folder = ctx.p, ctx.A, ctx.folder
    f = p.find_function("_extract_enclosing_text")
    rep.analysed(f)
    fp = A.paths(f)
    mod = f.module.name
    ok_lists = True
    lists = {}
    for nm in ("_PASSWORD_ENCLOSING_HEAD_TEXT", "_PASSWORD_ENCLOSING_TAIL_TEXT"):
        try:
            v = folder.module_const(mod, nm)
            lists[nm] = v
            ok_lists &= isinstance(v, (list, tuple)) and all(isinstance(x, str) and x for x in v)
        except Unfoldable:
            ok_lists = False
    rep.ob(cl + ".enclosing-constants", f.name, ok_lists, "enclosing head/tail texts fold to constant lists of non-empty strings: %s" % lists, W(f))
    # balanced: what may be stripped in front has its counterpart behind, so brackets/quotes are restored in place
    H, T = list(lists.get("_PASSWORD_ENCLOSING_HEAD_TEXT") or []), list(lists.get("_PASSWORD_ENCLOSING_TAIL_TEXT") or [])
    need_h = ["\\'", '\\"', "'", '"', "[", "{"]
    need_t = ["\\'", '\\"', "'", '"', "]", "}", ";", ","]
    miss = [x for x in need_h if x not in H] + [x for x in need_t if x not in T]
    rep.ob(cl + ".enclosing-complete", f.name, not miss, "enclosing texts that are kept around a secret: head %s tail %s; missing %s (a missing closing bracket/terminator would be swallowed into the pseudonym)" % (H, T, miss), W(f), key=cl + ".enclosing-complete|_extract_enclosing_text")
    # a text that ends (starts) with another, shorter enclosing text must be tried first: otherwise the plain quote of \" is taken alone
    # and the backslash stays inside the value
    shadow = [(T[i], T[j]) for i in range(len(T)) for j in range(i + 1, len(T)) if T[j] != T[i] and T[j].endswith(T[i])]
    shadow += [(H[i], H[j]) for i in range(len(H)) for j in range(i + 1, len(H)) if H[j] != H[i] and H[j].startswith(H[i])]
    # an enclosing text is punctuation: letters or digits kept "around" a secret are part of the secret (0x<key>, a quote-like word) and would survive
    wordy = sorted({x for x in H + T if any(ch.isalnum() for ch in x)})
    rep.ob(cl + ".enclosing-texts-punctuation", f.name, not wordy, "enclosing texts containing letters or digits: %s; what is stripped in front of / behind a value is copied to the output unchanged" % wordy, W(f),
           key=cl + ".enclosing-texts-punctuation|_extract_enclosing_text")
    rep.ob(cl + ".enclosing-longest-first", f.name, not shadow, "enclosing texts tried before a longer text that contains them at the stripping end: %s (e.g. the escaped quote must be tried before the plain quote)" % shadow, W(f),
           key=cl + ".enclosing-longest-first|_extract_enclosing_text")
    inp = ("param", f.mparams[0])
    hp, tp = ("param", f.mparams[1]), ("param", f.mparams[2])
    ln = lambda t: ("call", ("builtin", "len"), (t,), ())
    for uid, li in fp.loops.items():
        if li.iter is None or li.iter[0] != "global":
            continue
        is_head = li.iter[2].endswith("HEAD_TEXT")
        lv0 = ("loopvar", li.uid, li.iter, ())
        for vname, (vpre, vposts) in li.carried.items():
            for post in vposts:
                cv = ("carried", vname, li.uid)
                if post == cv or vname in (f.mparams[1], f.mparams[2]) or post[0] == "const":
                    continue  # unchanged, the collected texts (checked below), or a progress flag
                want = ("sub", cv, ("slice", ln(lv0), None, None)) if is_head else ("sub", cv, ("slice", None, ("unop", "-", ln(lv0)), None))
                want_b = None if is_head else ("sub", cv, ("slice", None, ("binop", "-", ln(cv), ln(lv0)), None))  # val[:len(val) - k] == val[:-k] for k > 0 (the texts are non-empty: enclosing-constants)
                if True:
                    rep.ob(cl + ".enclosing-strip", "%s:%s" % (f.name, "head" if is_head else "tail"), post == want or (want_b is not None and post == want_b), "after moving an enclosing text the value becomes %s; expected exactly that text removed (%s)" % (show(post), show(want)), W(f, li.node), key="%s.enclosing-strip|%s" % (cl, "head" if is_head else "tail"))
        for bp in li.body_paths:
            vals = [n for n, (vpre, vposts) in li.carried.items() if n not in (f.mparams[1], f.mparams[2]) and not all(x[0] == "const" or x == ("carried", n, li.uid) for x in vposts)]
            t = bp.truth(("call", ("attr", ("carried", vals[0] if vals else "val", li.uid), "startswith" if is_head else "endswith"), (lv0,), ()))
            changed = any(bp.env.get(n) != ("carried", n, li.uid) for n in li.carried)
            if changed:
                rep.ob(cl + ".enclosing-guard", "%s:%s" % (f.name, "head" if is_head else "tail"), t is True, "enclosing text is moved only when the value really %s it" % ("starts with" if is_head else "ends with"), W(f, li.node), key="%s.enclosing-guard|%s" % (cl, "head" if is_head else "tail"), nontrivial=False)
    for uid, li in fp.loops.items():
        for bp in li.body_paths:
            lv = ("loopvar", li.uid, li.iter, ())
            for name, role in ((f.mparams[1], "head"), (f.mparams[2], "tail")):
                if name not in li.carried:
                    continue
                post = bp.env.get(name)
                pre = ("carried", name, li.uid)
                if post is None or post == pre:
                    continue
                if post[0] == "loopout" and post[1] == name:
                    continue  # changed by a nested loop, which is checked on its own
                okp = post in (("binop", "+", pre, lv), ("binop", "+", lv, pre))
                rep.ob(cl + ".enclosing-append-only", "%s:%s" % (f.name, role), okp and li.iter[0] == "global", "%s grows by %s; only elements of the constant list may be moved into it" % (role, show(post)), W(f, li.node), key="%s.enclosing-append-only|%s" % (cl, role))
    # vacuity guard: the clauses above are about the two strip loops (one over the head texts, one over the tail texts); without them nothing was decided
    roles = set()
    for uid, li in fp.loops.items():
        if li.iter is not None and li.iter[0] == "global" and li.iter[2].endswith("HEAD_TEXT"):
            roles.add("head")
        if li.iter is not None and li.iter[0] == "global" and li.iter[2].endswith("TAIL_TEXT"):
            roles.add("tail")
    rep.ob(cl + ".enclosing-strip-loops", f.name, roles == {"head", "tail"}, "strip loops over the constant head / tail text lists found: %s; expected both (another way of stripping is not covered by the strip / guard / append-only clauses)" % sorted(roles), W(f),
           key=cl + ".enclosing-strip-loops|_extract_enclosing_text")
    # returns (head, val, tail) or the recursive call on the stripped value
    for path in fp.paths:
        r = path.returned()
        if path.kind != "return":
            continue
        if r[0] == "tuple" and len(r[1]) == 3:
            continue
        if M.is_call(r) and r[1] == ("global", mod, f.name):
            continue
        rep.fail(cl + ".enclosing-shape", f.name, "returns %s" % show(r)[:120], W(f, path.result[2]))


def c07(ctx, rep):
    rep.explanation = (
        "Non-interference split into (a) an information-flow rule over the code: on every feasible path of _anonymize_value the pseudonym and every value stored into the lookup are free of secret-derived terms "
        "except at declassified positions (lookup key, membership, format class, md5 salt length), the raw value is returned only under the two licensed guards, the line is reassembled as leading + substituted text + trailing, "
        "every logging call at INFO or above in the per-line call-graph closure has arguments free of line/secret text; and (b) structure rules over the folded pattern table: group index valid after the non-capturing allowed prefix, "
        "the consuming part of every indexed pattern is exactly prefix-group . secret-group (re.sub replaces the whole match by prefix + pseudonym), keyword-free $9$/$1$ catch-alls in the last groups, scrub patterns replaced by a constant; "
        "the recognised line forms may not shrink relative to the reference table (language inclusion per pattern)."
    )
    rep.rule = "one obligation per (clause, path) and per (clause, pattern); path = feasible syntactic path, pattern = entry of the folded table"
    rep.trust(*TRUST_SECRET)
    rep.assume("which token a vendor means when an optional numeric 'type' element precedes the secret is not derivable from the source (inventory only)",
               "implicit flows through branches on the secret other than the two licensed early returns are not tracked", "exception text logged with exc_info=True is not tracked")
    prefix, groups, parts = secret_struct.check_table(ctx, rep, "C07")
    secret_flow.check_anonymize_value(ctx, rep, "C07")
    r, out = secret_rmi.check_rmi(ctx, rep, "C07")
    _enclosing_lists(ctx, rep, "C07")
    fns = _perline_functions(ctx) + [ctx.p.find_function("anonymize_files"), ctx.p.find_function("FileAnonymizer.anonymize_file")]
    n = secret_rmi.logging_sinks(ctx, rep, "C07", fns, SECRET_PARAMS)
    rep.stat("logging_calls_examined", n)
    rep.ob("C07.logging-floor", "per-line closure", n >= 8, "logging calls found in the per-line closure: %d (floor 8)" % n, "", nontrivial=False)
    rep.ob("C07.search-stops-only-after-replacement", "replace_matching_item", not out.get("identity_stop"),
           "the pattern search stops as soon as a pattern matched, but _anonymize_value can return the captured text unchanged (%s): a reserved word captured by an earlier pattern (e.g. 'enable secret level 15 5 $1$...' captures 'level') ends the search and the catch-all never sees the hash" % out.get("identity_conds"),
           W(r.fn), witness="enable secret level 15 5 $1$wtHI$0rN7R8PKwC30AsCGA77vy.", key="C07.search-stops-only-after-replacement|" + ";".join(sorted(out.get("identity_conds") or [])))
    from . import refpatterns
    refpatterns.check(ctx, rep, "C07", prefix, groups, parts)
    # every line goes through the secret stage and only the stage's result is written
    from .checks_pipe import line_loop_rules
    line_loop_rules(ctx, rep, "C07")
    from .checks_pipe import stream_open_rule
    stream_open_rule(ctx, rep, "C07")
    from .checks_pipe import independent_wiring
    independent_wiring(ctx, rep, "C07", only=("compiled_regexes", "pwd_lookup"))
    from .checks_pipe import import_clauses
    import_clauses(ctx, rep, "C07", "C09", c09, ("C09.replacement-verbatim",))  # a template would let a back-reference in the kept prefix re-insert the secret group
    # a $9$ secret goes through the decoder first: a string the decoder neither refuses nor decodes fails the file in a way that depends on the secret's characters
    from .checks_misc import c18 as _c18
    import_clauses(ctx, rep, "C07", "C18", _c18, ("C18.valid-alphabet", "C18.valid-min-length", "C18.validated-before-tables", "C18.refusal"), with_k3=False)
    # the secret stage runs whenever the caller asked for it, whatever else was asked for
    from .checks_pipe import c19 as _c19
    import_clauses(ctx, rep, "C07", "C19", _c19, ("C19.binding", "C19.options-not-rewritten"))
    # every file that is written is written from its input by this run (a kept older output may hold the secrets)
    from .checks_pipe import c16 as _c16
    import_clauses(ctx, rep, "C07", "C16", _c16, ("C16.one-io-per-file", "C16.opens-the-pair", "C16.work-inside-try"), required=False)


def _one_lookup_per_run(ctx, rep, cl):
    p, A, G = ctx.p, ctx.A, ctx.G
    f_fa = p.find_function("FileAnonymizer.__init__")
    f_io = p.find_function("FileAnonymizer.anonymize_io")
    f_rmi = p.find_function("replace_matching_item")
    writers = []
    for f in p.all_functions():
        for e, ls, path in A.paths(f).all_effects():
            if e.kind == "store_attr" and e.b == "pwd_lookup":
                writers.append((f, e))
            if e.kind == "call" and e.a[1][0] == "attr" and e.a[1][1][0] == "attr" and e.a[1][1][2] == "pwd_lookup" and e.a[1][2] in ("clear", "copy", "pop", "popitem"):
                rep.fail(cl + ".lookup-not-reset", f.qualname, "the per-run lookup is cleared/copied: %s" % show(e.a), W(f, e.node))
    ok = all(f is f_fa for f, e in writers) and any(e.c == ("dict", ()) for f, e in writers) and all(e.c in (("dict", ()), ("const", None)) for f, e in writers)
    rep.ob(cl + ".one-lookup-per-run", "FileAnonymizer", ok, "pwd_lookup is assigned only in the constructor (None, then {} when passwords are anonymized): %s" % [(f.name, show(e.c)) for f, e in writers], W(f_fa), key=cl + ".one-lookup-per-run|FileAnonymizer")
    n = 0
    for cs in G.by_owner.get(f_io.qualname, []):
        if f_rmi in cs.funcs():
            n += 1
            b = bind_args(cs.term, f_rmi) or {}
            lk = b.get(f_rmi.mparams[2])
            rep.ob(cl + ".lookup-argument", "anonymize_io", lk == ("attr", SELF, "pwd_lookup") and bool(cs.loops), "replace_matching_item receives %s as lookup; expected the per-run field self.pwd_lookup itself (not a copy, not a per-file object)" % show(lk), cs.where, key=cl + ".lookup-argument|anonymize_io")
    rep.ob(cl + ".lookup-call-site", "anonymize_io", n == 1, "secret stage call sites: %d" % n, W(f_io), nontrivial=False)
    # no local alias of the lookup hoisted out of the loop
    for path in A.paths(f_io).paths:
        for k, v in path.env.items():
            if any(s == ("attr", SELF, "pwd_lookup") for s in subterms(v)) and k not in ("self",):
                rep.fail(cl + ".lookup-alias", "anonymize_io", "local %s aliases/derives from the lookup: %s" % (k, show(v)), W(f_io), key=cl + ".lookup-alias|anonymize_io")


def c08(ctx, rep):
    rep.explanation = (
        "Lookup discipline on every feasible path of _anonymize_value: a hit returns the stored value (lookup[value]; for a decryptable $9$ string juniper_nonrandom_encrypt(lookup[plaintext], salt)); "
        "a miss stores exactly once, after the counter len(lookup) was read, under the key the membership test used (plaintext when the value decrypts, else the stripped value), the stored value being the returned pseudonym "
        "(its plaintext for $9$); keys are the enclosing-text-stripped value and head/tail are re-attached; per-format encoders have the injective shapes of the table; juniper_decrypt guarded by except ValueError; "
        "one lookup per run (assigned only in the constructor, passed as such to every secret-stage call, never copied or cleared)."
    )
    rep.rule = "one obligation per (clause, feasible path of _anonymize_value) plus wiring obligations"
    rep.trust(*TRUST_SECRET)
    rep.assume("md5-crypt under a fixed salt is injective in the counter up to hash collisions", "C18: the $9$ codec round-trips (decrypt(encrypt(p)) = p)")
    from .checks_misc import stage_state_rule
    stage_state_rule(ctx, rep, "C08", ["replace_matching_item", "juniper_decrypt", "juniper_nonrandom_encrypt"])
    from .checks_pipe import line_loop_rules, stream_open_rule
    line_loop_rules(ctx, rep, "C08")  # equal secrets on different lines meet in one lookup only if every line is one unit of work
    stream_open_rule(ctx, rep, "C08")
    secret_flow.check_anonymize_value(ctx, rep, "C08")
    _one_lookup_per_run(ctx, rep, "C08")
    _enclosing_lists(ctx, rep, "C08")
    secret_rmi.check_rmi(ctx, rep, "C08")
    _pfx8, _grps8, _parts8 = secret_struct.check_table(ctx, rep, "C08", want_catchalls=False)
    from . import refpatterns as _rp
    _rp.check(ctx, rep, "C08", _pfx8, _grps8, _parts8)  # a widened replaced span keys the same secret differently depending on what follows it
    # the secret is the token as written (words of the line itself), and what the later stages do to a pseudonym does not depend on the line form around it
    from .checks_pipe import split_line_shape, import_clauses
    split_line_shape(ctx, rep, "C08")
    from . import checks_rx as _rx
    import_clauses(ctx, rep, "C08", "C11", _rx.c11, ("C11.sub-plumbing", "C11.sub-line", "C11.pure-lookup"))
    # "a $9$ string and any other spelling of the same plaintext are the same secret" rests on the decoder: C18's decoder clauses re-run
    from .report import Report
    from .checks_misc import c18
    sub = Report("C18", quiet=True)
    c18(ctx, sub, with_k3=False)
    for o in sub.obligations:
        cn = o["clause"].split(".", 1)[1]
        if cn in ("decode-prelude", "decode-row", "decode-chain", "decode-groups-complete", "valid-alphabet", "valid-min-length", "validated-before-tables", "validated-before-indexing", "refusal", "gap", "gap-decode-value", "gap-decode-guard", "alphabet-distinct", "alpha-num-inverse", "extra-total", "weights-mixed-radix", "weights-cover-bytes", "encode-greedy", "encode-ring", "encode-row", "encode-chain", "encode-prefix", "encode-all-chars", "decode-result"):
            rep.ob("C08.codec." + cn, o["construct"], o["ok"], o["detail"], o["where"], o.get("witness"), key="C08.codec.%s|%s" % (cn, o["construct"]))


JUNIPER_FAMILY = ["QzF3n6/9CAtpu0O", "B1IREhcSyrleKvMW8LXx", "7N-dVbwsY2g4oaJZGUDj", "iHkq.mPf5T"]
JUNIPER_ENCODING = [[1, 4, 32], [1, 16, 32], [1, 8, 32], [1, 64], [1, 32], [1, 4, 16, 128], [1, 32, 64]]


def _juniper_standard_tables(ctx, rep, cl):
    """A replacement must be decryptable by an INDEPENDENT $9$ decoder: the codec's tables must be the
    published ones (Crypt::Juniper): family boundaries decide the number of filler characters per salt."""
    JS = "netconan.utils.juniper_secrets"
    loc = "netconan/utils/juniper_secrets.py"
    for name, want in (("FAMILY", JUNIPER_FAMILY), ("ENCODING", JUNIPER_ENCODING), ("MAGIC", "$9$")):
        try:
            got = ctx.folder.module_const(JS, name)
        except Unfoldable as e:
            got = "<%s>" % e
        if isinstance(got, tuple):
            got = list(got)
        if isinstance(got, list):
            got = [list(x) if isinstance(x, tuple) else x for x in got]
        rep.ob(cl + ".juniper-tables-standard", name, got == want, "%s folds to %r; the published Juniper $9$ table is %r (an internally consistent but different table yields strings no other decoder accepts)" % (name, got, want), loc,
               key="%s.juniper-tables-standard|%s" % (cl, name))
    try:
        extra = ctx.folder.module_const(JS, "EXTRA")
        want_extra = {c: 3 - i for i, fam in enumerate(JUNIPER_FAMILY) for c in fam}
        rep.ob(cl + ".juniper-tables-standard", "EXTRA", extra == want_extra, "EXTRA (filler count per salt character) equals 3 - family index over the published families", loc, key="%s.juniper-tables-standard|EXTRA" % cl)
    except Unfoldable:
        pass


def c09(ctx, rep):
    rep.explanation = (
        "Classifier/encoder agreement: the classifier is read as an ordered list of regular languages ('last matching test wins', verified on its path set); for every format class the language of well-formed secrets "
        "(md5 salt 1-8, type-7 salts 00-15, $6$, $9$ over the folded alphabet, digits, hex) is included in the language classified so, and the encoder's output language (from constants and the passlib contracts) is "
        "re-classified into the same class; each class has exactly one encoder branch with the demanded shape (static salts, md5 salt length = old salt length); context: match = prefix . secret for all indexed patterns, "
        "replacement = prefix + head + pseudonym + tail, line = leading + text + trailing; the replacement reaches re.sub verbatim."
    )
    rep.rule = "one obligation per class (language inclusions), per path (encoder shape) and per pattern (partition)"
    rep.trust(*TRUST_SECRET)
    rep.assume("passlib's outputs decode with independent decoders (third-party)", "$9$ decodability is C18")
    classifier.check(ctx, rep, "C09")
    from .checks_pipe import stream_open_rule, line_loop_rules
    stream_open_rule(ctx, rep, "C09")
    from .checks_pipe import import_clauses as _imp9
    from .checks_misc import c18 as _c18_9
    _imp9(ctx, rep, "C09", "C18", _c18_9, ("C18.encode-", "C18.encoder-total", "C18.fixedc"), with_k3=False)  # "Juniper $9$ stays decryptable $9$": the replacement is what the encoder emits
    line_loop_rules(ctx, rep, "C09")  # "all text before and after it on the line is kept in place": what is written for a line is the stage chain's result for that very line
    _juniper_standard_tables(ctx, rep, "C09")
    secret_flow.check_anonymize_value(ctx, rep, "C09")
    _pfx, _grps, _parts = secret_struct.check_table(ctx, rep, "C09", want_catchalls=False)
    from . import refpatterns
    refpatterns.check(ctx, rep, "C09", _pfx, _grps, _parts)
    r, out = secret_rmi.check_rmi(ctx, rep, "C09")
    _enclosing_lists(ctx, rep, "C09")
    for s, wb in out.get("template_sub", []):
        rep.fail("C09.replacement-verbatim", "replace_matching_item", "the replacement (prefix text from the line + pseudonym) is handed to re.sub as a TEMPLATE string: a backslash in the kept prefix (e.g. user name 'a\\1b' or 'a\\gb') is interpreted, garbling the kept context or raising re.error",
                 wb, witness="snmp-server user a\\gb grp auth md5 secretpw", key="C09.replacement-verbatim|replace_matching_item")
    if not out.get("template_sub"):
        rep.ob("C09.replacement-verbatim", "replace_matching_item", True, "replacement is a callable: inserted verbatim", W(r.fn))


# ----------------------------------------------------------------------
def reserved_flow(ctx, rep, cl):
    """User reserved words reach both consumers (word stage and secret stage)."""
    p, A, G = ctx.p, ctx.A, ctx.G
    f_fa = p.find_function("FileAnonymizer.__init__")
    f_io = p.find_function("FileAnonymizer.anonymize_io")
    f_rmi = p.find_function("replace_matching_item")
    swa = p.find_class("SensitiveWordAnonymizer")
    swa_init = swa.find_method("__init__")
    rw = ("param", "reserved_words")
    fp = A.paths(f_fa)
    rep.analysed(f_fa)

    def as_given(t):
            """rw itself, or set()/list()/frozenset() of it: the words are not transformed"""
            m_ = t
            while m_[0] == "mut":
                if m_[2] in ("update", "__ior__", "extend", "union_update") and any(as_given(a) for a in m_[3]):
                    return True  # a local set updated with the words and then stored / returned
                m_ = m_[1]
            t = strip_mut(t)
            if t == rw:
                return True
            if M.is_call(t) and t[1][0] == "builtin" and t[1][1] in ("set", "list", "tuple", "frozenset") and len(t[2]) == 1:
                return as_given(t[2][0])
            if t[0] == "binop" and t[1] in ("|", "+"):
                return as_given(t[2]) or as_given(t[3])
            if M.is_call(t) and t[1][0] == "attr" and t[1][2] == "union":
                return any(as_given(a) for a in t[2]) or as_given(t[1][1])
            if t[0] == "comp" and len(t[4]) == 1 and t[3] == t[4][0][0] and not t[4][0][2]:
                return as_given(t[4][0][1])
            return False

    def includes_user(term, path, upto):
        """Does `term` (a reserved-set expression) include the user's words, AS GIVEN, on this path?"""
        if term is None:
            return False
        if as_given(term):
            return True
        # a field: look at its last store before `upto`
        if term[0] == "attr" and term[1] == SELF:
            last = None
            last_i = -1
            for i, e in enumerate(path.effects[:upto]):
                if e.kind == "store_attr" and e.a == SELF and e.b == term[2]:
                    last, last_i = e.c, i
            if last is not None and as_given(last):
                return True
            # mutated in place after the last (re)binding of the field
            for e in path.effects[last_i + 1:upto]:
                if e.kind == "call" and e.a[1][0] == "attr" and e.a[1][1] == term and e.a[1][2] in ("update", "__ior__") and any(as_given(a) for a in e.a[2]):
                    return True
        # the module-level default set: updated in place before
        if term[0] == "global" and term[2] == "default_reserved_words":
            for e in path.effects[:upto]:
                if e.kind == "call" and e.a[1][0] == "attr" and e.a[1][1][0] == "global" and e.a[1][1][2] == "default_reserved_words" and e.a[1][2] == "update" and any(as_given(a) for a in e.a[2]):
                    return True
        return False

    secret_term = None
    # the reserved set the secret stage uses
    for cs in G.by_owner.get(f_io.qualname, []):
        if f_rmi in cs.funcs():
            b = bind_args(cs.term, f_rmi) or {}
            secret_term = b.get(f_rmi.mparams[4], ("global", "netconan.sensitive_item_removal", "default_reserved_words"))
    n_word = n_sec = 0
    for path in fp.paths:
        if path.kind == "raise" or not path.feasible():
            continue
        given = path.truth(("compare", ("is",), (rw, ("const", None))))
        if given is True:
            continue  # no user words on this path (a path that never tests the parameter may carry user words)
        for i, e in enumerate(path.effects):
            if e.kind == "call" and any(t[0] == "cls" and t[1] is swa for t in G.types_of(e.a[1], f_fa)):
                n_word += 1
                b = bind_args(e.a, swa_init, 1) or {}
                t = b.get("reserved_words", ("global", "netconan.sensitive_item_removal", "default_reserved_words"))
                ok = includes_user(t, path, i)
                rep.ob(cl + ".reserved-reach-word-stage", "FileAnonymizer.__init__", ok,
                       "SensitiveWordAnonymizer is built with reserved set %s on path [%s]; the user's reserved words must already be in it (the constructor snapshots it)" % (show(t), path.describe()[:140]), W(f_fa, e.node),
                       key=cl + ".reserved-reach-word-stage|FileAnonymizer.__init__")
        # secret stage: by the end of the constructor the set it will use contains the user's words
        if path.truth(("param", "anon_pwd")) is True:
            n_sec += 1
            ok = includes_user(secret_term, path, len(path.effects))
            rep.ob(cl + ".reserved-reach-secret-stage", "FileAnonymizer.__init__", ok,
                   "the secret stage uses reserved set %s; on path [%s] the user's reserved words are not merged into it" % (show(secret_term), path.describe()[:140]), W(f_fa),
                   key=cl + ".reserved-reach-secret-stage|FileAnonymizer.__init__")
    swallowed = [pth.describe()[-120:] for pth in fp.paths if pth.feasible() and pth.kind != "raise" and any(t[0] == "except" for t, pol in pth.atoms())]
    rep.ob(cl + ".stage-failure-not-swallowed", "FileAnonymizer.__init__", not swallowed,
           "the constructor catches an exception and carries on (%s): a stage whose construction failed (e.g. an invalid AS number) would be silently disabled and its items left in the output" % swallowed[:2], W(f_fa),
           key=cl + ".stage-failure-not-swallowed|FileAnonymizer.__init__")
    rep.ob(cl + ".reserved-paths", "FileAnonymizer.__init__", n_word >= 1 and n_sec >= 1, "constructor paths with user reserved words examined: word stage %d, secret stage %d" % (n_word, n_sec), W(f_fa), nontrivial=False)
    # _anonymize_value returns the raw value for reserved words (checked by the flow rules) and receives that set
    return secret_term


def c10(ctx, rep):
    p, A, G, folder = ctx.p, ctx.A, ctx.G, ctx.folder
    rep.explanation = (
        "Word stage structure: the word pattern is compile('(' + '|'.join(W) + ')', IGNORECASE) with W derived from all listed words and every word passed through re.escape (taint rule: user text reaches a regex only escaped); "
        "anonymize applies sub to every whitespace token not in the skip set and re-joins all tokens in order between leading and trailing, behind a search guard with the same pattern on the same line; "
        "the skip set is built only from (lower-cased) reserved words that contain a listed word; pseudonym = first 6 hex digits of md5(salt + matched text), memoised per instance; the user's reserved words are merged "
        "before both consumers are built; reserved secret values are returned unchanged; the word stage runs after secrets and addresses."
    )
    rep.rule = "one obligation per clause instance on real terms/paths"
    rep.trust("re.IGNORECASE matching and re.escape (re docs)", "hashlib.md5(b).hexdigest(): pure, 32 lowercase hex digits")
    rep.assume("listed words start and end with a letter outside a-f and contain no run of six hex digits (property's quantifier): a pseudonym or an address image cannot spell them")
    from .checks_misc import stage_state_rule
    stage_state_rule(ctx, rep, "C10", ["SensitiveWordAnonymizer"])
    from .checks_pipe import independent_wiring
    independent_wiring(ctx, rep, "C10", only=("anonymizer_sensitive_word",))
    from .checks_ip import option_spec_rule
    option_spec_rule(ctx, rep, "C10", only=("--sensitive-words", "--reserved-words"))
    swa = p.find_class("SensitiveWordAnonymizer")
    init = swa.find_method("__init__")
    rep.analysed(init)
    loc = "%s:%d" % (swa.module.relpath, swa.node.lineno)
    sw = ("param", init.mparams[1])
    # 1/2/3 pattern construction
    f_rx = swa.find_method("_generate_sensitive_word_regex")
    if f_rx is None:
        raise AnalysisError("anchor _generate_sensitive_word_regex not found")
    rep.analysed(f_rx)
    wordsp = ("param", f_rx.mparams[1])
    for path in A.paths(f_rx).paths:
        r = path.returned()
        w = W(f_rx)
        ok = M.is_call(r) and M.callee_name(r) == "compile"
        if not ok:
            rep.fail("C10.pattern-construction", f_rx.name, "returns %s; expected re.compile(...)" % show(r), w)
            continue
        flags_t = r[2][1] if len(r[2]) > 1 else dict(r[3]).get("flags")
        fl = None
        if flags_t is not None:
            fl = _fold_flags(ctx, flags_t)
        rep.ob("C10.ignorecase", f_rx.name, fl == int(re.IGNORECASE), "flags fold to %r; expected exactly re.IGNORECASE (full Unicode case-insensitive matching)" % (fl,), w, key="C10.ignorecase|_generate_sensitive_word_regex")
        arg = r[2][0]
        tmpl = joined = None
        af = M.as_format(arg)
        if af is not None and len(af[1]) == 1:
            tmpl, joined = af[0], af[1][0]
        rep.ob("C10.pattern-template", f_rx.name, tmpl == "({})", "template %r; expected '({})' (one group holding the alternation, no anchors)" % (tmpl,), w, key="C10.pattern-template|_generate_sensitive_word_regex")
        elems = None
        if joined is not None and M.is_call(joined) and joined[1] == ("attr", ("const", "|"), "join") and len(joined[2]) == 1:
            elems = joined[2][0]
        rep.ob("C10.pattern-join", f_rx.name, elems is not None, "alternation built as %s; expected '|'.join(<words>)" % show(joined), w)
        if elems is not None:
            esc, ordered, src = _word_list_facts(elems, wordsp)
            rep.ob("C10.all-words", f_rx.name, src, "alternation elements %s derive from every element of the word list" % show(elems), w, key="C10.all-words|_generate_sensitive_word_regex")
            rep.ob("C10.words-escaped", f_rx.name, esc,
                   "listed words are interpolated into the pattern without re.escape (%s): a word with a regex metacharacter (e.g. 'x+y', 'a.b', 'c(d') is interpreted as a pattern and survives, or fails to compile" % show(elems), w,
                   witness="x+y", key="C10.words-escaped|_generate_sensitive_word_regex")
    # constructor: regex built from all (lower-cased) words; fields
    for path in A.paths(init).paths:
        stores = {e.b: e for e, ls in path.stores() if e.kind == "store_attr" and e.a == SELF}
        w = W(init)
        rxs = stores.get("sens_regex")
        ok = rxs is not None and M.is_call(rxs.c) and rxs.c[1] == ("attr", SELF, f_rx.name) and len(rxs.c[2]) == 1
        src_ok = False
        if ok:
            a = strip_mut(rxs.c[2][0])
            src_ok = _derives_from_all(a, sw)
        if ok:
            a0 = strip_mut(rxs.c[2][0])
            canon_ok = True
            for x in subterms(a0):
                if x[0] == "comp" and len(x[4]) == 1 and _derives_from_all(x[4][0][1], sw):
                    tgt = x[4][0][0]
                    canon_ok = x[3] == tgt or x[3] == ("call", ("attr", tgt, "lower"), (), ())
            rep.ob("C10.words-canonicalised-by-lower", init.name, canon_ok, "listed words are canonicalised by %s; only w.lower() is compatible with IGNORECASE matching (casefold() turns 'ß' into 'ss', which the pattern then no longer matches in the text)" % show(a0)[:120], w,
                   key="C10.words-canonicalised-by-lower|SensitiveWordAnonymizer.__init__")
        rep.ob("C10.regex-from-all-words", init.name, ok and src_ok, "self.sens_regex = %s; expected the pattern of ALL listed words" % (show(rxs.c) if rxs else None), w, key="C10.regex-from-all-words|SensitiveWordAnonymizer.__init__")
        memo = stores.get("sens_word_replacements")
        rep.ob("C10.memo-per-instance", init.name, memo is not None and memo.c == ("dict", ()), "self.sens_word_replacements = %s; expected a fresh dict per anonymizer (the pseudonym depends on the salt)" % (show(memo.c) if memo else None), w, key="C10.memo-per-instance|SensitiveWordAnonymizer")
        salt = stores.get("salt")
        rep.ob("C10.salt-field", init.name, salt is not None and salt.c == ("param", "salt"), "self.salt = %s" % (show(salt.c) if salt else None), w)
        res = stores.get("reserved_words")
        okr = res is not None and res.c[0] == "comp" and res.c[1] == "set" and res.c[4][0][1] == ("param", "reserved_words") and not res.c[4][0][2]
        okr = okr and res.c[3] == ("call", ("attr", res.c[4][0][0], "lower"), (), ())  # tokens are compared in lower case (anonymize), so the reserved words must be
        rep.ob("C10.reserved-lowercased", init.name, okr, "self.reserved_words = %s; expected {w.lower() for w in reserved_words} over every reserved word" % (show(res.c) if res else None), w)
        cw = stores.get("conflicting_words")
        okc = cw is not None and M.is_call(cw.c) and cw.c[1] == ("attr", SELF, "_generate_conflicting_reserved_word_list")
        rep.ob("C10.skip-set-built", init.name, okc, "self.conflicting_words = %s" % (show(cw.c) if cw else None), w)
        if okc and cw.c[2]:
            # the reserved words are lower-cased, so the words they are compared with (`word in reserved`) must be lower-cased too
            a1 = strip_mut(cw.c[2][0])
            low = False
            for x in subterms(a1):
                if x[0] == "comp" and len(x[4]) == 1 and _derives_from_all(x[4][0][1], sw):
                    low = x[3] == ("call", ("attr", x[4][0][0], "lower"), (), ())
            if not low:
                f_conf = swa.find_method("_generate_conflicting_reserved_word_list")
                if f_conf is not None:
                    for e_, ls_, pth_ in A.paths(f_conf).all_effects():
                        for x in subterms(e_.a) if isinstance(e_.a, tuple) else ():
                            if x[0] == "compare" and x[1] == ("in",) and M.is_call(x[2][0]) and x[2][0][1][0] == "attr" and x[2][0][1][2] == "lower":
                                low = True  # lower-cased at the point of comparison instead
            rep.ob("C10.conflict-words-lowercased", init.name, low, "the reserved words that must be left alone are found by comparing the lower-cased reserved words with %s; a listed word with capitals would never be found inside them" % show(a1)[:100], w,
                   key="C10.conflict-words-lowercased|SensitiveWordAnonymizer.__init__")
    rep.ob("C10.memo-not-class-level", swa.name, "sens_word_replacements" not in swa.assigns, "the pseudonym memo is not a class attribute", loc, key="C10.memo-per-instance|SensitiveWordAnonymizer")
    for f in p.all_functions():
        if f is init:
            continue
        for e, ls, path in A.paths(f).all_effects():
            if e.kind == "store_attr" and e.b in ("sens_regex", "conflicting_words", "reserved_words", "sens_word_replacements") and f.cls is swa:
                rep.fail("C10.fields-constructor-only", f.qualname, "field %s reassigned outside the constructor" % e.b, W(f, e.node))
    # 5 skip set ⊆ reserved words
    f_c = swa.find_method("_generate_conflicting_reserved_word_list")
    if f_c is not None:
        rep.analysed(f_c)
        for path in A.paths(f_c).paths:
            if path.kind != "return":
                continue
            r = path.returned()
            ok = False
            loops = [e.a for e in path.effects if e.kind in ("loop",)]
            base = strip_mut(r)
            srcs = []
            for li in loops:
                for bp in li.body_paths:
                    for e in bp.effects:
                        if e.kind == "call" and e.a[1][0] == "attr" and e.a[1][2] in ("update", "add", "append", "extend"):
                            for s in subterms(e.a):
                                if s[0] == "comp":
                                    srcs.append(s)
                # acc |= {...} / acc = acc | {...} / acc = acc.union(...): the accumulated value grows by a comprehension
                for nm_, (pre_, posts_) in li.carried.items():
                    for post_ in posts_:
                        if post_ != ("carried", nm_, li.uid):
                            for s in subterms(post_):
                                if s[0] == "comp" and s not in srcs:
                                    srcs.append(s)
            # ... and ALL of them: what is returned is the collection that was built (or an order/kind-changing copy), never a slice or a filtered part
            whole = base
            while M.is_call(whole) and whole[1] in (("builtin", "sorted"), ("builtin", "set"), ("builtin", "frozenset"), ("builtin", "list"), ("builtin", "tuple")) and len(whole[2]) == 1:
                whole = strip_mut(whole[2][0])
            complete = whole[0] in ("loopout", "comp", "carried", "set", "list") or (whole[0] == "binop" and whole[1] == "|")
            rep.ob("C10.skip-set-complete", f_c.name, complete, "returns %s; expected the whole collection built from the reserved words (a slice or a part of it leaves reserved tokens unprotected)" % show(r)[:120], W(f_c, path.result[2]),
                   key="C10.skip-set-complete|_generate_conflicting_reserved_word_list")
            ok = bool(srcs) and all(len(s[4]) == 1 and s[4][0][1] == ("attr", SELF, "reserved_words") and s[3] == s[4][0][0] for s in srcs)
            conds_ok = bool(srcs) and all(len(s[4][0][2]) == 1 and s[4][0][2][0][0] == "compare" and s[4][0][2][0][1] == ("in",) and s[4][0][2][0][2][1] == s[4][0][0] for s in srcs)
            rep.ob("C10.skip-set-subset-of-reserved", f_c.name, ok and conds_ok, "skip set elements: %s; expected reserved words (only) that contain a listed word" % [show(s)[:100] for s in srcs], W(f_c), key="C10.skip-set-subset-of-reserved|_generate_conflicting_reserved_word_list")
    # 4 application
    f_a = swa.find_method("anonymize")
    rep.analysed(f_a)
    lp = ("param", f_a.mparams[1])
    f_sp = p.find_function("_split_line")
    SPLIT = ("call", ("global", f_sp.module.name, f_sp.name), (lp,), ())
    mod = f_a.module.name
    n_sub = 0
    for path in A.paths(f_a).paths:
        if not path.feasible():
            continue
        r = path.returned()
        w = W(f_a, path.result[2] if path.result else f_a.node)
        guard = path.truth(("compare", ("is",), (("call", ("attr", ("attr", SELF, "sens_regex"), "search"), (lp,), ()), ("const", None))))
        if r == lp:
            rep.ob("C10.fast-path", f_a.name, guard is True, "the line is returned unchanged only when the word pattern does not occur in it (%s)" % path.describe()[:120], w, key="C10.fast-path|anonymize")
            continue
        n_sub += 1
        parts = M.concat_parts(r)
        ok = len(parts) == 3 and parts[0] == ("sub", SPLIT, ("const", 0)) and parts[2] == ("sub", SPLIT, ("const", 2))
        mid_ok = False
        if ok:
            j = parts[1]
            if M.is_call(j) and j[1] == ("attr", ("const", " "), "join") and len(j[2]) == 1:
                c = j[2][0]
                if c[0] == "comp" and c[1] in ("list", "gen") and len(c[4]) == 1 and c[4][0][1] == ("sub", SPLIT, ("const", 1)) and not c[4][0][2]:
                    wv = c[4][0][0]
                    sub = ("call", ("attr", ("attr", SELF, "sens_regex"), "sub"), (("attr", SELF, "_lookup_anon_word"), wv), ())
                    want = ("ifexp", ("compare", ("in",), (wv, ("attr", SELF, "conflicting_words"))), wv, sub)
                    want2 = ("ifexp", ("compare", ("not in",), (wv, ("attr", SELF, "conflicting_words"))), sub, wv)
                    mid_ok = c[3] in (want, want2)
        rep.ob("C10.every-token", f_a.name, ok and mid_ok,
               "returns %s; expected leading + ' '.join(w if w in skip-set else pattern.sub(pseudonym, w) for EVERY w in line.split()) + trailing" % show(r)[:300], w, key="C10.every-token|anonymize")
    rep.ob("C10.substituting-path", f_a.name, n_sub >= 1, "substituting paths: %d" % n_sub, W(f_a), nontrivial=False)
    # 6 pseudonym
    f_l = swa.find_method("_lookup_anon_word")
    f_g = swa.find_method("_get_or_generate_sensitive_word_replacement")
    if f_l is not None and f_g is not None:
        rep.analysed(f_g)
        for path in A.paths(f_l).paths:
            mp = ("param", f_l.mparams[1])
            want = ("call", ("attr", SELF, f_g.name), (("call", ("attr", mp, "group"), (("const", 0),), ()),), ())
            want0 = ("call", ("attr", SELF, f_g.name), (("call", ("attr", mp, "group"), (), ()),), ())
            # group(1) is the whole match as well: the pattern is one outer group (C10.pattern-construction, checked above)
            want1 = ("call", ("attr", SELF, f_g.name), (("call", ("attr", mp, "group"), (("const", 1),), ()),), ())
            wants = ("call", ("attr", SELF, f_g.name), (("sub", mp, ("const", 0)),), ())
            rep.ob("C10.pseudonym-of-matched-text", f_l.name, path.returned() in (want, want0, want1, wants), "callback returns %s; expected the pseudonym of match.group(0)" % show(path.returned()), W(f_l), key="C10.pseudonym-of-matched-text|_lookup_anon_word")
        wp = ("param", f_g.mparams[1])
        try:
            n = folder.module_const(mod, "_ANON_SENSITIVE_WORD_LEN")
        except Unfoldable:
            n = None
        rep.ob("C10.pseudonym-length", "_ANON_SENSITIVE_WORD_LEN", n == 6, "pseudonym length folds to %r; expected 6" % (n,), W(f_g))
        digest = ("call", ("attr", ("call", ("global", mod, "md5"), (("call", ("attr", ("binop", "+", ("attr", SELF, "salt"), wp), "encode"), (), ()),), ()), "hexdigest"), (), ())
        fresh = ("sub", digest, ("slice", None, ("const", n) if isinstance(n, int) else ("global", mod, "_ANON_SENSITIVE_WORD_LEN"), None))
        memo_get = ("call", ("attr", ("attr", SELF, "sens_word_replacements"), "get"), (wp,), ())
        for path in A.paths(f_g).paths:
            if not path.feasible():
                continue
            r = path.returned()
            w = W(f_g, path.result[2] if path.result else f_g.node)
            stores = [e for e, ls in path.stores() if e.kind == "store_sub"]
            memo_t = ("attr", SELF, "sens_word_replacements")
            memo_sub = ("sub", memo_t, wp)
            memo_in = ("compare", ("in",), (wp, memo_t))
            if r == memo_sub:
                # `return self.memo[word]` at the end: what was just stored under the word, or - when the word was found in the memo - the stored pseudonym
                mine = [e for e in stores if e.a == memo_t and e.b == wp]
                if mine:
                    r = mine[-1].c
                elif path.truth(memo_in) is True:
                    rep.ob("C10.memo-hit", f_g.name, not stores, "memo hit returns the stored pseudonym of the same text", w)
                    continue
            if r == memo_get:
                rep.ob("C10.memo-hit", f_g.name, (path.truth(("compare", ("is",), (memo_get, ("const", None)))) is False or path.truth(memo_get) is True) and not stores, "memo hit returns the stored pseudonym of the same text", w)
            else:
                ok = r == fresh and len(stores) == 1 and stores[0].a == ("attr", SELF, "sens_word_replacements") and stores[0].b == wp and stores[0].c == fresh
                rep.ob("C10.pseudonym-keyed", f_g.name, ok, "pseudonym is %s (stores %s); expected md5((salt + matched text).encode()).hexdigest()[:6], memoised under the matched text" % (show(r)[:160], [repr(s)[:80] for s in stores]), w, key="C10.pseudonym-keyed|_get_or_generate_sensitive_word_replacement")
    # 7 user reserved words reach both consumers; reserved secrets unchanged
    reserved_flow(ctx, rep, "C10")
    av = secret_flow.AV(ctx)
    n_res = 0
    for path in av.paths:
        if path.returned() == av.raw and path.truth(("compare", ("in",), (av.V, av.reserved))) is True:
            n_res += 1
    from .report import Report
    sub = Report("C08", quiet=True)
    secret_flow.check_anonymize_value(ctx, sub, "C08")
    for o in sub.obligations:
        if o["clause"] in ("C08.reserved-checked-first", "C08.unchanged-only-when-licensed"):
            rep.ob("C10." + o["clause"].split(".", 1)[1], o["construct"], o["ok"], o["detail"], o["where"], o.get("witness"), key="C10.%s|%s" % (o["clause"].split(".", 1)[1], o["construct"]))
    # ... and that set is the caller's set as given: the secret stage hands its reserved_words parameter on unchanged
    sub2 = Report("C10", quiet=True)
    secret_rmi.check_rmi(ctx, sub2, "C10")
    for o in sub2.obligations:
        if o["clause"] in ("C10.line-shape", "C10.replacement-value"):
            rep.ob(o["clause"], o["construct"], o["ok"], o["detail"], o["where"], o.get("witness"), key="%s|%s" % (o["clause"], o["construct"]))
    from .checks_pipe import import_clauses, c19 as _c19
    from .checks_pipe import line_loop_rules as _llr10
    _llr10(ctx, rep, "C10")  # "no listed word occurs anywhere in the output": the stage sees every line whole (a word cut in two by chunked reading matches nothing)
    import_clauses(ctx, rep, "C10", "C19", _c19, ("C19.list-options",))  # "no listed word survives": the lists reach the stage as typed (split on ',' only)
    rep.ob("C10.reserved-secret-unchanged", "_anonymize_value", n_res >= 1, "a secret value that is a reserved word is returned unchanged (paths: %d)" % n_res, W(av.fn), key="C10.reserved-secret-unchanged|_anonymize_value")
    # wiring + stage order
    f_fa = p.find_function("FileAnonymizer.__init__")
    for cs in G.by_owner.get(f_fa.qualname, []):
        if swa in cs.classes():
            b = bind_args(cs.term, init, 1) or {}
            rep.ob("C10.wiring", "FileAnonymizer.__init__", b.get(init.mparams[1]) == ("param", "sensitive_words") and b.get("salt") == ("attr", SELF, "salt"), "SensitiveWordAnonymizer(%s)" % {k: show(v) for k, v in b.items()}, cs.where, key="C10.wiring|FileAnonymizer.__init__")
    order = [s for s, _ in stage_order(ctx)]
    ok = "word" in order and all(order.index("word") > order.index(x) for x in ("pwd", "ip6", "ip4") if x in order) and order[order.index("word") + 1:] in ([], ["as"])
    rep.ob("C10.stage-order", "anonymize_io", ok, "stage order %s; the word stage must run after secrets and addresses, only the AS stage (digits) after it" % order, W(p.find_function("FileAnonymizer.anonymize_io")), key="C10.stage-order|anonymize_io")


def _fold_flags(ctx, t):
    if t[0] == "const":
        return t[1]
    if t[0] == "attr" and t[1][0] == "global":
        r = ctx.p.resolve_module_name(ctx.p.modules[t[1][1]], t[1][2])
        if r and r[0] == "ext":
            from .fold import _EXT_CONSTS
            return _EXT_CONSTS.get(r[1] + "." + t[2])
    if t[0] == "global":
        r = ctx.p.resolve_module_name(ctx.p.modules[t[1]], t[2])
        if r and r[0] == "ext":
            from .fold import _EXT_CONSTS
            return _EXT_CONSTS.get(r[1])
    if t[0] == "binop" and t[1] == "|":
        a, b = _fold_flags(ctx, t[2]), _fold_flags(ctx, t[3])
        return None if a is None or b is None else a | b
    return None


def _derives_from_all(t, src):
    """t is src, or an unfiltered comprehension / set() / list() / sorted() over src (every element kept)."""
    t = strip_mut(t)
    if t == src:
        return True
    if t[0] == "comp" and len(t[4]) == 1 and not t[4][0][2]:
        return _derives_from_all(t[4][0][1], src)
    if M.is_call(t) and t[1][0] == "builtin" and t[1][1] in ("set", "list", "sorted", "tuple", "frozenset") and t[2]:
        return _derives_from_all(t[2][0], src)
    if M.is_call(t) and t[1][0] == "builtin" and t[1][1] == "map" and len(t[2]) == 2:
        return _derives_from_all(t[2][1], src)
    return False


def _word_list_facts(elems, src):
    """(escaped, ordered, derived-from-all) for the alternation's element expression."""
    escaped = False
    t = elems
    # peel sorted(...)
    ordered = False
    while M.is_call(t) and t[1] == ("builtin", "sorted"):
        ordered = True
        t = t[2][0]
    if t[0] == "comp" and len(t[4]) == 1:
        elt = t[3]
        if M.is_call(elt) and M.callee_name(elt) == "escape" and elt[2] == (t[4][0][0],):
            escaped = True
    if M.is_call(t) and t[1] == ("builtin", "map") and len(t[2]) == 2 and t[2][0][0] in ("attr", "global") and show(t[2][0]).endswith("escape"):
        escaped = True
    return escaped, ordered, _derives_from_all(elems, src) or _derives_from_all(t, src)


CHECKS = {"C07": c07, "C08": c08, "C09": c09, "C10": c10}
