"""Static analysis machinery for the netconan properties C01..C19.

Nothing in /repo is imported or executed by this package: it reads the source
text of /repo/netconan/**/*.py (or an in-memory variant of it) and reasons over
syntax trees, folded constants, value terms, path sets and regular languages.
"""
