"""Recognised line forms may not shrink.

The property quantifies over "all recognised line forms"; the forms recognised by
the tree on which the properties were written are recorded (as pattern texts,
i.e. as *language specifications*) in /verif/reference/pwd_patterns.json.  For
every reference pattern some current pattern — in the same relative order —
must accept at least the same marked language  context # prefix # secret  (so the
same text is kept and the same text is replaced).  Re-spelling a pattern with the
same or a larger language, adding patterns, renaming: silent.  Narrowing an
optional element, dropping an alternative or a pattern: reported with the
shortest line form that is no longer handled.
"""
import json
import os

from . import rx, pwdtable, secret_struct
from .rx import RxError, CharSet

REF = os.path.join(os.path.dirname(os.path.dirname(os.path.abspath(__file__))), "reference", "pwd_patterns.json")
M1, M2 = "", ""
LOC = "netconan/default_pwd_regexes.py / sensitive_item_removal.py"


_WS_OTHER = None


def collapse_ws(n):
    """The patterns run on lines rebuilt as ' '.join(line.split()): no white-space character other than a single blank occurs,
    so every character set loses the other white-space characters (the class of white space and a blank are then the same set)."""
    global _WS_OTHER
    if _WS_OTHER is None:
        t, _ = rx.parse(r"\s", 0)
        ws = [x for x in rx.walk(t) if x[0] == "set"][0][1]
        _WS_OTHER = ws - CharSet.of(" ")
    t = n[0]
    if t == "set":
        return ("set", n[1] - _WS_OTHER)
    if t in ("cat", "alt"):
        return (t, tuple(collapse_ws(x) for x in n[1]))
    if t == "rep":
        return ("rep", collapse_ws(n[1]), n[2], n[3], n[4])
    if t == "group":
        return ("group", n[1], n[2], collapse_ws(n[3]))
    if t == "look":
        return ("look", n[1], n[2], collapse_ws(n[3]))
    return n


class _Marks:
    def __init__(self):
        self.table = {}

    def mark(self, node):
        key = repr(rx.strip_groups(node))
        if key not in self.table:
            self.table[key] = chr(0xE100 + len(self.table))
        return rx.lit(self.table[key])


def _replace_looks(n, marks):
    t = n[0]
    if t == "look":
        return marks.mark(n)
    if t in ("bol", "eol", "eos", "wordb"):
        return marks.mark(n)
    if t == "cat":
        return rx.cat(*[_replace_looks(x, marks) for x in n[1]])
    if t == "alt":
        return rx.alt(*[_replace_looks(x, marks) for x in n[1]])
    if t == "rep":
        return ("rep", _replace_looks(n[1], marks), n[2], n[3], n[4])
    if t == "group":
        return _replace_looks(n[3], marks)
    return n


def marked(text, idx, prefix_text, ptree, marks):
    """AST of the marked language of one pattern."""
    tree, info = rx.parse(prefix_text + text, 0)
    tree = collapse_ws(rx.drop_vacuous(tree))
    pat = pwdtable.Pat(text, idx, 0, 0, "ref")
    pat.tree, pat.info = tree, info
    if idx is None:
        items = pwdtable.strip_allowed_prefix(tree, ptree)
        if items is None:
            raise RxError("no allowed prefix")
        return _replace_looks(rx.cat(*items), marks)
    ok, msg, parts = secret_struct.partition(pat, ptree)
    if not ok:
        raise RxError("not partitionable: " + msg)
    lead = rx.cat(*[_replace_looks(x, marks) for x in parts["lookbehind"]])
    trail = rx.cat(*[_replace_looks(x, marks) for x in parts["trailing"]])
    pre = _replace_looks(parts["prefix"], marks) if parts["prefix"] is not None else rx.EPS
    sec = _replace_looks(parts["secret"], marks)
    return rx.cat(lead, rx.lit(M2), pre, rx.lit(M1), sec, trail)


def _all_markings(L, alpha):
    """{u M2 v M1 w : uvw in L}: every way of marking a line of L (deterministic product of L with a 3-phase counter)."""
    a2 = [i for i, a in enumerate(alpha.atoms) if M2 in a]
    a1 = [i for i, a in enumerate(alpha.atoms) if M1 in a]
    if len(a2) != 1 or len(a1) != 1 or alpha.atoms[a2[0]].size() != 1 or alpha.atoms[a1[0]].size() != 1:
        raise RxError("mark symbols are not atoms of the alphabet")
    a2, a1 = a2[0], a1[0]
    n = len(L.trans)
    trans = []
    for ph in range(3):
        for q in range(n):
            row = [None] * alpha.n
            for a in range(alpha.n):
                if a == a2:
                    row[a] = (n + q) if ph == 0 else None
                elif a == a1:
                    row[a] = (2 * n + q) if ph == 1 else None
                else:
                    t = L.trans[q][a]
                    row[a] = None if t is None else ph * n + t
            trans.append(row)
    return rx.DFA(alpha, trans, L.start, {2 * n + q for q in L.acc}).trim()


def check(ctx, rep, cl, prefix, groups, parts_by_pat):
    try:
        with open(REF) as fh:
            ref = json.load(fh)
    except FileNotFoundError:
        rep.note("reference pattern table missing: recognised-forms-do-not-shrink rule not run")
        return
    try:
        ptree, _ = rx.parse(prefix, 0)
        rptree, _ = rx.parse(ref["prefix"], 0)
        ptree, rptree = collapse_ws(ptree), collapse_ws(rptree)
    except RxError as e:
        rep.fail(cl + ".reference", "allowed prefix", "cannot parse: %s" % e, LOC)
        return
    # allowed prefix: the current context must admit every context the reference admitted
    lc, _, _ = rx.split_context(rx.cat(ptree, rx.lit("x")))
    lr, _, _ = rx.split_context(rx.cat(rptree, rx.lit("x")))
    rep.ob(cl + ".allowed-prefix-not-narrowed", "_ALLOWED_REGEX_PREFIX", repr(rx.strip_groups(ptree)) == repr(rx.strip_groups(rptree)) or (lc is not None and lr is not None and lr.chars.issubset(lc.chars) and (lc.bol or not lr.bol) and len(lc.other) >= len(lr.other)),
           "the characters allowed to precede a secret line form were narrowed", LOC, key=cl + ".allowed-prefix-not-narrowed|_ALLOWED_REGEX_PREFIX")
    marks = _Marks()
    cur = []
    for g in groups:
        for pat in g:
            if pat.error:
                cur.append((pat, None))
                continue
            try:
                cur.append((pat, marked(pat.text, pat.idx, prefix, ptree, marks)))
            except RxError as e:
                cur.append((pat, None))
    pos = 0
    n_ok = 0
    flat_ref = [(gi, t, i) for gi, g in enumerate(ref["groups"]) for t, i in g]
    for gi, text, idx in flat_ref:
        ident = text if len(text) <= 70 else text[:67] + "..."
        try:
            rnode = marked(text, idx, ref["prefix"], rptree, marks)
        except RxError as e:
            rep.note("reference pattern %r not analysable: %s" % (ident, e))
            continue
        found = None
        witness = None
        # fast path: identical text at or after pos
        for j in range(pos, len(cur)):
            if cur[j][0].text == text and cur[j][0].idx == idx:
                found = j
                break
        if found is None:
            for j in range(pos, len(cur)):
                pat, cnode = cur[j]
                if cnode is None or (pat.idx is None) != (idx is None):
                    continue
                try:
                    alpha, (R, C) = rx.languages([rnode, cnode])
                except RxError:
                    continue
                d = R - C
                if d.is_empty():
                    found = j
                    break
                if witness is None or j == pos:
                    ws = d.shortest(1)
                    if ws and (witness is None):
                        witness = (pat.ident, ws[0].replace(M1, "‹secret›").replace(M2, "‹›"))
        ok = found is not None
        if ok:
            n_ok += 1
            pos = found
            cpat = cur[found][0]
            if idx is not None and cpat.text != text:
                # the same line form, re-spelled: what is REPLACED must not grow - text the old pattern left in place after (or before) the secret
                # would be swallowed into the pseudonym (a (\S+) turned into (.+) takes the rest of the line)
                try:
                    rp = pwdtable.Pat(text, idx, 0, 0, "ref")
                    rp.tree, rp.info = rx.parse(ref["prefix"] + text, 0)
                    rp.tree = collapse_ws(rx.drop_vacuous(rp.tree))
                    okr, _, rparts = secret_struct.partition(rp, rptree)
                    cp = pwdtable.Pat(cpat.text, cpat.idx, 0, 0, "cur")
                    cp.tree, cp.info = rx.parse(prefix + cpat.text, 0)
                    cp.tree = collapse_ws(rx.drop_vacuous(cp.tree))
                    okc, _, cparts = secret_struct.partition(cp, ptree)
                    if okr and okc:
                        # on the lines the reference pattern handles, the edited pattern may mark only what the reference could mark
                        # (an optional element widened in front of the secret shifts WHICH token is replaced)
                        cnode = cur[found][1]
                        unmarked = rx.cat(*[_replace_looks(x, marks) for x in rparts["lookbehind"]], _replace_looks(rparts["prefix"], marks) if rparts["prefix"] is not None else rx.EPS,
                                          _replace_looks(rparts["secret"], marks), *[_replace_looks(x, marks) for x in rparts["trailing"]])
                        if cnode is not None:
                            rest = rx.star(rx.ANYCHAR)  # the pattern is searched for: whatever follows the match is part of the line
                            alpha2, (MR, MC, LU) = rx.languages([rx.cat(rnode, rest), rx.cat(cnode, rest), rx.cat(unmarked, rest)], extra_sets=[CharSet.of(M1), CharSet.of(M2)])
                            shifted = (MC & _all_markings(LU, alpha2)) - MR
                            wit2 = None if shifted.is_empty() else (shifted.shortest(1) or ["?"])[0].replace(M1, "‹secret›").replace(M2, "‹›")
                            rep.ob(cl + ".same-secret-on-known-lines", ident, shifted.is_empty(),
                                   "on a line the reference pattern %r handles, %r can take a different part for the secret: %r (‹›prefix‹secret›value): the token the reference replaced may now be left in place" % (ident, cpat.ident, wit2),
                                   LOC, witness=wit2, key=cl + ".same-secret-on-known-lines|" + ident)
                        alpha, (GR, GC) = rx.languages([_replace_looks(rparts["secret"], marks), _replace_looks(cparts["secret"], marks)])
                        grow = GC - GR
                        wit = None if grow.is_empty() else (grow.shortest(1) or ["?"])[0]
                        rep.ob(cl + ".secret-group-not-wider", ident, grow.is_empty(),
                               "the group that is replaced in %r now also matches %r, which the reference pattern %r left in place: text after the secret would be swallowed into the pseudonym" % (cpat.ident, wit, ident),
                               LOC, witness=wit, key=cl + ".secret-group-not-wider|" + ident)
                except RxError:
                    pass
        rep.ob(cl + ".recognised-forms-not-shrunk", ident, ok,
               "reference line form %r (group %d, index %s) is no longer fully handled by any pattern in order; e.g. closest pattern %r misses the form %r" % (ident, gi, idx, witness[0] if witness else None, witness[1] if witness else None), LOC,
               witness=witness[1] if witness else None, key="%s.recognised-forms-not-shrunk|%s" % (cl, ident))
    rep.stat("reference_patterns", len(flat_ref))
    rep.stat("reference_patterns_covered", n_ok)
