"""Recognised line forms may not shrink.

The property quantifies over "all recognised line forms"; the forms recognised by
the tree on which the properties were written are recorded (as pattern texts,
i.e. as *language specifications*) in /verif/reference/pwd_patterns.json.  For
every reference pattern some current pattern — in the same relative order —
must accept at least the same marked language  context # prefix # secret  (so the
same text is kept and the same text is replaced).  Re-spelling a pattern with the
same or a larger language, adding patterns, renaming: silent.  Narrowing an
optional element, dropping an alternative or a pattern: reported with the
shortest line form that is no longer handled.
"""
import json
import os

from . import rx, pwdtable, secret_struct
from .rx import RxError, CharSet

REF = os.path.join(os.path.dirname(os.path.dirname(os.path.abspath(__file__))), "reference", "pwd_patterns.json")
M1, M2 = "", ""
LOC = "netconan/default_pwd_regexes.py / sensitive_item_removal.py"


class _Marks:
    def __init__(self):
        self.table = {}

    def mark(self, node):
        key = repr(rx.strip_groups(node))
        if key not in self.table:
            self.table[key] = chr(0xE100 + len(self.table))
        return rx.lit(self.table[key])


def _replace_looks(n, marks):
    t = n[0]
    if t == "look":
        return marks.mark(n)
    if t in ("bol", "eol", "eos", "wordb"):
        return marks.mark(n)
    if t == "cat":
        return rx.cat(*[_replace_looks(x, marks) for x in n[1]])
    if t == "alt":
        return rx.alt(*[_replace_looks(x, marks) for x in n[1]])
    if t == "rep":
        return ("rep", _replace_looks(n[1], marks), n[2], n[3], n[4])
    if t == "group":
        return _replace_looks(n[3], marks)
    return n


def marked(text, idx, prefix_text, ptree, marks):
    """AST of the marked language of one pattern."""
    tree, info = rx.parse(prefix_text + text, 0)
    tree = rx.drop_vacuous(tree)
    pat = pwdtable.Pat(text, idx, 0, 0, "ref")
    pat.tree, pat.info = tree, info
    if idx is None:
        items = pwdtable.strip_allowed_prefix(tree, ptree)
        if items is None:
            raise RxError("no allowed prefix")
        return _replace_looks(rx.cat(*items), marks)
    ok, msg, parts = secret_struct.partition(pat, ptree)
    if not ok:
        raise RxError("not partitionable: " + msg)
    lead = rx.cat(*[_replace_looks(x, marks) for x in parts["lookbehind"]])
    trail = rx.cat(*[_replace_looks(x, marks) for x in parts["trailing"]])
    pre = _replace_looks(parts["prefix"], marks) if parts["prefix"] is not None else rx.EPS
    sec = _replace_looks(parts["secret"], marks)
    return rx.cat(lead, rx.lit(M2), pre, rx.lit(M1), sec, trail)


def check(ctx, rep, cl, prefix, groups, parts_by_pat):
    try:
        with open(REF) as fh:
            ref = json.load(fh)
    except FileNotFoundError:
        rep.note("reference pattern table missing: recognised-forms-do-not-shrink rule not run")
        return
    try:
        ptree, _ = rx.parse(prefix, 0)
        rptree, _ = rx.parse(ref["prefix"], 0)
    except RxError as e:
        rep.fail(cl + ".reference", "allowed prefix", "cannot parse: %s" % e, LOC)
        return
    # allowed prefix: the current context must admit every context the reference admitted
    lc, _, _ = rx.split_context(rx.cat(ptree, rx.lit("x")))
    lr, _, _ = rx.split_context(rx.cat(rptree, rx.lit("x")))
    rep.ob(cl + ".allowed-prefix-not-narrowed", "_ALLOWED_REGEX_PREFIX", repr(rx.strip_groups(ptree)) == repr(rx.strip_groups(rptree)) or (lc is not None and lr is not None and lr.chars.issubset(lc.chars) and (lc.bol or not lr.bol) and len(lc.other) >= len(lr.other)),
           "the characters allowed to precede a secret line form were narrowed", LOC, key=cl + ".allowed-prefix-not-narrowed|_ALLOWED_REGEX_PREFIX")
    marks = _Marks()
    cur = []
    for g in groups:
        for pat in g:
            if pat.error:
                cur.append((pat, None))
                continue
            try:
                cur.append((pat, marked(pat.text, pat.idx, prefix, ptree, marks)))
            except RxError as e:
                cur.append((pat, None))
    pos = 0
    n_ok = 0
    flat_ref = [(gi, t, i) for gi, g in enumerate(ref["groups"]) for t, i in g]
    for gi, text, idx in flat_ref:
        ident = text if len(text) <= 70 else text[:67] + "..."
        try:
            rnode = marked(text, idx, ref["prefix"], rptree, marks)
        except RxError as e:
            rep.note("reference pattern %r not analysable: %s" % (ident, e))
            continue
        found = None
        witness = None
        # fast path: identical text at or after pos
        for j in range(pos, len(cur)):
            if cur[j][0].text == text and cur[j][0].idx == idx:
                found = j
                break
        if found is None:
            for j in range(pos, len(cur)):
                pat, cnode = cur[j]
                if cnode is None or (pat.idx is None) != (idx is None):
                    continue
                try:
                    alpha, (R, C) = rx.languages([rnode, cnode])
                except RxError:
                    continue
                d = R - C
                if d.is_empty():
                    found = j
                    break
                if witness is None or j == pos:
                    ws = d.shortest(1)
                    if ws and (witness is None):
                        witness = (pat.ident, ws[0].replace(M1, "‹secret›").replace(M2, "‹›"))
        ok = found is not None
        if ok:
            n_ok += 1
            pos = found
        rep.ob(cl + ".recognised-forms-not-shrunk", ident, ok,
               "reference line form %r (group %d, index %s) is no longer fully handled by any pattern in order; e.g. closest pattern %r misses the form %r" % (ident, gi, idx, witness[0] if witness else None, witness[1] if witness else None), LOC,
               witness=witness[1] if witness else None, key="%s.recognised-forms-not-shrunk|%s" % (cl, ident))
    rep.stat("reference_patterns", len(flat_ref))
    rep.stat("reference_patterns_covered", n_ok)
