"""Constant folder: evaluates module-/class-level constant expressions of the
package to values, using only a whitelist of pure, total builtin operations on
already-folded constants (what a compiler's constant propagation does).  No
function of the analysed package is ever called.
"""
import ast
import re
import string as _string

from .source import AnalysisError, unparse


class Unfoldable(Exception):
    pass


_NORETURN = object()


class Rx:
    """A folded re.compile(pattern, flags) value."""

    def __init__(self, pattern, flags=0):
        self.pattern = pattern
        self.flags = int(flags)

    def __repr__(self):
        return "Rx(%r, flags=%d)" % (self.pattern, self.flags)

    def __eq__(self, o):
        return isinstance(o, Rx) and (o.pattern, o.flags) == (self.pattern, self.flags)

    def __hash__(self):
        return hash((self.pattern, self.flags))


class ExtRef:
    """Reference to something outside the package (e.g. ipaddress.ip_network)."""

    def __init__(self, dotted):
        self.dotted = dotted

    def __repr__(self):
        return "ExtRef(%s)" % self.dotted


_EXT_CONSTS = {
    "re.IGNORECASE": int(re.IGNORECASE),
    "re.I": int(re.IGNORECASE),
    "re.MULTILINE": int(re.MULTILINE),
    "re.M": int(re.MULTILINE),
    "re.DOTALL": int(re.DOTALL),
    "re.S": int(re.DOTALL),
    "re.VERBOSE": int(re.VERBOSE),
    "re.X": int(re.VERBOSE),
    "re.ASCII": int(re.ASCII),
    "re.A": int(re.ASCII),
    "re.UNICODE": int(re.UNICODE),
    "re.U": int(re.UNICODE),
    "string.ascii_letters": _string.ascii_letters,
    "string.ascii_lowercase": _string.ascii_lowercase,
    "string.ascii_uppercase": _string.ascii_uppercase,
    "string.digits": _string.digits,
    "string.hexdigits": _string.hexdigits,
    "string.punctuation": _string.punctuation,
    "string.printable": _string.printable,
    "string.whitespace": _string.whitespace,
    "string.octdigits": _string.octdigits,
    "errno.EEXIST": 17,
}

# pure builtins the folder may apply to folded constants
_PURE_BUILTINS = {
    "len": len,
    "list": list,
    "tuple": tuple,
    "set": set,
    "frozenset": frozenset,
    "dict": dict,
    "enumerate": lambda *a, **k: list(enumerate(*a, **k)),
    "range": lambda *a: list(range(*a)),
    "zip": lambda *a: list(zip(*a)),
    "reversed": lambda x: list(reversed(x)),
    "sorted": sorted,
    "str": str,
    "int": int,
    "bool": bool,
    "min": min,
    "max": max,
    "sum": sum,
    "chr": chr,
    "ord": ord,
    "abs": abs,
    "any": any,
    "all": all,
}

_PURE_METHODS = {
    str: {
        "format", "join", "lower", "upper", "strip", "lstrip", "rstrip", "split",
        "replace", "encode", "startswith", "endswith", "title", "capitalize",
        "zfill", "rjust", "ljust", "splitlines", "casefold", "swapcase", "count",
        "find", "index", "isdigit", "isalpha",
    },
    bytes: {"decode", "hex"},
    list: {"copy", "index", "count"},
    tuple: {"index", "count"},
    dict: {"keys", "values", "items", "get", "copy"},
    set: {"union", "intersection", "difference", "copy", "issubset", "issuperset"},
    frozenset: {"union", "intersection", "difference", "issubset", "issuperset"},
}

_MAX_SIZE = 2_000_000


def _binop(op, a, b):
    if isinstance(op, ast.Add):
        return a + b
    if isinstance(op, ast.Sub):
        return a - b
    if isinstance(op, ast.Mult):
        if isinstance(a, int) and isinstance(b, int) or True:
            r = a * b
        return r
    if isinstance(op, ast.Mod):
        return a % b
    if isinstance(op, ast.FloorDiv):
        return a // b
    if isinstance(op, ast.BitOr):
        return a | b
    if isinstance(op, ast.BitAnd):
        return a & b
    if isinstance(op, ast.BitXor):
        return a ^ b
    if isinstance(op, ast.LShift):
        if b > 256:
            raise Unfoldable("shift too large")
        return a << b
    if isinstance(op, ast.RShift):
        return a >> b
    if isinstance(op, ast.Pow):
        if isinstance(b, int) and abs(b) > 256:
            raise Unfoldable("pow too large")
        return a ** b
    raise Unfoldable("operator %s" % type(op).__name__)


class Folder:
    def __init__(self, program):
        self.p = program
        self._cache = {}
        self._busy = set()

    # public -------------------------------------------------------------
    def module_const(self, modname, name):
        m = self.p.modules.get(modname)
        if m is None:
            raise AnalysisError("module %s not found" % modname)
        return self._module_name(m, name)

    def class_const(self, cls, name):
        owner, expr = cls.find_assign(name)
        if owner is None:
            raise Unfoldable("class %s has no constant %s" % (cls.qualname, name))
        key = ("cls", owner.qualname, name)
        return self._memo(key, lambda: self.eval(expr, owner.module, cls=owner))

    def need_module_const(self, modname, name):
        try:
            return self.module_const(modname, name)
        except Unfoldable as e:
            raise AnalysisError("constant %s.%s does not fold: %s" % (modname, name, e))

    def need_class_const(self, cls, name):
        try:
            return self.class_const(cls, name)
        except Unfoldable as e:
            raise AnalysisError("constant %s.%s does not fold: %s" % (cls.qualname, name, e))

    def try_eval(self, node, module, cls=None, env=None):
        try:
            return True, self.eval(node, module, cls=cls, env=env)
        except Unfoldable:
            return False, None

    # internals ----------------------------------------------------------
    def _memo(self, key, thunk):
        if key in self._cache:
            v = self._cache[key]
            if isinstance(v, Unfoldable):
                raise v
            return v
        if key in self._busy:
            raise Unfoldable("cyclic constant %r" % (key,))
        self._busy.add(key)
        try:
            v = thunk()
        except Unfoldable as e:
            self._cache[key] = e
            raise
        finally:
            self._busy.discard(key)
        self._cache[key] = v
        return v

    def _module_name(self, m, name):
        r = self.p.resolve_module_name(m, name)
        if r is None:
            if name in _PURE_BUILTINS:
                return _PURE_BUILTINS[name]
            if name in ("True", "False", "None"):
                return {"True": True, "False": False, "None": None}[name]
            raise Unfoldable("unknown name %s in %s" % (name, m.name))
        return self._resolved(r)

    def _resolved(self, r):
        kind = r[0]
        if kind == "const":
            m, name = r[1], r[2]
            exprs = m.assigns[name]
            if len(exprs) != 1:
                raise Unfoldable("%s.%s assigned %d times" % (m.name, name, len(exprs)))
            return self._memo(("mod", m.name, name), lambda: self.eval(exprs[0], m))
        if kind == "classconst":
            return self.class_const(r[1], r[2])
        if kind == "ext":
            if r[1] in _EXT_CONSTS:
                return _EXT_CONSTS[r[1]]
            return ExtRef(r[1])
        if kind == "module":
            return r  # handled by Attribute
        if kind == "class":
            return r
        if kind == "func":
            raise Unfoldable("function value %s" % r[1].qualname)
        raise Unfoldable("cannot fold %r" % (r,))

    def eval(self, node, module, cls=None, env=None):
        env = env or {}
        ev = lambda n: self.eval(n, module, cls=cls, env=env)
        if isinstance(node, ast.Constant):
            return node.value
        if isinstance(node, ast.Name):
            if node.id in env:
                return env[node.id]
            if cls is not None:
                owner, expr = cls.find_assign(node.id)
                if owner is cls:
                    return self.class_const(cls, node.id)
            return self._module_name(module, node.id)
        if isinstance(node, ast.Attribute):
            base = ev(node.value)
            if isinstance(base, tuple) and base and base[0] in ("module", "class"):
                r = self.p.resolve_attr(base, node.attr)
                if r is None:
                    raise Unfoldable("no attribute %s" % unparse(node))
                return self._resolved(r)
            if isinstance(base, ExtRef):
                d = base.dotted + "." + node.attr
                if d in _EXT_CONSTS:
                    return _EXT_CONSTS[d]
                return ExtRef(d)
            raise Unfoldable("attribute of value: %s" % unparse(node))
        if isinstance(node, ast.JoinedStr):
            out = []
            for v in node.values:
                if isinstance(v, ast.Constant):
                    out.append(v.value)
                elif isinstance(v, ast.FormattedValue):
                    val = ev(v.value)
                    if not isinstance(val, (str, int)):
                        raise Unfoldable("f-string part %s" % unparse(v.value))
                    if v.conversion == ord("r"):
                        val = repr(val)
                    elif v.conversion == ord("s"):
                        val = str(val)
                    spec = ev(v.format_spec) if v.format_spec is not None else ""
                    out.append(format(val, spec))
                else:
                    raise Unfoldable("f-string")
            return "".join(out)
        if isinstance(node, ast.BinOp):
            a, b = ev(node.left), ev(node.right)
            self._check_plain(a), self._check_plain(b)
            try:
                r = _binop(node.op, a, b)
            except Unfoldable:
                raise
            except Exception as e:
                raise Unfoldable("binop failed: %s" % e)
            self._check_size(r)
            return r
        if isinstance(node, ast.UnaryOp):
            v = ev(node.operand)
            self._check_plain(v)
            if isinstance(node.op, ast.USub):
                return -v
            if isinstance(node.op, ast.Not):
                return not v
            if isinstance(node.op, ast.Invert):
                return ~v
            if isinstance(node.op, ast.UAdd):
                return +v
        if isinstance(node, ast.Tuple):
            return tuple(self._elts(node.elts, ev))
        if isinstance(node, ast.List):
            return list(self._elts(node.elts, ev))
        if isinstance(node, ast.Set):
            return set(self._elts(node.elts, ev))
        if isinstance(node, ast.Dict):
            d = {}
            for k, v in zip(node.keys, node.values):
                if k is None:
                    d.update(ev(v))
                else:
                    d[ev(k)] = ev(v)
            return d
        if isinstance(node, ast.Subscript):
            base = ev(node.value)
            self._check_plain(base)
            if isinstance(node.slice, ast.Slice):
                lo = ev(node.slice.lower) if node.slice.lower else None
                hi = ev(node.slice.upper) if node.slice.upper else None
                st = ev(node.slice.step) if node.slice.step else None
                return base[lo:hi:st]
            idx = ev(node.slice)
            try:
                return base[idx]
            except Exception as e:
                raise Unfoldable("subscript failed: %s" % e)
        if isinstance(node, ast.IfExp):
            return ev(node.body) if ev(node.test) else ev(node.orelse)
        if isinstance(node, ast.Compare):
            left = ev(node.left)
            for op, c in zip(node.ops, node.comparators):
                right = ev(c)
                ok = self._cmp(op, left, right)
                if not ok:
                    return False
                left = right
            return True
        if isinstance(node, ast.BoolOp):
            vals = None
            for v in node.values:
                vals = ev(v)
                if isinstance(node.op, ast.And) and not vals:
                    return vals
                if isinstance(node.op, ast.Or) and vals:
                    return vals
            return vals
        if isinstance(node, (ast.ListComp, ast.SetComp, ast.GeneratorExp, ast.DictComp)):
            return self._comp(node, module, cls, env)
        if isinstance(node, ast.Call):
            return self._call(node, module, cls, env)
        if isinstance(node, ast.Starred):
            raise Unfoldable("starred")
        raise Unfoldable("expression kind %s: %s" % (type(node).__name__, unparse(node)[:60]))

    def _elts(self, elts, ev):
        out = []
        for e in elts:
            if isinstance(e, ast.Starred):
                out.extend(ev(e.value))
            else:
                out.append(ev(e))
        return out

    def _cmp(self, op, a, b):
        try:
            if isinstance(op, ast.Eq):
                return a == b
            if isinstance(op, ast.NotEq):
                return a != b
            if isinstance(op, ast.Lt):
                return a < b
            if isinstance(op, ast.LtE):
                return a <= b
            if isinstance(op, ast.Gt):
                return a > b
            if isinstance(op, ast.GtE):
                return a >= b
            if isinstance(op, ast.In):
                return a in b
            if isinstance(op, ast.NotIn):
                return a not in b
            if isinstance(op, ast.Is):
                return a is b
            if isinstance(op, ast.IsNot):
                return a is not b
        except Exception as e:
            raise Unfoldable("compare failed: %s" % e)
        raise Unfoldable("compare op")

    def _check_plain(self, v):
        if isinstance(v, (ExtRef, Rx)) or (isinstance(v, tuple) and v and v[0] in ("module", "class") and len(v) == 2 and not isinstance(v[1], (str, int))):
            raise Unfoldable("non-plain operand %r" % (v,))

    def _check_size(self, v):
        try:
            if hasattr(v, "__len__") and len(v) > _MAX_SIZE:
                raise Unfoldable("value too large")
        except TypeError:
            pass

    def _comp(self, node, module, cls, env):
        results = []

        def bind(target, val, e):
            if isinstance(target, ast.Name):
                e[target.id] = val
            elif isinstance(target, (ast.Tuple, ast.List)):
                vals = list(val)
                if len(vals) != len(target.elts):
                    raise Unfoldable("unpack mismatch")
                for t, v in zip(target.elts, vals):
                    bind(t, v, e)
            else:
                raise Unfoldable("comprehension target")

        def rec(i, e):
            if i == len(node.generators):
                if isinstance(node, ast.DictComp):
                    results.append((self.eval(node.key, module, cls, e), self.eval(node.value, module, cls, e)))
                else:
                    results.append(self.eval(node.elt, module, cls, e))
                return
            g = node.generators[i]
            it = self.eval(g.iter, module, cls, e)
            self._check_plain(it)
            if isinstance(it, dict):
                it = list(it)
            if isinstance(it, (set, frozenset)):
                it = sorted(it, key=repr)
            for val in it:
                e2 = dict(e)
                bind(g.target, val, e2)
                if all(self.eval(c, module, cls, e2) for c in g.ifs):
                    rec(i + 1, e2)
                if len(results) > _MAX_SIZE:
                    raise Unfoldable("comprehension too large")

        rec(0, dict(env))
        if isinstance(node, ast.ListComp):
            return results
        if isinstance(node, ast.GeneratorExp):
            return results
        if isinstance(node, ast.SetComp):
            return set(results)
        return dict(results)

    def _call(self, node, module, cls, env):
        ev = lambda n: self.eval(n, module, cls=cls, env=env)
        args = []
        for a in node.args:
            if isinstance(a, ast.Starred):
                args.extend(ev(a.value))
            else:
                args.append(ev(a))
        kwargs = {}
        for k in node.keywords:
            if k.arg is None:
                kwargs.update(ev(k.value))
            else:
                kwargs[k.arg] = ev(k.value)
        f = node.func
        # method on a folded value
        if isinstance(f, ast.Attribute):
            try:
                recv = ev(f.value)
            except Unfoldable:
                recv = None
                raise
            if isinstance(recv, ExtRef):
                dotted = recv.dotted + "." + f.attr
                return self._ext_call(dotted, args, kwargs)
            if isinstance(recv, tuple) and recv and recv[0] in ("module", "class"):
                r2 = self.p.resolve_attr(recv, f.attr)
                if r2 and r2[0] == "func" and (recv[0] == "module" or r2[1].is_staticmethod):
                    return self.call_function(r2[1], args, kwargs)
                raise Unfoldable("call into package: %s" % unparse(f))
            for ty, names in _PURE_METHODS.items():
                if type(recv) is ty and f.attr in names:
                    try:
                        r = getattr(recv, f.attr)(*args, **kwargs)
                    except Exception as e:
                        raise Unfoldable("%s failed: %s" % (unparse(f), e))
                    if f.attr in ("keys", "values", "items"):
                        r = list(r)
                    self._check_size(r)
                    return r
            raise Unfoldable("method %s on %s" % (f.attr, type(recv).__name__))
        if isinstance(f, ast.Name):
            if f.id in env:
                raise Unfoldable("call of local")
            r = self.p.resolve_module_name(module, f.id)
            if r is None:
                if f.id in _PURE_BUILTINS:
                    try:
                        return _PURE_BUILTINS[f.id](*args, **kwargs)
                    except Exception as e:
                        raise Unfoldable("%s failed: %s" % (f.id, e))
                raise Unfoldable("call of unknown %s" % f.id)
            if r[0] == "ext":
                return self._ext_call(r[1], args, kwargs)
            if r[0] == "func":
                return self.call_function(r[1], args, kwargs)
            raise Unfoldable("call into package: %s" % f.id)
        raise Unfoldable("call %s" % unparse(f))

    # -- compile-time evaluation of simple pure package functions over constants ---
    _MUTATORS = {"append", "extend", "insert", "update", "add", "setdefault"}

    def call_function(self, fn, args, kwargs, depth=0):
        """Fold a call of a package function whose body is straight-line / loops / ifs over constants
        (no I/O, no attribute stores).  Used for helper functions that build patterns and tables."""
        if depth > 6:
            raise Unfoldable("fold recursion")
        if fn.vararg or fn.kwarg:
            raise Unfoldable("varargs function %s" % fn.name)
        env = {}
        params = list(fn.params)
        if len(args) > len(params):
            raise Unfoldable("too many arguments for %s" % fn.name)
        for pn, a in zip(params, args):
            env[pn] = a
        for k, v in kwargs.items():
            if k not in params and k not in fn.kwonly:
                raise Unfoldable("unknown keyword %s" % k)
            env[k] = v
        for pn in params + list(fn.kwonly):
            if pn not in env:
                d = fn.defaults.get(pn)
                if d is None:
                    raise Unfoldable("missing argument %s of %s" % (pn, fn.name))
                env[pn] = self.eval(d, fn.module, cls=fn.cls)
        self._steps = getattr(self, "_steps", 0)
        r = self._run_block(fn.node.body, fn, env)
        if r is _NORETURN:
            return None
        return r[1]

    def _run_block(self, stmts, fn, env):
        for st in stmts:
            self._steps += 1
            if self._steps > 200000:
                raise Unfoldable("fold budget exceeded")
            r = self._run_stmt(st, fn, env)
            if r is not _NORETURN:
                return r
        return _NORETURN

    def _assign(self, target, val, fn, env):
        if isinstance(target, ast.Name):
            env[target.id] = val
        elif isinstance(target, (ast.Tuple, ast.List)):
            vals = list(val)
            if len(vals) != len(target.elts):
                raise Unfoldable("unpack mismatch")
            for t, v in zip(target.elts, vals):
                self._assign(t, v, fn, env)
        elif isinstance(target, ast.Subscript) and isinstance(target.value, ast.Name) and target.value.id in env and isinstance(env[target.value.id], (list, dict)):
            env[target.value.id][self.eval(target.slice, fn.module, cls=fn.cls, env=env)] = val
        else:
            raise Unfoldable("assignment target %s" % type(target).__name__)

    def _run_stmt(self, st, fn, env):
        ev = lambda n: self.eval(n, fn.module, cls=fn.cls, env=env)
        if isinstance(st, ast.Expr):
            v = st.value
            if isinstance(v, ast.Constant):
                return _NORETURN
            if isinstance(v, ast.Call) and isinstance(v.func, ast.Attribute) and isinstance(v.func.value, ast.Name) and v.func.value.id in env and v.func.attr in self._MUTATORS:
                obj = env[v.func.value.id]
                if not isinstance(obj, (list, dict, set)):
                    raise Unfoldable("mutation of non-container")
                getattr(obj, v.func.attr)(*[ev(a) for a in v.args])
                return _NORETURN
            if isinstance(v, ast.Call) and isinstance(v.func, ast.Attribute) and isinstance(v.func.value, ast.Name) and v.func.value.id == "logging":
                return _NORETURN
            raise Unfoldable("expression statement %s" % unparse(v)[:40])
        if isinstance(st, ast.Assign):
            val = ev(st.value)
            for t in st.targets:
                self._assign(t, val, fn, env)
            return _NORETURN
        if isinstance(st, ast.AnnAssign):
            if st.value is not None:
                self._assign(st.target, ev(st.value), fn, env)
            return _NORETURN
        if isinstance(st, ast.AugAssign):
            if not isinstance(st.target, ast.Name) or st.target.id not in env:
                raise Unfoldable("augmented assignment target")
            env[st.target.id] = _binop(st.op, env[st.target.id], ev(st.value))
            return _NORETURN
        if isinstance(st, ast.Return):
            return ("return", ev(st.value) if st.value is not None else None)
        if isinstance(st, ast.Pass):
            return _NORETURN
        if isinstance(st, ast.If):
            return self._run_block(st.body if ev(st.test) else st.orelse, fn, env)
        if isinstance(st, ast.For):
            it = ev(st.iter)
            self._check_plain(it)
            if isinstance(it, dict):
                it = list(it)
            for x in list(it):
                self._assign(st.target, x, fn, env)
                r = self._run_block(st.body, fn, env)
                if r is not _NORETURN:
                    return r
            return self._run_block(st.orelse, fn, env)
        raise Unfoldable("statement kind %s in %s" % (type(st).__name__, fn.name))

    def _ext_call(self, dotted, args, kwargs):
        if dotted == "re.compile":
            pat = args[0] if args else kwargs.get("pattern")
            flags = args[1] if len(args) > 1 else kwargs.get("flags", 0)
            if not isinstance(pat, str):
                raise Unfoldable("re.compile of non-str")
            return Rx(pat, flags)
        if dotted == "re.escape":
            if len(args) == 1 and isinstance(args[0], str):
                return re.escape(args[0])
        if dotted in ("itertools.chain", "itertools.chain.from_iterable") and not kwargs:
            # over folded constant sequences: the concatenation (a list stands for the one-shot iterator; the hazard rule watches its uses)
            seqs = args if dotted == "itertools.chain" else (list(args[0]) if len(args) == 1 and isinstance(args[0], (list, tuple)) else None)
            if seqs is not None and all(isinstance(a, (list, tuple, str)) for a in seqs):
                out = []
                for a in seqs:
                    out.extend(a)
                return out
        raise Unfoldable("external call %s" % dotted)
