"""Callee resolution, light type inference, call graph, argument binding.

Types are small tokens:
  ("inst", ClassInfo)   instance of a package class
  ("cls", ClassInfo)    the class object itself
  ("func", FunctionInfo, bound)  package function / (un)bound method
  ("mod", ModuleInfo)   package module
  ("ext", dotted)       callable / object outside the package, e.g. hashlib.md5
  ("xinst", dotted)     instance of an outside type, e.g. re.Pattern, str, bidict.bidict
"""
from .flow import walk_effects, show, subterms
from .fold import Rx, ExtRef, Unfoldable
from .source import AnalysisError

# return types of outside callables (dotted name -> type token)
EXT_RETURNS = {
    "re.compile": ("xinst", "re.Pattern"),
    "re.match": ("xinst", "re.Match"),
    "re.search": ("xinst", "re.Match"),
    "re.fullmatch": ("xinst", "re.Match"),
    "re.sub": ("xinst", "str"),
    "re.escape": ("xinst", "str"),
    "re.Pattern.sub": ("xinst", "str"),
    "re.Pattern.subn": ("xinst", "tuple"),
    "re.Pattern.search": ("xinst", "re.Match"),
    "re.Pattern.match": ("xinst", "re.Match"),
    "re.Pattern.fullmatch": ("xinst", "re.Match"),
    "re.Pattern.pattern": ("xinst", "str"),
    "re.Match.group": ("xinst", "str"),
    "re.Match.groupdict": ("xinst", "dict"),
    "re.Match.groups": ("xinst", "tuple"),
    "hashlib.md5": ("xinst", "hashlib.hash"),
    "hashlib.sha256": ("xinst", "hashlib.hash"),
    "hashlib.sha1": ("xinst", "hashlib.hash"),
    "hashlib.hash.hexdigest": ("xinst", "str"),
    "hashlib.hash.digest": ("xinst", "bytes"),
    "builtins.open": ("xinst", "io.TextIO"),
    "builtins.str": ("xinst", "str"),
    "builtins.int": ("xinst", "int"),
    "builtins.len": ("xinst", "int"),
    "builtins.list": ("xinst", "list"),
    "builtins.set": ("xinst", "set"),
    "builtins.dict": ("xinst", "dict"),
    "builtins.tuple": ("xinst", "tuple"),
    "builtins.sorted": ("xinst", "list"),
    "builtins.range": ("xinst", "range"),
    "builtins.enumerate": ("xinst", "enumerate"),
    "builtins.reversed": ("xinst", "iterator"),
    "builtins.zip": ("xinst", "iterator"),
    "builtins.chr": ("xinst", "str"),
    "builtins.ord": ("xinst", "int"),
    "builtins.repr": ("xinst", "str"),
    "builtins.format": ("xinst", "str"),
    "builtins.any": ("xinst", "bool"),
    "builtins.all": ("xinst", "bool"),
    "builtins.sum": ("xinst", "int"),
    "builtins.super": ("xinst", "super"),
    "bidict.bidict": ("xinst", "bidict.bidict"),
    "bidict.bidict.inv": ("xinst", "bidict.bidict"),
    "bidict.bidict.inverse": ("xinst", "bidict.bidict"),
    "binascii.b2a_hex": ("xinst", "bytes"),
    "binascii.hexlify": ("xinst", "bytes"),
    "bytes.decode": ("xinst", "str"),
    "bytes.hex": ("xinst", "str"),
    "ipaddress.ip_network": ("xinst", "ipaddress.network"),
    "ipaddress.ip_address": ("xinst", "ipaddress.address"),
    "ipaddress.IPv4Address": ("xinst", "ipaddress.IPv4Address"),
    "ipaddress.IPv6Address": ("xinst", "ipaddress.IPv6Address"),
    "ipaddress.IPv4Network": ("xinst", "ipaddress.network"),
    "ipaddress.IPv6Network": ("xinst", "ipaddress.network"),
    "configargparse.ArgParser": ("xinst", "configargparse.ArgParser"),
    "configargparse.ArgumentParser": ("xinst", "configargparse.ArgParser"),
    "configargparse.ArgParser.parse_args": ("xinst", "argparse.Namespace"),
    "os.path.join": ("xinst", "str"),
    "os.path.dirname": ("xinst", "str"),
    "os.path.relpath": ("xinst", "str"),
    "os.path.basename": ("xinst", "str"),
    "os.path.abspath": ("xinst", "str"),
    "os.walk": ("xinst", "iterator"),
    "os.listdir": ("xinst", "list"),
    "logging.getLevelName": ("xinst", "int"),
    "passlib.hash.md5_crypt.using": ("ext", "passlib.hash.md5_crypt"),
    "passlib.hash.sha512_crypt.using": ("ext", "passlib.hash.sha512_crypt"),
    "passlib.hash.cisco_type7.using": ("ext", "passlib.hash.cisco_type7"),
    "passlib.hash.md5_crypt.hash": ("xinst", "str"),
    "passlib.hash.sha512_crypt.hash": ("xinst", "str"),
    "passlib.hash.cisco_type7.hash": ("xinst", "str"),
}

_STR_RET_STR = {
    "format", "join", "lower", "upper", "strip", "lstrip", "rstrip", "replace", "title",
    "capitalize", "zfill", "casefold", "swapcase", "ljust", "rjust", "center", "expandtabs",
}
_STR_RET_LIST = {"split", "rsplit", "splitlines"}
_STR_RET_BOOL = {"startswith", "endswith", "isdigit", "isalpha", "isalnum", "isspace", "islower", "isupper"}

_PYTYPE_NAMES = {str: "str", int: "int", bool: "bool", bytes: "bytes", list: "list", tuple: "tuple",
                 set: "set", frozenset: "frozenset", dict: "dict", type(None): "None", float: "float"}


class CallSite:
    def __init__(self, owner, effect, loops, path, targets, in_lambda=None):
        self.owner = owner  # FunctionInfo containing the call
        self.effect = effect
        self.term = effect.a
        self.loops = loops
        self.path = path
        self.targets = targets  # list of type tokens
        self.in_lambda = in_lambda

    @property
    def where(self):
        return "%s:%d" % (self.owner.module.relpath, self.effect.lineno)

    def ext_names(self):
        return [t[1] for t in self.targets if t[0] in ("ext",)]

    def funcs(self):
        return [t[1] for t in self.targets if t[0] == "func"]

    def classes(self):
        return [t[1] for t in self.targets if t[0] == "cls"]

    def __repr__(self):
        return "<call %s @%s -> %s>" % (show(self.term), self.where, self.targets)


class CallGraph:
    def __init__(self, analysis):
        self.A = analysis
        self.p = analysis.p
        self.folder = analysis.folder
        self.field_types = {}  # (class qualname, field) -> set(type)
        self.param_types = {}  # (fn qualname, param) -> set(type)
        self.return_types = {}  # fn qualname -> set(type)
        self.sites = []
        self.by_owner = {}
        self._build()

    # ------------------------------------------------------------------
    def _build(self):
        fns = self.p.all_functions()
        for f in fns:
            self.A.paths(f)
        # default-argument types
        for f in fns:
            for pn, dnode in f.defaults.items():
                ts = self._type_of_default(f, dnode)
                if ts:
                    self.param_types.setdefault((f.qualname, pn), set()).update(ts)
        # fixpoint over field types, param types, return types
        for _round in range(6):
            before = (self._size(self.field_types), self._size(self.param_types), self._size(self.return_types))
            for f in fns:
                fp = self.A.paths(f)
                for e, ls, path in fp.all_effects():
                    if e.kind == "store_attr":
                        bt = self.types_of(e.a, f)
                        for t in bt:
                            if t[0] == "inst":
                                vt = self.types_of(e.c, f)
                                self.field_types.setdefault((t[1].qualname, e.b), set()).update(vt)
                    elif e.kind == "call":
                        self._propagate_args(f, e.a)
                for path in fp.paths:
                    if path.kind == "return":
                        self.return_types.setdefault(f.qualname, set()).update(self.types_of(path.result[1], f))
            after = (self._size(self.field_types), self._size(self.param_types), self._size(self.return_types))
            if after == before:
                break
        # call sites
        for f in fns:
            fp = self.A.paths(f)
            lam_effects = {}
            for uid, li in fp.lambdas.items():
                for e in li.effects:
                    lam_effects[id(e)] = uid
            for e, ls, path in fp.all_effects():
                if e.kind != "call":
                    continue
                targets = self.resolve_callee(e.a[1], f)
                cs = CallSite(f, e, ls, path, targets, in_lambda=lam_effects.get(id(e)))
                self.sites.append(cs)
                self.by_owner.setdefault(f.qualname, []).append(cs)

    @staticmethod
    def _size(d):
        return sum(len(v) for v in d.values())

    def _type_of_default(self, f, node):
        import ast

        if isinstance(node, ast.Constant):
            return {("xinst", _PYTYPE_NAMES.get(type(node.value), "object"))}
        if isinstance(node, ast.Name):
            r = self.p.resolve_module_name(f.module, node.id)
            return self._types_of_resolved(r)
        return set()

    def _types_of_resolved(self, r):
        if r is None:
            return set()
        k = r[0]
        if k == "func":
            return {("func", r[1], False)}
        if k == "class":
            return {("cls", r[1])}
        if k == "module":
            return {("mod", r[1])}
        if k == "ext":
            return {("ext", r[1])}
        if k in ("const", "classconst"):
            try:
                v = self.folder._resolved(r)
            except Unfoldable:
                return set()
            return self._types_of_value(v)
        return set()

    def _types_of_value(self, v):
        if isinstance(v, Rx):
            return {("xinst", "re.Pattern")}
        if isinstance(v, ExtRef):
            return {("ext", v.dotted)}
        if isinstance(v, tuple) and v and v[0] == "module" and len(v) == 2:
            return {("mod", v[1])}
        if isinstance(v, tuple) and v and v[0] == "class" and len(v) == 2:
            return {("cls", v[1])}
        n = _PYTYPE_NAMES.get(type(v))
        return {("xinst", n)} if n else set()

    # ------------------------------------------------------------------
    def types_of(self, t, fn, depth=0):
        """Set of type tokens a term may have inside function fn."""
        if t is None or depth > 8:
            return set()
        tag = t[0]
        if tag == "const":
            n = _PYTYPE_NAMES.get(type(t[1]))
            return {("xinst", n)} if n else set()
        if tag == "param":
            name = t[1]
            if fn.cls is not None and fn.params and name == fn.params[0] and not fn.is_staticmethod:
                if fn.is_classmethod:
                    return {("cls", fn.cls)}
                return {("inst", fn.cls)}
            return set(self.param_types.get((fn.qualname, name), ()))
        if tag == "global":
            m = self.p.modules[t[1]]
            return self._types_of_resolved(self.p.resolve_module_name(m, t[2]))
        if tag == "builtin":
            return {("ext", "builtins." + t[1])}
        if tag == "attr":
            out = set()
            for bt in self.types_of(t[1], fn, depth + 1):
                out |= self._attr_type(bt, t[2])
            return out
        if tag == "call":
            out = set()
            for ct in self.types_of(t[1], fn, depth + 1):
                out |= self._call_result(ct, t, fn)
            return out
        if tag in ("fstr",):
            return {("xinst", "str")}
        if tag == "binop":
            l = self.types_of(t[2], fn, depth + 1)
            r = self.types_of(t[3], fn, depth + 1)
            if t[1] == "%" and ("xinst", "str") in l:
                return {("xinst", "str")}
            if ("xinst", "str") in l or ("xinst", "str") in r:
                return {("xinst", "str")}
            return l | r
        if tag == "mut":
            return self.types_of(t[1], fn, depth + 1)
        if tag in ("list", "tuple", "set", "dict"):
            return {("xinst", tag)}
        if tag == "comp":
            return {("xinst", {"gen": "iterator"}.get(t[1], t[1]))}
        if tag == "ifexp":
            return self.types_of(t[2], fn, depth + 1) | self.types_of(t[3], fn, depth + 1)
        if tag == "sub":
            bts = self.types_of(t[1], fn, depth + 1)
            if ("xinst", "str") in bts:
                return {("xinst", "str")}
            return set()
        if tag == "lambda":
            return {("lambda", t[1])}
        if tag == "compare" or tag == "boolop" and False:
            return {("xinst", "bool")}
        if tag == "bound" or tag == "loopvar":
            return set()
        return set()

    def _attr_type(self, bt, attr):
        k = bt[0]
        if k == "inst":
            c = bt[1]
            out = set()
            # methods: dynamic dispatch may land in a subclass override
            m = c.find_method(attr)
            cands = []
            if m is not None:
                cands.append(m)
            for sc in self.p.subclasses(c):
                if attr in sc.methods:
                    cands.append(sc.methods[attr])
            for m in cands:
                if not m.is_abstract or len(cands) == 1:
                    out.add(("func", m, True))
            if out:
                return out
            for cc in c.mro() + self.p.subclasses(c):
                out |= self.field_types.get((cc.qualname, attr), set())
            owner, expr = c.find_assign(attr)
            if owner is not None:
                out |= self._types_of_resolved(("classconst", owner, attr))
            return out
        if k == "cls":
            c = bt[1]
            m = c.find_method(attr)
            if m is not None:
                out = {("func", m, m.is_classmethod)}
                for sc in self.p.subclasses(c):
                    if attr in sc.methods and m.is_classmethod:
                        out.add(("func", sc.methods[attr], True))
                if m.is_abstract and len(out) > 1:
                    out.discard(("func", m, m.is_classmethod))
                return out
            owner, expr = c.find_assign(attr)
            if owner is not None:
                return self._types_of_resolved(("classconst", owner, attr))
            return set()
        if k == "mod":
            return self._types_of_resolved(self.p.resolve_module_name(bt[1], attr))
        if k == "ext":
            return {("ext", bt[1] + "." + attr)}
        if k == "xinst":
            d = bt[1] + "." + attr
            if d in EXT_RETURNS and attr in ("inv", "inverse", "pattern"):
                return {EXT_RETURNS[d]}
            return {("ext", d)}
        if k == "func":
            return set()
        return set()

    def _call_result(self, ct, call_term, fn):
        k = ct[0]
        if k == "cls":
            return {("inst", ct[1])}
        if k == "func":
            return set(self.return_types.get(ct[1].qualname, ()))
        if k == "ext":
            d = ct[1]
            if d in EXT_RETURNS:
                return {EXT_RETURNS[d]}
            head, _, meth = d.rpartition(".")
            if head == "str":
                if meth in _STR_RET_STR:
                    return {("xinst", "str")}
                if meth in _STR_RET_LIST:
                    return {("xinst", "list")}
                if meth in _STR_RET_BOOL:
                    return {("xinst", "bool")}
                if meth == "encode":
                    return {("xinst", "bytes")}
            # methods named like str methods on an untyped receiver (argparse values, loop variables ...)
            if meth in _STR_RET_LIST:
                return {("xinst", "list")}
            if meth in ("join", "format", "lower", "upper", "strip", "lstrip", "rstrip"):
                return {("xinst", "str")}
            if head == "builtins.super" or d == "builtins.super":
                return {("xinst", "super")}
            return set()
        return set()

    def _propagate_args(self, f, call_term):
        for ct in self.types_of(call_term[1], f):
            callee = None
            skip = 0
            if ct[0] == "func":
                callee, skip = ct[1], (1 if ct[2] else 0)
            elif ct[0] == "cls":
                callee = ct[1].find_method("__init__")
                skip = 1
            if callee is None:
                continue
            b = bind_args(call_term, callee, skip)
            if b is None:
                continue
            for pn, term in b.items():
                if pn.startswith("*"):
                    continue
                ts = self.types_of(term, f)
                if ts:
                    self.param_types.setdefault((callee.qualname, pn), set()).update(ts)
        # callbacks: pattern.sub(lambda m: ..., line): lambda params are Match objects
        # (their calls are resolved through 'bound' names, which we leave untyped)

    # ------------------------------------------------------------------
    def resolve_callee(self, func_term, fn):
        ts = self.types_of(func_term, fn)
        # super().__init__ / super(C, self).__init__
        if func_term[0] == "attr" and func_term[1][0] == "call" and func_term[1][1] == ("builtin", "super") and fn.cls is not None:
            out = []
            for c in fn.cls.mro()[1:]:
                if func_term[2] in c.methods:
                    out.append(("func", c.methods[func_term[2]], True))
                    break
            if not out:
                out.append(("ext", "builtins.object." + func_term[2]))
            return out
        return sorted(ts, key=lambda t: (t[0], getattr(t[1], "qualname", str(t[1]))))

    # ------------------------------------------------------------------
    def callees_of(self, qualname):
        out = set()
        for cs in self.by_owner.get(qualname, ()):
            for t in cs.targets:
                if t[0] == "func":
                    out.add(t[1].qualname)
                elif t[0] == "cls":
                    init = t[1].find_method("__init__")
                    if init is not None:
                        out.add(init.qualname)
            # a package function handed over as a VALUE (callback of re.sub, key=, map, ...) is called by somebody: reachable from here
            args = list(cs.term[2]) + [v for k, v in cs.term[3]]
            for a in args:
                if isinstance(a, tuple) and a and a[0] in ("attr", "global"):
                    try:
                        for t in self.types_of(a, cs.owner):
                            if t[0] == "func":
                                out.add(t[1].qualname)
                    except Exception:
                        pass
                if isinstance(a, tuple) and a and a[0] == "lambda":
                    pass  # the lambda's own calls are effects of the owner already
        return out

    def reachable(self, roots):
        seen = set()
        todo = list(roots)
        while todo:
            q = todo.pop()
            if q in seen:
                continue
            seen.add(q)
            todo.extend(self.callees_of(q))
        return seen

    def sites_in(self, qualnames):
        for q in sorted(qualnames):
            for cs in self.by_owner.get(q, ()):
                yield cs

    def unresolved_in(self, qualnames):
        out = []
        for cs in self.sites_in(qualnames):
            if not cs.targets:
                out.append(cs)
        return out


def bind_args(call_term, callee, skip=0):
    """Bind the actual arguments of a call term to callee's formal parameters.

    Returns {param: term}; extra positionals under "*", unknown keywords under
    "**name".  None when *args / **kwargs at the call site make binding unknown."""
    _, _f, args, kwargs = call_term
    params = callee.params[skip:]
    out = {}
    pos = list(args)
    if any(a[0] == "star" for a in pos):
        return None
    for i, a in enumerate(pos):
        if i < len(params):
            out[params[i]] = a
        else:
            out.setdefault("*", [])
            out["*"].append(a)
    for k, v in kwargs:
        if k is None:
            out["**"] = v
            continue
        if k in params or k in callee.kwonly:
            out[k] = v
        else:
            out["**" + k] = v
    return out
