#!/bin/sh
# Offline setup: nothing to build or install (stdlib only). Sanity-check the interpreter and the analyser import.
cd "$(dirname "$0")" || exit 1
PY=/venv/bin/python; [ -x "$PY" ] || PY=python3
PYTHONDONTWRITEBYTECODE=1 PYTHONPATH="$(pwd)" "$PY" -S -c "import nc_static.main, nc_static.rx; print('nc_static ok')"
mkdir -p evidence
